"""The published catalogues of bxdecay0: README.rst Appendix 1 and resources/description/*.lis, parsed from the
repository's working tree (used by C05, C06, C13, C17)."""
import os
import re

import vlib


def lis(name):
    p = os.path.join(vlib.repo(), "resources", "description", name)
    out = []
    for l in open(p, errors="replace"):
        w = l.split()
        if w and not w[0].startswith("#"):
            out.append(w)
    return out


def lis_background():
    return [w[0] for w in lis("background_isotopes.lis")]


def lis_dbd():
    return [w[0] for w in lis("dbd_isotopes.lis")]


def lis_modes():
    """[(id, label, legacy, description)]"""
    res = []
    for w in lis("dbd_modes.lis"):
        try:
            res.append((int(w[0]), w[1], int(w[2]), " ".join(w[3:])))
        except (ValueError, IndexError):
            pass
    return res


def readme_sections():
    txt = open(os.path.join(vlib.repo(), "README.rst"), errors="replace").read().split("\n")
    try:
        i0 = next(i for i, l in enumerate(txt) if l.startswith("Appendix 1"))
    except StopIteration:
        raise vlib.InfraError("README.rst: Appendix 1 not found")
    sec = {}
    cur = None
    for i in range(i0, len(txt)):
        l = txt[i]
        if i + 1 < len(txt) and re.match(r"^[-=]{5,}\s*$", txt[i + 1]) and l.strip():
            cur = l.strip()
            sec[cur] = []
            continue
        if cur:
            sec[cur].append(l)
    return sec


def readme_dbd():
    sec = readme_sections()
    k = next(x for x in sec if "double beta decay isotopes" in x)
    return [m.group(1) for l in sec[k] for m in [re.match(r"^\* ``([\w+-]+)``", l)] if m]


def readme_background():
    """[(base, long-or-None)]"""
    sec = readme_sections()
    k = next(x for x in sec if "background/calibration" in x)
    res = []
    for l in sec[k]:
        m = re.match(r"^\* ``([\w+-]+)``(.*)$", l)
        if m:
            m2 = re.search(r"\(for ``([\w+-]+)``\)", m.group(2))
            res.append((m.group(1), m2.group(1) if m2 else None))
    return res


def readme_levels():
    """isotope -> [(index, spin text, energy MeV as string)]"""
    sec = readme_sections()
    k = next(x for x in sec if "daughter nucleus excited states" in x)
    res = {}
    cur = None
    for l in sec[k]:
        m = re.match(r"^\* ``(\w+)``\s*->", l)
        if m:
            cur = m.group(1)
            res[cur] = []
            continue
        m = re.match(r"^\s+(\d+)\.\s+(\S+?)\??\s*(?:\(([^)]*)\)\s+)?[{(]([0-9.]+)\s*MeV\}", l)
        if m and cur:
            res[cur].append((int(m.group(1)), m.group(2), m.group(4)))
    return res


def readme_modes():
    """[(id, label, legacy or None)]"""
    sec = readme_sections()
    k = next(x for x in sec if "double beta decay modes" in x)
    res = []
    for l in sec[k]:
        m = re.match(r"^``DBDMODE_(\d+)``\s+``([^`]+)``\s+(\S+)", l)
        if m:
            res.append((int(m.group(1)), m.group(2), None if m.group(3) == "NA" else int(m.group(3))))
    return res
