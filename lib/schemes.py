"""Paths and deviate plans over the scheme graphs extracted from the reference (build/<key>/gen/schemes.json)."""
import collections
import json
import os
import random
from decimal import Decimal

import vlib


class Schemes:
    def __init__(self):
        d = vlib.gen_dir()
        self.data = json.load(open(os.path.join(d, "schemes.json")))["schemes"]
        self.tab = json.load(open(os.path.join(d, "dbdtable.json")))
        self.by_lower = {k.lower(): k for k in self.data}
        self.out = {}
        for k, s in self.data.items():
            o = collections.defaultdict(list)
            for i, e in enumerate(s["edges"]):
                o[e["src"]].append(i)
            self.out[k] = o

    def key_of_call(self, call):
        return self.by_lower[call.lower()]

    def bkg_names(self, port_only=False):
        """reference background names -> chain of scheme keys [(key, unless_alpha_first)]
        port_only=True adds the nuclides that exist only in the port (graphs extracted from the C++ text, tools/c2f.py):
        usable wherever no reference is needed (steering, well-formedness, dispatch, history, memory safety)"""
        res = {}
        for nm, chain in self.tab["chains"]["bkg"].items():
            if nm in ("Artificial", "Compton", "Moller", "E+E-external"):
                continue
            res[nm] = [(self.key_of_call(c["call"]), c["unless_alpha_first"]) for c in chain]
        if port_only:
            for nm, chain in self.tab["chains"].get("port_only", {}).items():
                res[nm] = [(self.key_of_call(c["call"]), c["unless_alpha_first"]) for c in chain]
        return res

    def all_paths(self, key, limit=None):
        """every path entry ~> Return as a list of edge indices (DFS)"""
        s = self.data[key]
        out = self.out[key]
        paths = []

        onpath = set()

        def dfs(n, acc):
            if limit is not None and len(paths) >= limit:
                return
            if n == -1:
                paths.append(list(acc))
                return
            if n in onpath:
                return          # a cyclic graph (reported by Scheme.tla!Acyclic): only its simple paths are enumerated
            onpath.add(n)
            for i in out[n]:
                acc.append(i)
                dfs(s["edges"][i]["dst"], acc)
                acc.pop()
            onpath.discard(n)
        dfs(0, [])
        return paths

    def random_path(self, key, rng):
        s = self.data[key]
        n, acc = 0, []
        while n != -1:
            i = rng.choice(self.out[key][n])
            acc.append(i)
            n = s["edges"][i]["dst"]
        return acc

    def witness_paths(self, key):
        """for every edge one path through it (shortest prefix + shortest suffix)"""
        s = self.data[key]
        out = self.out[key]
        # shortest prefix to each node (BFS), shortest suffix from each node (reverse BFS)
        pre = {0: []}
        dq = collections.deque([0])
        while dq:
            u = dq.popleft()
            for i in out[u]:
                d = s["edges"][i]["dst"]
                if d not in pre:
                    pre[d] = pre[u] + [i]
                    dq.append(d)
        suf = {-1: []}
        changed = True
        while changed:
            changed = False
            for i, e in enumerate(s["edges"]):
                if e["dst"] in suf and (e["src"] not in suf or len(suf[e["src"]]) > 1 + len(suf[e["dst"]])):
                    suf[e["src"]] = [i] + suf[e["dst"]]
                    changed = True
        res = []
        for i, e in enumerate(s["edges"]):
            if e["src"] in pre and e["dst"] in suf:
                res.append((i, pre[e["src"]] + [i] + suf[e["dst"]]))
        return res

    def plan(self, key, path, probe=None):
        """deviate plan (list of float | None) for the scheme-level draws of `path`.
        probe = (edge index, 'lo'|'hi'): put that edge's deviate just inside the corresponding end of its region."""
        s = self.data[key]
        draws = []          # [site, value]
        for i in path:
            e = s["edges"][i]
            if e["site"] is not None:
                lo, hi = Decimal(e["lo"]), Decimal(e["hi"])
                v = (lo + hi) / 2
                if probe is not None and probe[0] == i:
                    width = hi - lo
                    if probe[1] == "lo":
                        d = max(lo * Decimal("2e-6"), Decimal("1e-11"))
                        v = lo + min(d, width / 4)
                    else:
                        d = max(hi * Decimal("2e-6"), Decimal("1e-11"))
                        v = hi - min(d, width / 4)
                for k in range(len(draws) - 1, -1, -1):
                    if draws[k][0] == e["site"]:
                        draws[k][1] = v
                        break
                else:
                    raise vlib.InfraError("plan: guard on a draw that was not made: %s %s" % (key, e["site"]))
            for it in e["items"]:
                if it[0] == "draw":
                    draws.append([it[1], None])
        return [None if v is None else float(v) for (_, v) in draws]

    def transitions(self, key):
        """[(edge index, item index, primitive, args)] for every nuclear-transition call of the scheme"""
        res = []
        for i, e in enumerate(self.data[key]["edges"]):
            for j, it in enumerate(e["items"]):
                if it[0] == "call" and it[1].startswith("nucltrans"):
                    res.append((i, j, it[1], it[2]))
        return res

    def transition_ordinal(self, key, path, ei, ij):
        """ordinal of the transition call (edge ei, item ij) among the transition calls made along path"""
        n = 0
        for i in path:
            for j, it in enumerate(self.data[key]["edges"][i]["items"]):
                if it[0] == "call" and it[1].startswith("nucltrans"):
                    if i == ei and j == ij:
                        return n
                    n += 1
        return None

    def joint_outcome_tplans(self, key, path):
        """Along one path, steer ALL nuclear transitions at once: pattern name -> tplan (one deviate per transition, None = free).
        Patterns: every transition to the same outcome (gamma / K / L / M / pair, where at least two transitions have it) and the
        two alternations conversion-electron / gamma - the joint outcomes that code looking at two transitions together
        (angular-correlation blocks, particle indices remembered across transitions) distinguishes."""
        trs = []
        for i in path:
            for it in self.data[key]["edges"][i]["items"]:
                if it[0] == "call" and it[1].startswith("nucltrans"):
                    trs.append(self.transition_outcomes(it[1], it[2]))
        if len(trs) < 2:
            return {}

        def mid(o, name):
            return (o[name][0] + o[name][1]) / 2 if (o and name in o) else None
        res = {}
        for name in ("gamma", "K", "L", "M", "pair"):
            tp = [mid(o, name) for o in trs]
            if sum(1 for v in tp if v is not None) >= 2:
                res["all-" + name] = tp
        for tag, first in (("K-gamma", "K"), ("gamma-K", "gamma")):
            other = "gamma" if first == "K" else "K"
            tp = [mid(o, first if k % 2 == 0 else other) for k, o in enumerate(trs)]
            if sum(1 for v in tp if v is not None) >= 2:
                res["alt-" + tag] = tp
        return res

    @staticmethod
    def transition_outcomes(prim, args):
        """outcome name -> deviate interval (lo, hi) of the primitive's first draw; None if an argument is not a literal"""
        try:
            a = [float(x) for x in args]
        except ValueError:
            return None
        if prim == "nucltransK":
            w = [("gamma", 1.0), ("K", a[2]), ("pair", a[3])]
        elif prim == "nucltransKL":
            w = [("gamma", 1.0), ("K", a[2]), ("L", a[4]), ("pair", a[5])]
        else:
            w = [("gamma", 1.0), ("K", a[2]), ("L", a[4]), ("M", a[6]), ("pair", a[7])]
        tot = sum(x for _, x in w)
        res, acc = {}, 0.0
        for nm, x in w:
            if x > 0:
                res[nm] = (acc / tot, (acc + x) / tot)
            acc += x
        return res

    def argument_collisions(self, keys, per_group=2):
        """Pairs of primitive call sites (in different or the same scheme) that agree on one argument and differ in another:
        the inputs on which a value cached under an incomplete key (or left in a static) would be reused wrongly.
        -> [((key, edge, item), (key, edge, item), primitive, argument position)]"""
        groups = collections.defaultdict(list)
        for k in keys:
            for i, e in enumerate(self.data[k]["edges"]):
                for j, it in enumerate(e["items"]):
                    if it[0] == "call" and "?" not in it[2]:
                        for pos, v in enumerate(it[2]):
                            groups[(it[1], pos, v)].append((k, i, j, tuple(it[2])))
        pairs = []
        for (prim, pos, v), sites in sorted(groups.items()):
            seen = {}
            for s in sites:
                seen.setdefault(s[3], s)
            distinct = list(seen.values())
            if len(distinct) < 2:
                continue
            n = 0
            for a in range(len(distinct)):
                for b in range(a + 1, len(distinct)):
                    if n >= per_group:
                        break
                    pairs.append((distinct[a][:3], distinct[b][:3], prim, pos))
                    n += 1
        return pairs

    def first_is_alpha(self, key, path):
        s = self.data[key]
        for i in path:
            for it in s["edges"][i]["items"]:
                if it[0] == "call":
                    return it[1] == "alpha"
        return False

    def path_sig(self, key, path):
        s = self.data[key]
        return key + ":" + ".".join(str(i) for i in path)


def fmt_plan(plan):
    return "%d %s" % (len(plan), " ".join("x" if v is None else repr(v) for v in plan)) if plan else "0"


def bjob(jid, name, seed, plans, pin=(-1, 0.5), tplan=None, betaplan=None, pin_len=None):
    s = "B %s %s %d %d %r %d %s" % (jid, name, seed, pin[0], pin[1], len(plans), " ".join(fmt_plan(p) for p in plans))
    if tplan:
        s += " T " + fmt_plan(tplan)
    if betaplan:
        s += " E " + fmt_plan(betaplan)
    if pin_len:
        s += " L %d" % pin_len
    return s
