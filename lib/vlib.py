"""Common plumbing for the /verif checks.

* builds (/repo working tree -> /verif/build/<key>/<variant>)
* harness compilation
* running TLC (model checking, simulation, graph dump, trace validation) and parsing its output
* TLA+ value parser (for TLC's dot dump) and graph helpers
* evidence files, replay files, known findings, exit-code protocol
"""
import hashlib
import json
import os
import re
import shutil
import subprocess
import sys
import time

ROOT = os.path.dirname(os.path.dirname(os.path.abspath(__file__)))
SPEC = os.path.join(ROOT, "spec")
# VERIF_OUT_DIR: scratch runs against a patched copy (bin/try_patch) keep their evidence and replays out of /verif
_OUT = os.environ.get("VERIF_OUT_DIR") or ROOT
EVID = os.path.join(_OUT, "evidence")
REPLAYS = os.path.join(_OUT, "replays")
WORK = os.path.join(ROOT, "work")
NCPU = os.cpu_count() or 8


def repo():
    return os.environ.get("VERIF_REPO", "/repo")


def repo_key():
    r = repo()
    return "repo" if r == "/repo" else hashlib.md5(r.encode()).hexdigest()[:8]


def seed():
    try:
        return int(os.environ.get("VERIF_SEED", "12345"))
    except ValueError:
        return 12345


class InfraError(Exception):
    """Something in the machinery (build, TLC, harness) failed: exit 2, never a verdict."""


def sh(cmd, timeout=600, env=None, cwd=None, check=False, input=None, drop_stderr=False):
    e = dict(os.environ)
    if env:
        e.update(env)
    try:
        p = subprocess.run(cmd, stdout=subprocess.PIPE, stderr=subprocess.DEVNULL if drop_stderr else subprocess.STDOUT, timeout=timeout, env=e, cwd=cwd,
                           input=input, text=True, errors="replace")
    except subprocess.TimeoutExpired as ex:
        out = ex.stdout if isinstance(ex.stdout, str) else (ex.stdout or b"").decode(errors="replace")
        if check:
            raise InfraError("timeout (%ss): %s\n%s" % (timeout, cmd, out[-2000:]))
        return 124, out
    if check and p.returncode != 0:
        raise InfraError("command failed (%d): %s\n%s" % (p.returncode, cmd, p.stdout[-4000:]))
    return p.returncode, p.stdout


# ----------------------------------------------------------------------------- builds

def ensure_build(variant):
    rc, out = sh([os.path.join(ROOT, "bin", "ensure_build"), variant], timeout=1500)
    if rc != 0:
        raise InfraError("ensure_build %s failed: %s" % (variant, out[-3000:]))
    return out.strip().splitlines()[-1]


VARIANT_FLAGS = {
    "plain": ("g++", ["-O2", "-g", "-DBXDECAY0_VERIF", "-ftrivial-auto-var-init=pattern"]),
    "asan": ("clang++-14", ["-O1", "-g", "-fno-omit-frame-pointer", "-D_GLIBCXX_SANITIZE_VECTOR", "-DBXDECAY0_VERIF", "-ftrivial-auto-var-init=pattern",
                            "-fsanitize=address,undefined", "-fno-sanitize-recover=undefined"]),
    "tsan": ("clang++-14", ["-O1", "-g", "-DBXDECAY0_VERIF", "-fsanitize=thread"]),
    "nohook": ("g++", ["-O2"]),
}


def compile_harness(name, sources, variant="plain", extra=None, libs=None, link_lib=True, std="c++17"):
    """Compile a harness executable against the library of the given build variant.
    Rebuilt when any source, any header under /verif/harness, or the library is newer."""
    bdir = ensure_build(variant)
    hdir = os.path.join(bdir, "harness")
    os.makedirs(hdir, exist_ok=True)
    exe = os.path.join(hdir, name)
    srcs = [s if os.path.isabs(s) else os.path.join(ROOT, s) for s in sources]
    deps = list(srcs)
    for d in (os.path.join(ROOT, "harness"), os.path.join(ROOT, "harness", "common")):
        if os.path.isdir(d):
            deps += [os.path.join(d, f) for f in os.listdir(d) if f.endswith((".h", ".hpp"))]
    lib = os.path.join(bdir, "libBxDecay0.so")
    if link_lib:
        deps.append(lib)
    flagsig = os.path.join(hdir, name + ".flags")
    cxx, flags = VARIANT_FLAGS[variant]
    cmd = [cxx, "-std=" + std] + flags + ["-I", repo(), "-I", bdir, "-I", os.path.join(ROOT, "harness")]
    cmd += (extra or []) + srcs + ["-o", exe]
    if link_lib:
        cmd += ["-L", bdir, "-lBxDecay0", "-Wl,-rpath," + bdir]
    cmd += ["-lgsl", "-lgslcblas", "-lpthread"] + (libs or [])
    sig = " ".join(cmd)
    if os.path.exists(exe) and os.path.exists(flagsig) and open(flagsig).read() == sig:
        mt = os.path.getmtime(exe)
        if all(os.path.getmtime(d) <= mt for d in deps if os.path.exists(d)):
            return exe
    rc, out = sh(cmd, timeout=900)
    if rc != 0:
        raise InfraError("harness %s failed to compile:\n%s" % (name, out[-6000:]))
    open(flagsig, "w").write(sig)
    return exe


def harness_env(variant="plain"):
    e = {"BXDECAY0_RESOURCE_DIR": os.path.join(repo(), "resources")}
    if variant == "asan":
        e["ASAN_OPTIONS"] = "detect_leaks=0:abort_on_error=0:exitcode=99:detect_stack_use_after_return=1"
        e["UBSAN_OPTIONS"] = "print_stacktrace=1:halt_on_error=1:exitcode=98"
    if variant == "tsan":
        e["TSAN_OPTIONS"] = "exitcode=97:halt_on_error=0:second_deadlock_stack=1"
    return e


# ----------------------------------------------------------------------------- generated specification data

def gen_dir(ensure=True):
    """Directory with the data generated from the repository's reference text (schemes.json, dbdtable.json,
    SchData.tla, DbdTable.tla); regenerated when the text changes."""
    d = os.path.join(ROOT, "build", repo_key(), "gen")
    if ensure:
        rc, out = sh([sys.executable, os.path.join(ROOT, "tools", "gen_spec_data.py"), repo(), d], timeout=300)
        if rc != 0:
            raise InfraError("gen_spec_data failed: " + out[-2000:])
    return d


def ref_dir():
    rc, out = sh([os.path.join(ROOT, "bin", "build_ref")], timeout=600)
    if rc != 0:
        raise InfraError("build_ref failed: " + out[-2000:])
    return out.strip().splitlines()[-1]


# ----------------------------------------------------------------------------- TLC

TLC_JAR = "/opt/veriftools/tla/tla2tools.jar:/opt/veriftools/tla/CommunityModules-deps.jar"


class TLCResult:
    def __init__(self):
        self.rc = None
        self.out = ""
        self.generated = 0
        self.distinct = 0
        self.depth = 0
        self.violated = None   # name of invariant / property / "deadlock" / "postcondition"
        self.error = None      # infra / semantic error text
        self.trace = []        # counterexample states (list of dict var -> python value)
        self.coverage = {}     # action -> (taken, generated) when -coverage was on
        self.wall = 0.0

    @property
    def ok(self):
        return self.error is None and self.violated is None


_workctr = [0]


def workdir(tag):
    _workctr[0] += 1
    d = os.path.join(WORK, "%s.%d.%d" % (tag, os.getpid(), _workctr[0]))
    shutil.rmtree(d, ignore_errors=True)
    os.makedirs(d)
    return d


def tlc(module, cfg, *, spec_dir=None, workers=None, simulate=None, depth=None, dump=None, env=None, timeout=900,
        coverage=False, extra=None, xmx="8g", tlc_seed=None, deque=False, cont=False):
    """Run TLC on <spec_dir>/<module>.tla with <cfg> (path relative to spec_dir)."""
    spec_dir = spec_dir or SPEC
    md = workdir("tlc-" + module)
    jopts = ["-XX:+UseParallelGC", "-Xmx" + xmx, "-DTLA-Library=" + gen_dir(False)]
    if deque:
        jopts.append("-Dtlc2.tool.queue.IStateQueue=StateDeque")
    cmd = ["java"] + jopts + ["-cp", TLC_JAR, "tlc2.TLC", "-metadir", md, "-noGenerateSpecTE", "-config", cfg]
    cmd += ["-workers", str(workers or min(NCPU, 8))]
    if simulate is not None:
        cmd += ["-simulate", "num=%d" % simulate]
        if depth:
            cmd += ["-depth", str(depth)]
        if tlc_seed is not None:
            cmd += ["-seed", str(tlc_seed)]
    if dump:
        cmd += ["-dump", "dot,actionlabels", dump]
    if coverage:
        cmd += ["-coverage", "1"]
    if cont:
        cmd += ["-continue"]
    cmd += (extra or []) + [module + ".tla"]
    t0 = time.time()
    rc, out = sh(cmd, timeout=timeout, env=env, cwd=spec_dir)
    r = TLCResult()
    r.rc, r.out, r.wall = rc, out, time.time() - t0
    shutil.rmtree(md, ignore_errors=True)
    m = None
    for m in re.finditer(r"(\d+) states generated, (\d+) distinct states found", out):
        pass
    if m:
        r.generated, r.distinct = int(m.group(1)), int(m.group(2))
    m = re.search(r"depth of the complete state graph search is (\d+)", out)
    if m:
        r.depth = int(m.group(1))
    if rc == 124:
        r.error = "TLC timeout after %ss" % timeout
    m = re.search(r"Error: Invariant (\S+) is violated", out) or re.search(r"Error: The invariant of (\S+) is equal to FALSE", out)
    if m:
        r.violated = m.group(1)
    elif re.search(r"Error: Action property (\S+)", out):
        r.violated = re.search(r"Error: Action property (\S+)", out).group(1)
    elif "Temporal properties were violated" in out:
        r.violated = "temporal"
    elif "Error: Deadlock reached" in out:
        r.violated = "deadlock"
    elif re.search(r"Error: (The )?[Pp]ost-?condition", out) or "POSTCONDITION" in out and "violated" in out:
        r.violated = "postcondition"
    elif "Error:" in out or (rc not in (0, 124) and "Model checking completed. No error has been found." not in out
                             and "Finished in" not in out):
        r.error = "TLC error (rc=%s): %s" % (rc, "\n".join(l for l in out.splitlines() if "rror" in l)[:1500] or out[-1500:])
    if simulate is not None and r.error is None and r.violated is None and rc not in (0,):
        # simulation ends with rc 0 when num traces done
        pass
    if r.violated and r.violated not in ("postcondition",):
        r.trace = parse_error_trace(out)
    if coverage:
        for m in re.finditer(r"<(\w+) line \d+, col \d+ to line \d+, col \d+ of module \w+>: (\d+):(\d+)", out):
            r.coverage[m.group(1)] = (int(m.group(2)), int(m.group(3)))
    return r


def parse_error_trace(out):
    states = []
    cur = None
    for line in out.splitlines():
        m = re.match(r"State (\d+): (.*)", line)
        if m:
            cur = {"_action": m.group(2), "_text": []}
            states.append(cur)
            continue
        if cur is not None:
            if line.strip() == "" or line.startswith("Error:") or re.match(r"\d+ states generated", line):
                if line.strip() != "":
                    cur = None
                continue
            cur["_text"].append(line)
    res = []
    for s in states:
        txt = "\n".join(s["_text"])
        d = {"_action": s["_action"]}
        try:
            d.update(parse_state(txt))
        except Exception:
            d["_raw"] = txt
        res.append(d)
    return res


# ----------------------------------------------------------------------------- TLA+ values

_tok = re.compile(r'\s*(<<|>>|\|->|:>|@@|[\[\]{}(),]|"(?:[^"\\]|\\.)*"|-?\d+|[A-Za-z_][A-Za-z0-9_!]*)')


def _tokens(s):
    pos, out = 0, []
    s = s.strip()
    while pos < len(s):
        m = _tok.match(s, pos)
        if not m:
            raise ValueError("bad TLA+ value at %r" % s[pos:pos + 40])
        out.append(m.group(1))
        pos = m.end()
    return out


def parse_value(s):
    toks = _tokens(s)
    v, i = _pv(toks, 0)
    if i != len(toks):
        raise ValueError("trailing tokens in %r" % s)
    return v


def _pv(t, i):
    k = t[i]
    if k == "<<":
        i += 1
        out = []
        while t[i] != ">>":
            v, i = _pv(t, i)
            out.append(v)
            if t[i] == ",":
                i += 1
        return out, i + 1
    if k == "{":
        i += 1
        out = []
        while t[i] != "}":
            v, i = _pv(t, i)
            out.append(v)
            if t[i] == ",":
                i += 1
        return {"__set__": out}, i + 1
    if k == "[":
        i += 1
        d = {}
        while t[i] != "]":
            name = t[i]
            assert t[i + 1] == "|->", t[i:i + 3]
            v, i = _pv(t, i + 2)
            d[name] = v
            if t[i] == ",":
                i += 1
        return d, i + 1
    if k == "(":
        # function: (a :> b @@ c :> d)
        i += 1
        d = {}
        while t[i] != ")":
            key, i = _pv(t, i)
            assert t[i] == ":>"
            v, i = _pv(t, i + 1)
            d[json.dumps(key) if not isinstance(key, (str, int)) else key] = v
            if t[i] == "@@":
                i += 1
        return {"__fn__": d}, i + 1
    if k.startswith('"'):
        return json.loads(k), i + 1
    if re.match(r"-?\d+$", k):
        return int(k), i + 1
    if k == "TRUE":
        return True, i + 1
    if k == "FALSE":
        return False, i + 1
    return {"__mv__": k}, i + 1


def parse_state(txt):
    """'/\\ a = 1\n/\\ b = <<>>' -> dict"""
    d = {}
    parts = re.split(r"(?:^|\n)\s*/\\ ", "\n" + txt.strip())
    for p in parts:
        p = p.strip()
        if not p:
            continue
        m = re.match(r"([A-Za-z_][A-Za-z0-9_]*)\s*=\s*(.*)$", p, re.S)
        if not m:
            continue
        d[m.group(1)] = parse_value(m.group(2))
    return d


def parse_dot(path):
    """TLC '-dump dot,actionlabels' -> {'nodes': {id: state}, 'edges': [(src, name, args, dst)], 'init': [ids]}"""
    nodes, edges, init = {}, [], []
    node_re = re.compile(r'^(-?\d+) \[label="((?:[^"\\]|\\.)*)"(.*)\];?$')
    edge_re = re.compile(r'^(-?\d+) -> (-?\d+) \[label="((?:[^"\\]|\\.)*)"')
    with open(path) as f:
        for line in f:
            line = line.rstrip("\n")
            m = edge_re.match(line)
            if m:
                lab = _unesc(m.group(3))
                name, args = lab, []
                mm = re.match(r"([A-Za-z_][A-Za-z0-9_]*)\((.*)\)$", lab, re.S)
                if mm:
                    name = mm.group(1)
                    args = parse_value("<<" + mm.group(2) + ">>") if mm.group(2).strip() else []
                edges.append((m.group(1), name, args, m.group(2)))
                continue
            m = node_re.match(line)
            if m:
                nid = m.group(1)
                if nid not in nodes:
                    nodes[nid] = parse_state(_unesc(m.group(2)))
                if "style = filled" in m.group(3):
                    init.append(nid)
    return {"nodes": nodes, "edges": edges, "init": init}


def _unesc(s):
    return s.replace("\\n", "\n").replace('\\"', '"').replace("\\\\", "\\")


def graph_adj(g):
    adj = {}
    for (s, n, a, d) in g["edges"]:
        adj.setdefault(s, []).append((n, a, d))
    return adj


def edge_cover_paths(g, starts=None):
    """For every edge a shortest path start ~> src -> dst (list of (name,args,dst) steps, plus start id).
    starts defaults to the initial states."""
    from collections import deque
    adj = graph_adj(g)
    pred = {}
    dq = deque()
    for i in (starts if starts is not None else g["init"]):
        pred[i] = None
        dq.append(i)
    while dq:
        u = dq.popleft()
        for (n, a, d) in adj.get(u, []):
            if d not in pred:
                pred[d] = (u, n, a)
                dq.append(d)
    paths = []
    for (s, n, a, d) in g["edges"]:
        if s not in pred:
            continue
        steps = [(n, a, d)]
        u = s
        while pred[u] is not None:
            pu, pn, pa = pred[u]
            steps.append((pn, pa, u))
            u = pu
        steps.reverse()
        paths.append((u, steps))
    return paths


def enumerate_paths(g, max_len, limit=None, rng=None):
    """All behaviours (as step lists) of length <= max_len from the initial states (DFS). If limit is given and
    the space is larger, a seeded random subset of that size is produced instead (reports exhaustive False)."""
    adj = graph_adj(g)
    out = []
    count = [0]

    def dfs(u, steps):
        succ = adj.get(u, [])
        if len(steps) == max_len or not succ:
            out.append(list(steps))
            return
        for (n, a, d) in succ:
            if limit is not None and len(out) >= limit * 4:
                return
            steps.append((n, a, d))
            dfs(d, steps)
            steps.pop()
    for i in g["init"]:
        dfs(i, [])
    exhaustive = True
    if limit is not None and len(out) > limit:
        exhaustive = False
        import random
        r = rng or random.Random(seed())
        out = r.sample(out, limit)
    return out, exhaustive


# ----------------------------------------------------------------------------- findings / evidence / verdicts

def load_known():
    p = os.path.join(ROOT, "known_findings.json")
    if not os.path.exists(p):
        return []
    return json.load(open(p)).get("findings", [])


class Check:
    """One run of one property's check."""

    def __init__(self, pid, level, tier=None):
        self.pid = pid
        self.level = level
        self.tier = tier or os.environ.get("VERIF_TIER", "quick")
        if self.tier not in ("quick", "thorough"):
            self.tier = "quick"
        self.seed = seed()
        self.t0 = time.time()
        self.cov = {"samples": []}
        self.assumptions = []
        self.violations = []     # (key, what, replay_path)
        self.known_hits = {}     # key -> what
        self.known = {f["key"]: f for f in load_known() if f.get("property") == pid and f.get("status") == "open"}
        os.makedirs(EVID, exist_ok=True)
        os.makedirs(REPLAYS, exist_ok=True)
        # replay files of an earlier run of this check are stale (kept while one of them is being replayed)
        for f in ([] if os.environ.get("VERIF_REPLAYING") else os.listdir(REPLAYS)):
            if f.startswith(pid + "-"):
                try:
                    os.remove(os.path.join(REPLAYS, f))
                except OSError:
                    pass

    # coverage helpers
    def add(self, key, n=1):
        self.cov[key] = self.cov.get(key, 0) + n

    def set(self, key, v):
        self.cov[key] = v

    def sample(self, s, cap=8):
        if len(self.cov["samples"]) < cap:
            self.cov["samples"].append(s)

    def tlc_stats(self, r, label=None):
        self.add("states", r.distinct)
        self.add("transitions", r.generated)
        if label:
            self.cov.setdefault("tlc_runs", []).append(
                {"model": label, "distinct": r.distinct, "generated": r.generated, "depth": r.depth,
                 "wall_s": round(r.wall, 2)})

    def violation(self, key, what, replay=None):
        """key: canonical identifier of the failing input / call site / history class."""
        if key in self.known:
            if key not in self.known_hits:
                self.known_hits[key] = what
                print("KNOWN-FINDING: property=%s %s (%s)" % (self.pid, key, self.known[key].get("what", what)))
            return False
        path = os.path.join(REPLAYS, "%s-%s.json" % (self.pid, re.sub(r"[^A-Za-z0-9_.=-]", "_", key)[:100]))
        obj = {"property": self.pid, "key": key, "what": what, "tier": self.tier, "seed": self.seed,
               "repo": repo(), "replay": replay}
        with open(path, "w") as f:
            json.dump(obj, f, indent=1, default=str)
        if not any(k == key for (k, _, _) in self.violations):
            self.violations.append((key, what, path))
            print("VIOLATION property=%s replay=%s" % (self.pid, path))
            print("  what: %s" % what)
        return True

    def finish(self):
        wall = time.time() - self.t0
        ev = {"property_id": self.pid, "tier": self.tier, "seed": self.seed, "level": self.level,
              "coverage": self.cov, "assumptions": self.assumptions, "wall_s": round(wall, 2),
              "violations": len(self.violations)}
        if self.known_hits:
            ev["coverage"]["known_findings_reproduced"] = sorted(self.known_hits)
        if not ev["coverage"]["samples"]:
            ev["coverage"]["samples"] = ["(none)"]
        if not os.environ.get("VERIF_REPLAYING"):     # a replay re-executes one case: it does not replace the evidence of a full run
            tmp = os.path.join(EVID, self.pid + ".json.tmp")
            with open(tmp, "w") as f:
                json.dump(ev, f, indent=1, default=str)
            os.replace(tmp, os.path.join(EVID, self.pid + ".json"))
        if self.violations:
            return 1
        print("OK property=%s tier=%s wall=%.1fs %s" % (self.pid, self.tier, wall, json.dumps(
            {k: v for k, v in self.cov.items() if isinstance(v, (int, float, bool))})))
        return 0


def main_wrapper(fn):
    """Run fn() -> exit code, mapping InfraError to exit 2."""
    try:
        rc = fn()
    except InfraError as e:
        print("INFRA-FAILURE: %s" % e)
        sys.exit(2)
    sys.exit(rc)
