// Stand-in for the Geant4 command layer (G4UIcommand / G4UIparameter / G4UIdirectory / G4UImanager), enough to drive the REAL
// bxdecay0_g4::PrimaryGeneratorActionMessenger: a command line is looked up by its path, its parameters are completed with
// defaults, type-checked and range-checked as G4UIcommand::DoIt does (simplified: ranges are || / && combinations of
// "<name> <op> <number>"), and only then handed to the messenger's SetNewValue.  Return codes as in Geant4:
// 0 ok, 100 command not found, 300+i parameter i out of range, 400+i parameter i unreadable / missing.
#ifndef G4STUB_UICOMMAND_HH
#define G4STUB_UICOMMAND_HH
#include <cctype>
#include <cstdlib>
#include <map>
#include <sstream>
#include <string>
#include <vector>

#include "G4ApplicationState.hh"
#include "globals.hh"

class G4UImessenger;

class G4UIparameter
{
public:
  G4UIparameter(const char * name, char type, bool omittable) : name_(name), type_(type), omittable_(omittable) {}
  void SetGuidance(const char *) {}
  void SetParameterName(const char * n) { name_ = n; }
  void SetParameterRange(const char * r) { range_ = r; }
  void SetParameterCandidates(const char * c) { candidates_ = c; }
  void SetOmittable(bool o) { omittable_ = o; }
  void SetDefaultValue(const char * v) { default_ = v; has_default_ = true; }
  void SetDefaultValue(int v) { default_ = std::to_string(v); has_default_ = true; }
  void SetDefaultValue(double v)
  {
    std::ostringstream s;
    s << v;
    default_     = s.str();
    has_default_ = true;
  }
  std::string name_;
  char type_;
  bool omittable_;
  std::string range_, candidates_, default_;
  bool has_default_ = false;
};

namespace g4stub {
  class ui_registry;
  ui_registry & ui();
} // namespace g4stub

class G4UIcommand
{
public:
  G4UIcommand(const char * path, G4UImessenger * m);
  virtual ~G4UIcommand();
  void SetGuidance(const char *) {}
  void SetParameter(G4UIparameter * p) { params_.push_back(p); }
  void AvailableForStates(G4ApplicationState) {}
  void AvailableForStates(G4ApplicationState, G4ApplicationState) {}
  void AvailableForStates(G4ApplicationState, G4ApplicationState, G4ApplicationState) {}
  const G4String & GetCommandPath() const { return path_; }
  static G4bool ConvertToBool(const char * st)
  {
    std::string v(st);
    for (auto & c : v) c = (char)std::toupper((unsigned char)c);
    return v == "Y" || v == "YES" || v == "1" || v == "T" || v == "TRUE";
  }
  static G4int ConvertToInt(const char * st) { return std::atoi(st); }
  static G4double ConvertToDouble(const char * st) { return std::atof(st); }
  int DoIt(const std::string & parameter_list);
  G4String path_;
  G4UImessenger * messenger_;
  std::vector<G4UIparameter *> params_;
};

class G4UIdirectory : public G4UIcommand
{
public:
  explicit G4UIdirectory(const char * path) : G4UIcommand(path, nullptr) {}
};

namespace g4stub {
  class ui_registry
  {
  public:
    std::map<std::string, G4UIcommand *> commands;
    // "/path/of/command p1 p2 ..." -> return code
    int apply(const std::string & line)
    {
      std::istringstream s(line);
      std::string path;
      s >> path;
      auto it = commands.find(path);
      if (it == commands.end() || it->second->messenger_ == nullptr) return 100;
      std::string rest;
      std::getline(s, rest);
      return it->second->DoIt(rest);
    }
  };
  inline ui_registry & ui()
  {
    static ui_registry r;
    return r;
  }
} // namespace g4stub

inline G4UIcommand::G4UIcommand(const char * path, G4UImessenger * m) : path_(path), messenger_(m) { g4stub::ui().commands[path] = this; }
inline G4UIcommand::~G4UIcommand()
{
  auto it = g4stub::ui().commands.find(path_);
  if (it != g4stub::ui().commands.end() && it->second == this) g4stub::ui().commands.erase(it);
  for (auto * p : params_) delete p;
}
#endif
