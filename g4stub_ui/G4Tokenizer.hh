// Stand-in for G4Tokenizer: successive whitespace-separated tokens, "" when exhausted
#ifndef G4STUB_TOKENIZER_HH
#define G4STUB_TOKENIZER_HH
#include "globals.hh"
class G4Tokenizer
{
public:
  explicit G4Tokenizer(const G4String & s) : s_(s), pos_(0) {}
  G4String operator()(const char * delim = " \t\n", size_t = 0)
  {
    std::string d(delim);
    while (pos_ < s_.size() && d.find(s_[pos_]) != std::string::npos) pos_++;
    if (pos_ >= s_.size()) return G4String();
    size_t b = pos_;
    while (pos_ < s_.size() && d.find(s_[pos_]) == std::string::npos) pos_++;
    return G4String(s_.substr(b, pos_ - b));
  }

private:
  std::string s_;
  size_t pos_;
};
#endif
