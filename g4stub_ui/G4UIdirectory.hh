#include "G4UIcommand.hh"
