// Stand-in for G4UImessenger with the conversion helpers the real messengers use
#ifndef G4STUB_UIMESSENGER_FULL_HH
#define G4STUB_UIMESSENGER_FULL_HH
#include <cstdlib>
#include "G4UIcommand.hh"
#include "globals.hh"
class G4UImessenger
{
public:
  G4UImessenger() {}
  virtual ~G4UImessenger() {}
  virtual G4String GetCurrentValue(G4UIcommand *) { return G4String(); }
  virtual void SetNewValue(G4UIcommand *, G4String) {}

protected:
  G4int StoI(G4String s) { return (G4int)std::atoi(s.c_str()); }
  G4double StoD(G4String s) { return std::atof(s.c_str()); }
  G4bool StoB(G4String s) { return G4UIcommand::ConvertToBool(s.c_str()); }
};

// --- G4UIcommand::DoIt (needs the complete messenger type)
namespace g4stub {
  inline bool looks_int(const std::string & t)
  {
    size_t i = (t.size() && (t[0] == '+' || t[0] == '-')) ? 1 : 0;
    if (i >= t.size()) return false;
    for (; i < t.size(); i++)
      if (!std::isdigit((unsigned char)t[i])) return false;
    return true;
  }
  inline bool looks_double(const std::string & t)
  {
    if (t.empty()) return false;
    char * e = nullptr;
    std::strtod(t.c_str(), &e);
    return e && *e == 0 && (std::isdigit((unsigned char)t[0]) || t[0] == '+' || t[0] == '-' || t[0] == '.');
  }
  inline bool looks_bool(std::string t)
  {
    for (auto & c : t) c = (char)std::toupper((unsigned char)c);
    return t == "Y" || t == "N" || t == "YES" || t == "NO" || t == "1" || t == "0" || t == "T" || t == "F" || t == "TRUE" || t == "FALSE";
  }
  // "<name> <op> <number>" combined with && and || (|| binds weaker); spaces optional
  inline bool eval_atom(std::string a, double v)
  {
    std::string b;
    for (char c : a)
      if (!std::isspace((unsigned char)c)) b += c;
    size_t p = b.find_first_of("<>=!");
    if (p == std::string::npos) return true;
    size_t q = p;
    while (q < b.size() && std::string("<>=!").find(b[q]) != std::string::npos) q++;
    std::string op = b.substr(p, q - p);
    double x       = std::atof(b.c_str() + q);
    if (op == ">") return v > x;
    if (op == ">=") return v >= x;
    if (op == "<") return v < x;
    if (op == "<=") return v <= x;
    if (op == "==") return v == x;
    if (op == "!=") return v != x;
    return true;
  }
  inline bool eval_range(const std::string & r, double v)
  {
    size_t start = 0;
    while (true) {
      size_t o        = r.find("||", start);
      std::string dis = r.substr(start, o == std::string::npos ? std::string::npos : o - start);
      bool all        = true;
      size_t s2       = 0;
      while (true) {
        size_t a = dis.find("&&", s2);
        if (!eval_atom(dis.substr(s2, a == std::string::npos ? std::string::npos : a - s2), v)) all = false;
        if (a == std::string::npos) break;
        s2 = a + 2;
      }
      if (all) return true;
      if (o == std::string::npos) return false;
      start = o + 2;
    }
  }
} // namespace g4stub

inline int G4UIcommand::DoIt(const std::string & parameter_list)
{
  std::vector<std::string> tok;
  {
    std::istringstream s(parameter_list);
    std::string t;
    while (s >> t) tok.push_back(t);
  }
  std::string corrected;
  for (size_t i = 0; i < params_.size(); i++) {
    G4UIparameter * p = params_[i];
    std::string t;
    if (i < tok.size() && tok[i] != "!") {
      t = tok[i];
    } else if (p->omittable_) {
      t = p->default_;
    } else {
      return 400 + (int)i;
    }
    char ty = (char)std::toupper((unsigned char)p->type_);
    if (!(i >= tok.size() && t.empty())) {
      if (ty == 'I' && !g4stub::looks_int(t)) return 400 + (int)i;
      if ((ty == 'D' || ty == 'F') && !g4stub::looks_double(t)) return 400 + (int)i;
      if (ty == 'B' && !g4stub::looks_bool(t)) return 400 + (int)i;
      if (!p->range_.empty() && (ty == 'I' || ty == 'D' || ty == 'F') && !g4stub::eval_range(p->range_, std::atof(t.c_str()))) return 300 + (int)i;
    }
    corrected += (i ? " " : "") + t;
  }
  messenger_->SetNewValue(this, G4String(corrected));
  return 0;
}
#endif
