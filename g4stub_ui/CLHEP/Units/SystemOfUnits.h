// Stand-in: the CLHEP units live in the G4SystemOfUnits.hh stand-in
#include <G4SystemOfUnits.hh>
