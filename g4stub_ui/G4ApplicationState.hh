#ifndef G4STUB_APPSTATE_HH
#define G4STUB_APPSTATE_HH
enum G4ApplicationState { G4State_PreInit, G4State_Init, G4State_Idle, G4State_GeomClosed, G4State_EventProc, G4State_Quit, G4State_Abort };
#endif
