"""C05 - a published nuclide name selects exactly one decay scheme; catalogues agree.

Specification: spec/Genbb.tla (dispatch of a name to its own scheme followed by its documented daughters) over data
generated here (GenbbData.tla): the chains of the reference text, the eight BxDecay0-only nuclides, the catalogues of the
README, of the resource files and of the library API, the ordered pairs of names where one is a prefix of the other, and the
result of probing the generator with every routine name it exports.  TLC checks the model (own scheme first, never a
concatenation, prefix pairs separate, catalogues equal, probes consistent).
Binding: for every published name the recorded sequence of routines entered is validated by TLC against the model
(TraceGenbb), and the event is compared bit for bit with the direct composition of the nuclide's scheme routines."""
import json
import os
import re

import catalogue
import schemes as sch
import vlib

PID = "C05"
PORT_ONLY = ["Pa231", "Po210", "Po214", "Po218", "Ra226", "Rn222", "Th230", "U234", "U238"]


def tla_str(s):
    return '"' + s + '"'


def tla_set(xs):
    return "{" + ", ".join(tla_str(x) for x in sorted(xs)) + "}"


def run(tier, replay):
    ck = vlib.Check(PID, "model_checking", tier)
    thorough = tier == "thorough"
    S = sch.Schemes()
    gdir = vlib.gen_dir()
    wd = vlib.workdir("c05")
    # ---- chains of the model
    bkg = {}
    for nm, chain in S.bkg_names().items():
        bkg[nm] = [(S.data[k]["name"], ua, False) for (k, ua) in chain]
    for nm in PORT_ONLY:
        bkg[nm] = [(nm, False, False)]
    dbd = {}
    routines = json.load(open(os.path.join(gdir, "schemes.json")))["schemes"]
    lowname = {k.split("@")[0].lower(): k.split("@")[0] for k in routines if "@" in k}
    def emits(routine):
        # a daughter routine that makes no primitive call at any tabulated level (Ar40low) has no observable effect
        return any(it[0] == "call" for k, g in routines.items() if k.split("@")[0].lower() == routine.lower()
                   for e in g["edges"] for it in e["items"])
    for ent in S.tab["table"]:
        nm = ent["name"]
        ch = S.tab["chains"]["dbd"].get(nm, [])
        dbd[nm] = [("bb", False, False)]
        for c in ch:
            r_ = lowname.get(c["call"].lower(), S.data[S.by_lower[c["call"].lower()]]["name"] if c["call"].lower() in S.by_lower else c["call"])
            # optional at the levels this isotope tabulates: the routine makes no primitive call there
            dbd[nm].append((r_, False, c["call"].lower().endswith("low") and not emits(c["call"])))
    # ---- the direct-call table for the harness
    fnames = sorted({r for ch in bkg.values() for (r, _, _o) in ch})
    with open(os.path.join(wd, "genbb_table.inc"), "w") as f:
        for r in fnames:
            f.write("#include <bxdecay0/%s.h>\n" % r)
        f.write("typedef void (*scheme_fn)(bxdecay0::i_random &, bxdecay0::event &, const double, double &);\n")
        f.write("static const std::map<std::string, std::function<void(bxdecay0::i_random &, bxdecay0::event &, double, double &)>> & scheme_table() {\n")
        f.write("  static const std::map<std::string, std::function<void(bxdecay0::i_random &, bxdecay0::event &, double, double &)>> t = {\n")
        for r in fnames:
            f.write('    {"%s", [](bxdecay0::i_random & p, bxdecay0::event & e, double tc, double & td) { bxdecay0::%s(p, e, tc, td); }},\n' % (r, r))
        f.write("  };\n  return t;\n}\n")
    try:
        exe = vlib.compile_harness("genbb_probe", ["harness/genbb_probe.cc"], "plain", extra=["-I", wd])
    except vlib.InfraError as e:
        # a published nuclide without a scheme routine of its own is itself a finding, but it is a build failure here
        raise
    env = vlib.harness_env("plain")
    # ---- catalogues
    lis_b = catalogue.lis_background()
    lis_d = catalogue.lis_dbd()
    rb = catalogue.readme_background()
    rd = catalogue.readme_dbd()
    rc, out = vlib.sh([exe], input="A\n", timeout=60, env=env)
    api = json.loads([l for l in out.splitlines() if l.startswith("{")][-1])
    if not api["labels_roundtrip"]:
        ck.violation("api:mode-label-roundtrip", "dbd_mode_from_label(dbd_mode_label(m)) != m for some mode", None)
    # ---- probes: every published name, every routine name the library exports, some near-misses
    bdir = vlib.ensure_build("plain")
    rc, syms = vlib.sh(["nm", "-DC", "--defined-only", os.path.join(bdir, "libBxDecay0.so")], timeout=60)
    exported = sorted(set(re.findall(r"bxdecay0::([A-Z][A-Za-z]?[a-z]?\d{2,3}m?[A-Za-z]*)\(bxdecay0::i_random&, bxdecay0::event&, double", syms)))
    probes = []
    for n in lis_b:
        probes.append(("bkg", n, True))
    zneg = {e["name"] for e in S.tab["table"] if float(e["Z"]) < 0}
    for n in lis_d:
        probes.append(("dbd", n, True))
    pubbase_b = {n.split("+")[0] for n in lis_b}
    for r in exported:
        if r not in pubbase_b:
            probes.append(("bkg", r, False))
    for n in ("Ta180m", "Te13", "Xe13", "Bi21", "Po21", "Co6", "", "X"):
        probes.append(("bkg", n, False))
    # double-beta names are probed at the ground state with a mode every isotope of that sign admits (1, or 12 for 2b+/ec)
    lines = ["P %s %s%s" % (c, n if n else "''", (" 0 12" if n in zneg else " 0 1") if c == "dbd" else "") for (c, n, p) in probes]
    rc, out = vlib.sh([exe], input="\n".join(lines) + "\n", timeout=600, env=env)
    pres = [json.loads(l) for l in out.splitlines() if l.startswith('{"probe"')]
    if len(pres) != len(probes):
        raise vlib.InfraError("probe harness returned %d of %d results: %s" % (len(pres), len(probes), out[-500:]))
    # ---- data module
    prefix_pairs = []
    for c, names in (("bkg", sorted(bkg)), ("dbd", sorted(dbd))):
        for a in names:
            for b in names:
                if a != b and b.startswith(a):
                    prefix_pairs.append((c, a, b))
    with open(os.path.join(gdir, "GenbbData.tla"), "w") as f:
        f.write("----------------------------- MODULE GenbbData -----------------------------\n")
        f.write("(* GENERATED by checks/c05.py: chains from the Decay0 reference text (+ the BxDecay0-only nuclides), catalogues, probes *)\n")
        f.write("EXTENDS Integers, Sequences, TLC\n\n")

        def chain_tla(ch):
            return "<<" + ", ".join('[s |-> %s, unlessAlpha |-> %s, opt |-> %s]' % (tla_str(r), "TRUE" if ua else "FALSE", "TRUE" if op else "FALSE")
                                    for (r, ua, op) in ch) + ">>"
        f.write("BkgChain ==\n  " + "\n  @@ ".join("%s :> %s" % (tla_str(n), chain_tla(ch)) for n, ch in sorted(bkg.items())) + "\n\n")
        f.write("DbdChain ==\n  " + "\n  @@ ".join("%s :> %s" % (tla_str(n), chain_tla(ch)) for n, ch in sorted(dbd.items())) + "\n\n")
        f.write('Daughters(c, n) == LET ch == IF c = "bkg" THEN BkgChain[n] ELSE DbdChain[n] IN {ch[i].s : i \\in 2..Len(ch)}\n\n')
        f.write("PrefixPairs == {%s}\n\n" % ", ".join('[cat |-> %s, short |-> %s, long |-> %s]' % (tla_str(c), tla_str(a), tla_str(b)) for (c, a, b) in prefix_pairs))
        f.write("ReadmeBkg == %s\nReadmeBkgLong == %s\nReadmeDbd == %s\n" % (tla_set({b for b, l in rb}), tla_set({l for b, l in rb if l}), tla_set(rd)))
        f.write("LisBkgBase == %s\nLisBkgLong == %s\nLisDbd == %s\n" % (tla_set(pubbase_b), tla_set({n for n in lis_b if "+" in n}), tla_set(lis_d)))
        f.write("ApiBkgBase == %s\nApiDbd == %s\n\n" % (tla_set({n.split("+")[0] for n in api["bkg"]}), tla_set(api["dbd"])))
        f.write("Probes == {%s}\n" % ",\n  ".join('[name |-> %s, base |-> %s, cat |-> %s, published |-> %s, accepted |-> %s, np |-> %d]' % (
            tla_str(n), tla_str(n.split("+")[0]), tla_str(c), "TRUE" if p else "FALSE", "TRUE" if r["accepted"] else "FALSE", r["npmin"])
            for (c, n, p), r in zip(probes, pres)))
        f.write("=============================================================================\n")
    r = vlib.tlc("Genbb", "MCGenbb.cfg", workers=4, timeout=300)
    if r.error:
        raise vlib.InfraError(r.error)
    ck.tlc_stats(r, "Genbb")
    if r.violated:
        # name the offending probe / catalogue entry for a stable key
        det = []
        for (c, n, p), pr in zip(probes, pres):
            base = n.split("+")[0]
            pubset = pubbase_b if c == "bkg" else set(lis_d)
            if pr["accepted"] and base not in pubset:
                det.append(("probe:accepted-unpublished:%s:%s" % (c, n if n else "''"),
                            "'%s' is accepted as %s name (routines %s, %d..%d particles) but is not published" % (n, c, pr["routines"], pr["npmin"], pr["npmax"])))
            if pr["accepted"] and pr["npmin"] < 1:
                det.append(("probe:accepted-empty-event:%s:%s" % (c, n), "'%s' is accepted but generates an event without particles" % n))
            if p and not pr["accepted"]:
                det.append(("probe:published-refused:%s:%s" % (c, n), "published name '%s' is refused" % n))
        if r.violated == "CataloguesAgree":
            det.append(("catalogues-differ", "README %d/%d, resource files %d/%d, API %d/%d background/dbd names; symmetric differences: %s %s %s" % (
                len(rb), len(rd), len(lis_b), len(lis_d), len(api["bkg"]), len(api["dbd"]),
                sorted({b for b, l in rb} ^ pubbase_b), sorted(set(rd) ^ set(lis_d)), sorted(set(api["bkg"]) ^ set(lis_b)))))
        if not det:
            det.append(("model:" + r.violated, "Genbb.tla: %s violated" % r.violated))
        for k, w in det:
            ck.violation(k, w, {"invariant": r.violated})
    # ---- dispatch traces of every published name, validated by TLC
    n_ev = 2000 if thorough else 40
    tfile = os.path.join(wd, "genbb.ndjson")
    lines = ["T bkg %s %d %d" % (n, ck.seed % 100000 + i, n_ev) for i, n in enumerate(lis_b)]
    # double beta: ground state with mode 1 or 12, and one excited level where the table has one
    for ent in S.tab["table"]:
        m0 = 12 if float(ent["Z"]) < 0 else 1
        lines.append("T dbd %s %d %d 0 %d" % (ent["name"], ck.seed % 100000, max(2, n_ev // 10), m0))
        if len(ent["levels"]) > 1 and ent["levels"][1]["spin"] in (0, 2):
            m1 = (12 if float(ent["Z"]) < 0 else (1 if ent["levels"][1]["spin"] == 0 else 7))
            lines.append("T dbd %s %d %d 1 %d" % (ent["name"], ck.seed % 100000, max(2, n_ev // 10), m1))
    rc, out = vlib.sh([exe, "--trace", tfile], input="\n".join(lines) + "\n", timeout=1200, env=env)
    if rc != 0:
        ck.violation("probe-crash", "genbb_probe died (rc=%s): %s" % (rc, out[-600:]), None)
    rr = vlib.tlc("MCTraceGenbb", "MCTraceGenbb.cfg", workers=1, env={"TRACE": tfile}, timeout=900)
    m = re.search(r'furthest-line", (\d+), "of", (\d+)', rr.out)
    if not m:
        raise vlib.InfraError("TraceGenbb: " + (rr.error or rr.out[-600:]))
    ck.tlc_stats(rr, None)
    ln, tot = int(m.group(1)), int(m.group(2))
    ck.set("trace_lines_validated_by_tlc", tot)
    guard = 0
    while ln <= tot and guard < 12:
        # report the rejected execution, cut it out and validate the rest
        guard += 1
        ls = open(tfile).read().splitlines()
        start = ln - 1
        while start > 0 and '"Reset"' not in ls[start]:
            start -= 1
        end = ln
        while end < len(ls) and '"Reset"' not in ls[end]:
            end += 1
        ex = ls[start:end]
        g = [json.loads(x) for x in ex if '"Genbb"' in x]
        nm = g[0]["name"] if g else "?"
        seq = [json.loads(x)["s"] for x in ex if '"Enter"' in x]
        want = (bkg if g and g[0]["cat"] == "bkg" else dbd).get(nm, [])
        missing = [r_ for (r_, _, op_) in want if r_ not in seq and not op_]
        extra = [s_ for s_ in seq if s_ not in [r_ for (r_, _, _o) in want]]
        key = "%s:dispatch:%s" % (nm, ("missing-routine:" + missing[0]) if missing else ("extra-routine:" + (extra[0] if extra else "?")))
        ck.violation(key, "name '%s' entered the routines %s; Genbb.tla allows %s" % (nm, seq, [r_ for (r_, _, _o) in want]), {"trace": ex})
        # drop every execution of that name and re-validate
        keep, cur, skip = [], [], False
        for x in ls:
            if '"Reset"' in x:
                if cur and not skip:
                    keep += cur
                cur, skip = [x], False
            else:
                cur.append(x)
                if '"Genbb"' in x and json.loads(x)["name"] == nm:
                    skip = True
        if cur and not skip:
            keep += cur
        open(tfile, "w").write("\n".join(keep) + "\n")
        rr = vlib.tlc("MCTraceGenbb", "MCTraceGenbb.cfg", workers=1, env={"TRACE": tfile}, timeout=900)
        m = re.search(r'furthest-line", (\d+), "of", (\d+)', rr.out)
        if not m:
            break
        ln, tot = int(m.group(1)), int(m.group(2))
    # ---- every scheme-level path of the nuclides that have daughters (and one witness per edge of all others): the rare
    #      branches decide whether a daughter is chained (Bi212/Bi214: unless the event starts with an alpha)
    import c01
    cexe = c01.cosim_exe()
    pj = []
    chain_jobs = {}
    pubmap = {n.split("+")[0]: n for n in lis_b}
    for base, chain in S.bkg_names(port_only=True).items():
        k0 = chain[0][0]
        paths = S.all_paths(k0) if len(chain) > 1 else [p_ for (_e, p_) in S.witness_paths(k0)]
        for p_ in paths:
            pj.append(sch.bjob("%s.%d" % (base, len(pj)), pubmap.get(base, base), 1 + len(pj), [S.plan(k0, p_)]))
        # the short spelling of a chained entry (README Appendix 1: "Ca48 (for Ca48+Sc48)") is the reference's own name for it:
        # through the legacy interface it yields the same chain
        if pubmap.get(base, base) != base:
            for p_ in [p__ for (_e, p__) in S.witness_paths(k0)][:6]:
                jid = "%s.s%d" % (base, len(pj))
                pj.append(sch.bjob(jid, base, 1 + len(pj), [S.plan(k0, p_)]))
                chain_jobs[jid] = (base, "short-spelling")
        # a chained name: every path of each daughter scheme as well, under parent paths that do (and do not) chain it - the
        # daughter's particles, ALL of them, carry the parent's decay time (co-simulation with the reference decides)
        if len(chain) > 1:
            wit0 = [p_ for (_e, p_) in S.witness_paths(k0)]
            par = [p_ for p_ in wit0 if not S.first_is_alpha(k0, p_)][:3] + [p_ for p_ in wit0 if S.first_is_alpha(k0, p_)][:1]
            for (kd, _ua) in chain[1:]:
                for pd_ in S.all_paths(kd):
                    for p_ in par:
                        jid = "%s.c%d" % (base, len(pj))
                        pj.append(sch.bjob(jid, pubmap.get(base, base), 1 + len(pj), [S.plan(k0, p_), S.plan(kd, pd_)]))
                        chain_jobs[jid] = (base, kd)
    gfile = os.path.join(wd, "genbb_paths.ndjson")
    nshp = 4
    gfiles = [gfile + ".%d" % i for i in range(nshp)]

    def gshard(i):
        return vlib.sh([cexe, "--gb-trace", gfiles[i]], input="\n".join(pj[i::nshp]) + "\n", timeout=900, env=env)
    import concurrent.futures as cf
    with cf.ThreadPoolExecutor(max_workers=nshp) as ex:
        for rc_, out_ in ex.map(gshard, range(nshp)):
            if rc_ != 0:
                ck.violation("cosim-crash", "co-simulation harness died (rc=%s): %s" % (rc_, out_[-400:]), None)
            for l_ in out_.splitlines():
                if not l_.startswith("{"):
                    continue
                try:
                    rj_ = json.loads(l_)
                except ValueError:
                    continue
                if rj_.get("id") in chain_jobs and rj_["cls"] not in ("agree", "y90-pair-deviation", "knife-edge-excluded"):
                    base_, kd_ = chain_jobs[rj_["id"]]
                    ck.violation("%s:chain:%s:%s" % (base_, kd_, rj_["cls"]),
                                 "chained name '%s': on a steered path of its daughter scheme %s the event is not the parent's decay followed by the "
                                 "daughter's, as the reference composes them from the same deviates (%s): %s" % (
                                     pubmap.get(base_, base_), kd_, rj_["cls"], rj_["detail"][:300]),
                                 {"job": [j for j in pj if j.split()[1] == rj_["id"]]})
    ck.set("chained_daughter_paths_steered", len(chain_jobs))
    for gf in gfiles:
        rr2 = vlib.tlc("MCTraceGenbb", "MCTraceGenbb.cfg", workers=1, env={"TRACE": gf}, timeout=900)
        m2 = re.search(r'furthest-line", (\d+), "of", (\d+)', rr2.out)
        if not m2:
            raise vlib.InfraError("TraceGenbb(paths): " + (rr2.error or rr2.out[-600:]))
        ck.tlc_stats(rr2, None)
        ln2, tot2 = int(m2.group(1)), int(m2.group(2))
        ck.add("trace_lines_validated_by_tlc", tot2)
        if ln2 <= tot2:
            ls2 = open(gf).read().splitlines()
            st2 = ln2 - 1
            while st2 > 0 and '"Reset"' not in ls2[st2]:
                st2 -= 1
            en2 = ln2
            while en2 < len(ls2) and '"Reset"' not in ls2[en2]:
                en2 += 1
            ex2 = ls2[st2:en2]
            g2 = [json.loads(x) for x in ex2 if '"Genbb"' in x]
            nm2 = g2[0]["name"] if g2 else "?"
            seq2 = [(json.loads(x)["s"], json.loads(x)["alpha"]) for x in ex2 if '"Enter"' in x]
            ck.violation("%s:dispatch:path:%s" % (nm2, "+".join(s_ for (s_, _a) in seq2)),
                         "on a steered scheme path the name '%s' entered %s (alpha-first flag %s); Genbb.tla allows %s" % (
                             nm2, [s_ for (s_, _a) in seq2], seq2[0][1] if seq2 else "?", [r_ for (r_, _, _o) in bkg.get(nm2, [])]), {"trace": ex2})
    ck.set("steered_paths_dispatched", len(pj))
    # ---- bit-equality with the direct composition of the scheme routines
    xl = []
    for n in lis_b:
        base = n.split("+")[0]
        ch = bkg[base]
        xl.append("X %s %d %d %d %s" % (n, ck.seed % 100000, 2000 if thorough else 60, len(ch), " ".join("%s %d" % (r_, 1 if ua else 0) for (r_, ua, _o) in ch)))
    rc, out = vlib.sh([exe], input="\n".join(xl) + "\n", timeout=1200, env=env)
    xres = [json.loads(l) for l in out.splitlines() if l.startswith('{"direct"')]
    if rc != 0 or len(xres) != len(xl):
        ck.violation("probe-crash:direct", "genbb_probe died in the direct-call comparison (rc=%s): %s" % (rc, out[-600:]), None)
    nev = 0
    for x in xres:
        nev += x["n"]
        if x["bad"]:
            ck.violation("%s:differs-from-own-scheme" % x["direct"].split("+")[0],
                         "%d of %d events of '%s' differ from the direct composition of its scheme routines: %s" % (x["bad"], x["n"], x["direct"], x["first"][:400]),
                         {"line": [l for l in xl if l.split()[1] == x["direct"]][0]})
    ck.set("evaluations", len(probes) + len(lines) * 1 + nev)
    ck.set("events_compared_with_direct_calls", nev)
    ck.set("names_probed", len(probes))
    ck.set("routine_names_exported_by_the_library", len(exported))
    ck.set("published_names", len(lis_b) + len(lis_d))
    ck.set("prefix_pairs", len(prefix_pairs))
    ck.set("traces_validated_against_impl", len(lines))
    ck.set("distinct_nontrivial", len(lis_b) + len(lis_d) + len(prefix_pairs))
    ck.set("exhaustive", True)
    ck.set("rule", "all 69 + 51 published names, all prefix-related pairs among them, every scheme-routine name exported by the library and a few "
                   "truncated names as probes; distinct = names; non-trivial = the name is dispatched at least once")
    ck.sample({"prefix_pairs": prefix_pairs[:6]})
    ck.sample({"probe": pres[0]})
    ck.sample({"dispatch_job": lines[9], "direct_job": xl[9]})
    ck.assumptions += ["chains are those of the Decay0 reference text plus the eight BxDecay0-only single-routine nuclides",
                       "routine-entry hooks (scheme:<name>) identify the routines; a routine without the hook would be invisible"]
    return ck.finish()
