"""C06 - a double-beta configuration is accepted iff the reference rules allow it.

Specification: spec/DbdRules.tla over the isotope table extracted from GENBBsub (DbdTable.tla) and the published
catalogues.  TLC evaluates the rules on the complete grid (isotopes + unknown names) x levels -1..17 x modes 0..25 x
{no window, valid, inverted}, checks the model-level consequences and exports the verdict of every grid point.
Binding: the verdict table is replayed on decay0_generator::initialize (library layer), genbbsub's initialisation call
(plumbing layer) and, for modes 1..20, the compiled reference (ier) - three-way agreement."""
import collections
import concurrent.futures as cf
import json
import os
import random
import re

import c01
import vlib

PID = "C06"


def parse_verdicts(out):
    res = []
    for l in out.splitlines():
        if not l.startswith("<<"):
            continue
        v = vlib.parse_value(l)
        res.append(v)
    return res


def _merge(a, b):
    if a.get("crash") or b.get("crash"):
        return a if a.get("crash") else b
    res = {k: a.get(k, 0) + b.get(k, 0) for k in ("requests", "accepted", "refused", "plumbing", "events", "unspecified")}
    res["violations"] = a["violations"] + b["violations"]
    return res


def _replay_chunk(exe, lines, e, depth):
    """one process for the chunk; a crash or a hang is attributed to single requests by bisection"""
    rc, out = vlib.sh([exe], input="\n".join(lines) + "\n", timeout=(60 if depth == 0 else 15) + 0.4 * len(lines), env=e,
                      drop_stderr=len(lines) > 1)
    last = [l for l in out.splitlines() if l.startswith("{")]
    if rc == 0 and last:
        return json.loads(last[-1])
    if len(lines) == 1:
        w = lines[0].split()
        kind = "hang" if rc == 124 else "crash"
        return {"requests": 1, "accepted": 0, "refused": 0, "plumbing": 0, "events": 0, "unspecified": 0,
                "violations": [{"key": "%s:%s/%s/%s/%s" % (kind, w[0], w[1], w[2], w[3]),
                                "what": "the library %s (rc=%s) on this request: %s" % ("does not return" if rc == 124 else "crashes", rc, out[-300:])}]}
    if depth > 16:
        return {"crash": True, "rc": rc, "out": out[-1500:]}
    mid = len(lines) // 2
    return _merge(_replay_chunk(exe, lines[:mid], e, depth + 1), _replay_chunk(exe, lines[mid:], e, depth + 1))


def run_replay(exe, lines, env=None):
    e = vlib.harness_env("plain")
    if env:
        e.update(env)
    res = {"requests": 0, "accepted": 0, "refused": 0, "plumbing": 0, "events": 0, "unspecified": 0, "violations": []}
    hangs = 0
    for i in range(0, len(lines), 1500):
        res = _merge(res, _replay_chunk(exe, lines[i:i + 1500], e, 0))
        if res.get("crash"):
            return res
        hangs = sum(1 for v in res["violations"] if v["key"].startswith(("hang:", "crash:")))
        if hangs > 40:
            break   # a systematic hang/crash: enough evidence, do not spend the time box on every instance
    return res


def run(tier, replay):
    ck = vlib.Check(PID, "model_checking", tier)
    thorough = tier == "thorough"
    rng = random.Random(ck.seed)
    vlib.gen_dir()
    r = vlib.tlc("MCDbdRules", "MCDbdRules.cfg", workers=1, timeout=900)
    if r.error:
        raise vlib.InfraError(r.error)
    ck.tlc_stats(r, "MCDbdRules(grid, no gA dataset)")
    if r.violated:
        ck.violation("model:" + r.violated, "DbdRules.tla / catalogues: %s violated" % r.violated, {"trace": r.trace[-2:]})
        return ck.finish()
    grid = parse_verdicts(r.out)
    if len(grid) < 1000:
        raise vlib.InfraError("verdict export failed: %d lines" % len(grid))
    ck.set("grid_points", len(grid))
    acc = [g for g in grid if g[4] == 1]
    rej = [g for g in grid if g[4] == 0]
    und = [g for g in grid if g[4] == 2]
    ck.set("grid_accepted", len(acc))
    ck.set("grid_refused", len(rej))
    ck.set("grid_unspecified", len(und))
    exe = vlib.compile_harness("dbdrules_replay", ["harness/dbdrules_replay.cc"], "plain")

    import schemes as sch
    tab = {e["name"]: e for e in sch.Schemes().tab["table"]}

    def fmt(g):
        s_ = "%s %d %d %s %d %d" % (g[0] if g[0] != "" else "''", g[1], g[2], g[3], g[4], g[5])
        if g[5] == 1 and g[3] == "none" and g[0] in tab and 0 <= g[1] < len(tab[g[0]]["levels"]):
            e = tab[g[0]]
            lv = e["levels"][g[1]]
            four = g[2] == 20 and "Q4" in e
            s_ += " %s %s %s %s %d" % (e["Q4"] if four else e["Q"], lv["EK"], e["Z4"] if four else e["Z"], e["A"], lv["E"])
        return s_
    work = [fmt(g) for g in rej + und] + [fmt(g) for g in acc]
    rng.shuffle(work)
    nsh = 8
    results = []
    with cf.ThreadPoolExecutor(max_workers=nsh) as ex:
        for rr in ex.map(lambda ls: run_replay(exe, ls), [work[i::nsh] for i in range(nsh)]):
            results.append(rr)
    for rr in results:
        if rr.get("crash"):
            ck.violation("replay-crash", "dbdrules_replay died (rc=%s): %s" % (rr["rc"], rr["out"][-600:]), None)
            continue
        ck.add("evaluations", rr["requests"])
        ck.add("library_accepted_checked", rr["accepted"])
        ck.add("library_refused_checked", rr["refused"])
        ck.add("plumbing_checked", rr["plumbing"])
        ck.add("events_checked", rr["events"])
        for v in rr["violations"]:
            # one finding per (kind, isotope, mode class): keep the key specific but stable
            ck.violation(v["key"], v["what"], {"request": v["key"].split(":", 1)[1]})
    # ---- the gA routing with a partially installed dataset tree (second evaluation of the rules)
    rg = vlib.tlc("MCDbdRules", "MCDbdRules_ga.cfg", workers=1, timeout=900)
    if rg.error:
        raise vlib.InfraError(rg.error)
    ck.tlc_stats(rg, "MCDbdRules(gA datasets partially mounted: 8 of the 16 isotope x process tables)")
    if rg.violated:
        ck.violation("model:ga:" + rg.violated, "DbdRules.tla (gA mounted): %s violated" % rg.violated, {"trace": rg.trace[-2:]})
    else:
        ggrid = [g for g in parse_verdicts(rg.out) if 21 <= g[2] <= 24]
        gadir = os.path.join(vlib.workdir("c06ga"), "gadata")
        # the mounted pairs of MCGaMounted (spec/MCDbdRules.tla)
        for iso_, proc_ in (("Mo100", "g0"), ("Mo100", "g2"), ("Mo100", "g4"), ("Se82", "g22"), ("Cd116", "g2"), ("Cd116", "g4"),
                            ("Nd150", "g0"), ("Nd150", "g22")):
            rc_, out_ = vlib.sh(["python3", os.path.join(vlib.ROOT, "tools", "mk_ga_dataset.py"), gadir, iso_, proc_], timeout=120)
            if rc_ != 0:
                raise vlib.InfraError("mk_ga_dataset failed: " + out_[-400:])
        rr = run_replay(exe, [fmt(g) for g in ggrid], env={"BXDECAY0_DBD_GA_DATA_DIR": gadir})
        if rr.get("crash"):
            ck.violation("replay-crash:ga", "dbdrules_replay died on the gA rows (rc=%s): %s" % (rr["rc"], rr["out"][-500:]), None)
        else:
            ck.add("evaluations", rr["requests"])
            ck.set("gA_rows_checked_with_dataset_mounted", rr["requests"])
            ck.set("gA_rows_accepted", rr["accepted"])
            for v in rr["violations"]:
                ck.violation("ga-mounted:" + v["key"], v["what"], {"request": v["key"].split(":", 1)[1]})
    # ---- the compiled reference (modes 1..20, no window): ier must match RefAccept
    cos = c01.cosim_exe()
    refgrid = [g for g in grid if g[3] == "none" and 1 <= g[2] <= 20 and g[0] not in ("", ) and g[6] != 2 and g[1] >= 0]
    jobs = ["D %s.%d.%d %s %d %d x x 1 0 -1 0.5 0" % (g[0], g[1], g[2], g[0], g[1], g[2]) for g in refgrid]
    exp = {"%s.%d.%d" % (g[0], g[1], g[2]): g for g in refgrid}

    def shard(ls):
        rc, out = vlib.sh([cos], input="\n".join(ls) + "\n", timeout=2400, env=vlib.harness_env("plain"))
        return rc, [json.loads(l) for l in out.splitlines() if l.startswith("{")]
    nref = 0
    with cf.ThreadPoolExecutor(max_workers=nsh) as ex:
        for rc, res in ex.map(shard, [jobs[i::nsh] for i in range(nsh)]):
            if rc != 0:
                ck.violation("cosim-crash", "co-simulation harness died (rc=%s)" % rc, None)
            for rj in res:
                if not rj["id"].endswith(":init"):
                    continue
                g = exp[rj["id"][:-5]]
                nref += 1
                racc = rj["ier_ref"] == 0
                if racc != (g[6] == 1):
                    ck.violation("reference-vs-rules:%s/%d/%d" % (g[0], g[1], g[2]),
                                 "the compiled reference %s %s level %d mode %d but DbdRules!RefAccept says %s" % (
                                     "accepts" if racc else "refuses", g[0], g[1], g[2], "accept" if g[6] == 1 else "refuse"),
                                 {"job": "D x %s %d %d x x 1 0 -1 0.5 0" % (g[0], g[1], g[2])})
    ck.set("reference_verdicts_compared", nref)
    ck.set("traces_validated_against_impl", ck.cov.get("evaluations", 0))
    ck.set("distinct_nontrivial", ck.cov.get("evaluations", 0))
    ck.set("exhaustive", True)
    ck.set("rule", "grid points of DbdRules.tla (isotope x level x mode x window); distinct by construction; every "
                   "grid point is replayed in both tiers; non-trivial = "
                   "a request the library is asked to initialise")
    for g in (acc[:2] + rej[:2]):
        ck.sample({"iso": g[0], "level": g[1], "mode": g[2], "window": g[3], "library": g[4], "plumbing": g[5], "reference": g[6]})
    ck.assumptions += ["gA rules evaluated twice: no dataset (modes 21-24 refused everywhere) and a synthetic dataset mounted for Mo100/g0 only (accepted exactly there)",
                       "window classes: valid = (0, 5) MeV, lower = (0, undefined), upper = (undefined, 5), inverted = (2, 1) MeV, beyond = (5, 6) MeV (above every Q value)",
                       "levels whose spin flag the reference leaves unassigned (Dy156 levels 12, 13) have no specified verdict"]
    return ck.finish()
