"""C11 - stored events read back unchanged; the reader delivers exactly the asked window.

spec/Reader.tla is the contract of bxdecay0::event_reader over a list of files (event counts per file, incl. empty
files), a start rank and a limit: TLC checks the statement's invariants for every partition x window x interleaving
of has_next_event / load_next_event within the bounds and exports the state graph.  spec/Codec.tla is the documented
record format as a token stream with value classes for the 15-digit round trip; TLC checks the round trip on the
model and enumerates which value class sits in which field.  harness/reader_replay.cc renders Codec's abstract
events to concrete doubles, writes them with the real event::store, checks the text against the spec's token
stream, reads them back through a real event_reader, and replays every behaviour of Reader's graph on a real
reader, comparing the projection (answer / threw / which event / loaded counter) after every call."""
import concurrent.futures as cf
import json
import os
import re
import shutil

import vlib

PID = "C11"
TLC_WORKERS = 4
SHARDS = 4


def flatten_reader(g, path):
    """Reader graph -> flat text for the replayer; returns the list of configurations."""
    def ckey(st):
        return (tuple(st["files"]), st["start"], st["max"])
    cfgs = sorted({ckey(g["nodes"][n]) for n in g["init"]})
    cid = {k: i for i, k in enumerate(cfgs)}
    sid = {n: i for i, n in enumerate(sorted(g["nodes"]))}
    call = {"HasNext": "H", "LoadOk": "L", "LoadErr": "L"}
    with open(path, "w") as f:
        for k, i in cid.items():
            f.write("C %d %d %d %d %s\n" % (i, k[1], k[2], len(k[0]), " ".join(str(x) for x in k[0])))
        for n, i in sid.items():
            st = g["nodes"][n]
            d = ",".join(str(x) for x in st["delivered"]) or "-"
            f.write("S %d %d %d %s %s\n" % (i, cid[ckey(st)], st["calls"], st["last"], d))
        for (s, name, args, d) in g["edges"]:
            if name not in call:
                raise vlib.InfraError("unexpected action %r in Reader graph" % name)
            f.write("E %d %s %d\n" % (sid[s], call[name], sid[d]))
        for n in g["init"]:
            f.write("I %d\n" % sid[n])
    return cfgs


def flatten_codec(g, path):
    """Codec graph (states after LoadEvent) -> pool of abstract events for the harness."""
    kind = {"int": "i", "num": "n", "word": "w", "nl": "L"}
    evs = []
    for n, st in g["nodes"].items():
        if st.get("phase") != "loaded":
            continue
        rec, out = st["rec"], st["out"]
        if not out["ok"]:
            raise vlib.InfraError("Codec graph holds a failed decode")
        shape = "".join(kind[t["k"]] for t in st["toks"])
        fields = [rec["time"]["c"]]
        exact = [out["rec"]["time"]["x"]]
        parts = []
        for p, q in zip(rec["parts"], out["rec"]["parts"]):
            parts.append("%d %s %s %s %s" % (p["code"], p["t"]["c"], p["px"]["c"], p["py"]["c"], p["pz"]["c"]))
            exact += [q["t"]["x"], q["px"]["x"], q["py"]["x"], q["pz"]["x"]]
        ex = "".join("e" if x == "exact" else "r" for x in exact)
        evs.append((rec["label"], fields[0], len(parts), " ".join(parts), shape, ex))
    evs.sort()
    with open(path, "w") as f:
        for i, e in enumerate(evs):
            f.write("P %d %s %s %d %s %s %s\n" % (i, e[0], e[1], e[2], e[3], e[4], e[5]))
    return evs


def run_harness(exe, args, env, timeout):
    rc, out = vlib.sh([exe] + args, timeout=timeout, env=env)
    last = [l for l in out.splitlines() if l.startswith("{")]
    if rc == 2 and "INFRA" in out:
        raise vlib.InfraError("reader_replay: %s" % out[-1500:])
    if rc != 0 or not last:
        return {"crash": True, "rc": rc, "out": out[-3000:]}
    res = json.loads(last[-1])
    res["stdout"] = out
    return res


def models(ck, tier, wd):
    """Both TLC runs; returns (reader graph, codec graph) or None after a model violation."""
    jobs = {"Reader": ("Reader", "MCReader_%s.cfg" % tier), "Codec": ("MCCodec", "MCCodec_%s.cfg" % tier)}
    res = {}
    with cf.ThreadPoolExecutor(max_workers=2) as ex:
        futs = {k: ex.submit(vlib.tlc, m, c, dump=os.path.join(wd, k.lower()), workers=TLC_WORKERS // 2, timeout=600)
                for k, (m, c) in jobs.items()}
        for k, f in futs.items():
            res[k] = f.result()
    for k, r in res.items():
        if r.error:
            raise vlib.InfraError("%s: %s" % (k, r.error))
        ck.tlc_stats(r, "%s(%s)" % (jobs[k][0], jobs[k][1]))
    for k, r in res.items():
        if r.violated:
            ck.violation("model:" + r.violated, "%s.tla violates %s on the model" % (k, r.violated), {"trace": r.trace})
            return None
    return vlib.parse_dot(os.path.join(wd, "reader.dot")), vlib.parse_dot(os.path.join(wd, "codec.dot"))


def run(tier, replay):
    rp = None
    if replay:
        rp = json.load(open(replay))
        tier = rp.get("tier", tier)
    ck = vlib.Check(PID, "model_checking", tier)
    thorough = tier == "thorough"
    wd = vlib.workdir("c11")

    # ---- 1. the models
    gs = models(ck, tier, wd)
    if gs is None:
        return ck.finish()
    gr, gc = gs
    gpath, ppath = os.path.join(wd, "reader.graph"), os.path.join(wd, "codec.pool")
    cfgs = flatten_reader(gr, gpath)
    pool = flatten_codec(gc, ppath)
    ck.set("reader_configurations", len(cfgs))
    ck.set("reader_model_states", len(gr["nodes"]))
    ck.set("reader_model_edges", len(gr["edges"]))
    ck.set("codec_abstract_events", len(pool))
    if not cfgs or not pool:
        raise vlib.InfraError("empty model graph")

    exes = {v: vlib.compile_harness("reader_replay", ["harness/reader_replay.cc"], v) for v in ("plain", "asan")}

    # ---- replay of one recorded case
    if rp is not None:
        r = rp.get("replay") or {}
        d = os.path.join(wd, "replay")
        os.makedirs(d)
        args = ["--graph", gpath, "--pool", ppath, "--dir", d]
        if r.get("mode") == "roundtrip":
            args += ["--roundtrip", "--salts", str(r.get("salts", 4))]
            if r.get("pid") is not None:
                args += ["--only-pid", str(r["pid"]), "--only-salt", str(r["salt"])]
        elif r.get("mode") == "reader":
            args += ["--only-cfg", r["cfg"], "--seq", r["seq"]]
        else:
            raise vlib.InfraError("replay file %s holds no replayable case (model violation?)" % replay)
        res = run_harness(exes["plain"], args, vlib.harness_env("plain"), 300)
        print(res.get("stdout", res.get("out", "")))
        if res.get("crash"):
            ck.violation("crash:replay", "replayer died (rc=%s): %s" % (res["rc"], res["out"][-1500:]), r)
        else:
            ck.add("evaluations", res["sequences"] + res["rt_events"])
            ck.set("traces_validated_against_impl", res["sequences"] + res["rt_events"])
            for v in res["violations"]:
                ck.violation(v["key"], v["what"], r)
        ck.set("distinct_nontrivial", ck.cov.get("evaluations", 0))
        ck.set("rule", "replay of one recorded case")
        ck.set("exhaustive", False)
        ck.sample(r)
        # a replay must not clobber the evidence of the last real run
        evp = os.path.join(vlib.EVID, PID + ".json")
        keep = open(evp).read() if os.path.exists(evp) else None
        rc = ck.finish()
        if keep is not None:
            open(evp, "w").write(keep)
        return rc

    # ---- 2. Codec <-> event::store / load_next_event (ASan build: the parser handles long labels and odd numbers)
    nsalts = 6 if thorough else 4
    d = os.path.join(wd, "rt")
    os.makedirs(d)
    results = []
    rt = run_harness(exes["asan"], ["--graph", gpath, "--pool", ppath, "--dir", d, "--roundtrip", "--salts", str(nsalts)],
                     vlib.harness_env("asan"), 600)
    rt["phase"] = "roundtrip(asan)"
    results.append(rt)

    # ---- 3. Reader <-> event_reader: every behaviour of the graph, sharded over configurations; once with the
    #         optimised build and once more under ASan/UBSan
    budget = 420 if thorough else 40
    for variant in ("plain", "asan"):
        with cf.ThreadPoolExecutor(max_workers=SHARDS) as ex:
            futs = []
            for i in range(SHARDS):
                di = os.path.join(wd, "sh%s%d" % (variant, i))
                os.makedirs(di)
                futs.append(ex.submit(run_harness, exes[variant],
                                      ["--graph", gpath, "--pool", ppath, "--dir", di, "--shard", str(i), str(SHARDS),
                                       "--budget", str(budget), "--seed", str(ck.seed)],
                                      vlib.harness_env(variant), budget + 180))
            for i, f in enumerate(futs):
                rr = f.result()
                rr["phase"] = "replay(%s) shard %d/%d" % (variant, i, SHARDS)
                results.append(rr)

    exhaustive = True
    for res in results:
        if res.get("crash"):
            robj = {"phase": res["phase"], "output": res["out"]}
            m = re.search(r"FATAL-SIGNAL in case cfg=(\S+) seq=(\S+)", res["out"])
            if m:
                robj = {"mode": "reader", "cfg": m.group(1), "seq": m.group(2)}
            ck.violation("crash:" + res["phase"].split()[0], "replayer died (rc=%s) in phase %s%s: %s" % (
                res["rc"], res["phase"], " in configuration %s, calls %s" % (m.group(1), m.group(2)) if m else "",
                res["out"][-1500:]), robj)
            exhaustive = False
            continue
        ck.add("behaviours_replayed", res["sequences"])
        ck.add("calls_compared", res["steps"])
        ck.add("loads_delivering", res["loads_ok"])
        ck.add("loads_refused", res["loads_throw"])
        ck.add("has_next_true", res["has_true"])
        ck.add("has_next_false", res["has_false"])
        ck.add("delivered_events_compared_with_stored", res["events_compared"])
        ck.add("configurations_sampled", res["configs_sampled"])
        ck.add("roundtrip_events", res["rt_events"])
        ck.add("roundtrip_values_compared", res["rt_values"])
        ck.add("roundtrip_values_bit_exact", res["rt_exact_values"])
        ck.add("record_texts_checked_against_token_stream", res["shapes"])
        if "(asan)" not in res["phase"] or "roundtrip" in res["phase"]:
            ck.add("distinct_nontrivial", res["nontrivial"])
            ck.add("configurations_exhausted", res["configs_done"])
            ck.add("model_states_visited", res["states_visited"])
            for s in res.get("samples", [])[:1]:
                ck.sample(s)
        else:
            ck.add("behaviours_replayed_again_under_asan", res["sequences"])
            ck.add("configurations_exhausted_under_asan", res["configs_done"])
        if not res["exhaustive"]:
            exhaustive = False
        for s in res.get("rt_samples", [])[:2]:
            ck.sample({"record written by event::store from a Codec event": s})
        for v in res["violations"]:
            if v["cfg"] != "-":
                robj = {"mode": "reader", "cfg": v["cfg"], "seq": v["seq"]}
            else:
                robj = {"mode": "roundtrip", "salts": nsalts}
                for kv in filter(None, v.get("extra", "").split(";")):
                    k, x = kv.split("=")
                    robj[k] = int(x)
            ck.violation(v["key"], v["what"] + (" ; configuration %s, calls %s" % (v["cfg"], v["seq"]) if v["cfg"] != "-" else ""), robj)
    ck.set("evaluations", ck.cov.get("behaviours_replayed", 0) + ck.cov.get("roundtrip_events", 0))
    ck.set("traces_validated_against_impl", ck.cov.get("behaviours_replayed", 0))
    ck.add("distinct_nontrivial", 0)
    ck.set("rule", "behaviours of Reader.tla = (configuration, maximal call sequence) pairs enumerated by DFS over TLC's graph, each run on a "
                   "fresh event_reader over files written by event::store (distinct by construction; sampled ones are not counted); "
                   "non-trivial = the sequence contains at least one load_next_event. Round-trip events (Codec) are counted in "
                   "evaluations only.")
    ck.set("exhaustive", exhaustive and ck.cov.get("configurations_exhausted", 0) == len(cfgs))
    if not os.environ.get("VERIF_KEEP"):
        shutil.rmtree(wd, ignore_errors=True)
    ck.assumptions += [
        "TLC explores Reader.tla and Codec.tla completely for the constants of the tier's cfg files",
        "events inside the documented format: finite components, |x| <= 1e301, non-empty labels without white space",
        "the projection (has_next answer, Load threw / rank in the label, loaded counter) is the abstract state; "
        "is_terminated is only required to imply 'no announce, Load throws'; zero_event_time=false",
        "15 significant digits = equal '%.15g' text (components whose double has a <=15 digit decimal: bit equality)"]
    return ck.finish()
