"""C04 - every generated event is well-formed, time-ordered and produced in bounded work.

Model level (TLC): Scheme.tla on every extracted scheme graph - no cycle (bounded number of scheme-level steps), at least
one particle on every behaviour, at most 100 (Capacity); BB.tla - every mode emits the prescribed particles.
Observed level: every published background name and a sample of double-beta configurations are shot along one witness
path per scheme edge and along seeded random events, and then again with each deviate position in turn pinned into the
extreme tails 1e-12 and 1-1e-12; every event is projected through the public API and validated by TLC against
Event.tla!WellFormed (species, 1..100 particles, finite momenta, bounded kinetic energy, non-negative non-decreasing
times, event time 0, label); the deviate source refuses to serve more than 2e6 deviates for one shot."""
import collections
import concurrent.futures as cf
import json
import os
import random
import re

import c01
import c02
import c03
import catalogue
import schemes as sch
import vlib

PID = "C04"


def run_jobs(exe, jobs, wd, tag, nsh=8):
    def shard(i):
        rc, out = vlib.sh([exe, "--ev-trace", os.path.join(wd, "%s%d.ndjson" % (tag, i))], input="\n".join(jobs[i::nsh]) + "\n", timeout=2400,
                          env=vlib.harness_env("plain"))
        res = []
        for l in out.splitlines():
            if l.startswith("{"):
                try:
                    res.append(json.loads(l))
                except ValueError:
                    pass
        return rc, res, out[-600:]
    allres = []
    crashes = []
    with cf.ThreadPoolExecutor(max_workers=nsh) as ex:
        for i, (rc, res, tail) in enumerate(ex.map(shard, range(nsh))):
            allres += res
            if rc != 0:
                crashes.append((rc, tail, jobs[i::nsh][len([r for r in res if not r["id"].endswith(":init")]):][:1]))
                # the event trace of a shard that died ends inside an event (possibly inside a line): keep what is complete
                tf_ = os.path.join(wd, "%s%d.ndjson" % (tag, i))
                if os.path.exists(tf_):
                    data_ = open(tf_).read()
                    ls_ = data_[:data_.rfind("\n") + 1].splitlines() if "\n" in data_ else []
                    k_ = len(ls_)
                    while k_ > 0 and '"Begin"' not in ls_[k_ - 1]:
                        k_ -= 1
                    open(tf_, "w").write("".join(x + "\n" for x in ls_[:max(k_ - 1, 0)]))
    return allres, crashes, [os.path.join(wd, "%s%d.ndjson" % (tag, i)) for i in range(nsh)]


def run(tier, replay):
    ck = vlib.Check(PID, "model_checking", tier)
    thorough = tier == "thorough"
    rng = random.Random(ck.seed)
    S = sch.Schemes()
    wd = vlib.workdir("c04")
    exe = c01.cosim_exe()
    # ---- model level
    r = vlib.tlc("MCScheme", "MCScheme.cfg", workers=8, timeout=600)
    if r.error:
        raise vlib.InfraError(r.error)
    ck.tlc_stats(r, "MCScheme(Acyclic, NonEmpty, Capacity)")
    if r.violated:
        ck.violation("model:Scheme:" + r.violated, "Scheme.tla violates %s" % r.violated, {"trace": r.trace[-3:]})
    r = vlib.tlc("MCBB", "MCBB_quick.cfg", workers=8, timeout=900)
    if r.error:
        raise vlib.InfraError(r.error)
    ck.tlc_stats(r, "MCBB(Emission)")
    if r.violated:
        ck.violation("model:BB:" + r.violated, "BB.tla violates %s" % r.violated, {"trace": r.trace[-3:]})
    # ---- pass 1: unpinned events
    pub = catalogue.lis_background()
    refnames = S.bkg_names(port_only=True)
    jobs, meta = [], {}
    n = 0
    for name in pub:
        base = name.split("+")[0]
        paths = []
        if base in refnames:
            k0 = refnames[base][0][0]
            wit = S.witness_paths(k0)
            if not thorough:
                wit = rng.sample(wit, min(len(wit), 12))
            paths = [(k0, p) for (_, p) in wit]
        for (k0, p) in paths:
            n += 1
            jid = "%s.%d" % (base, n)
            seed = rng.randrange(1, 2 ** 31)
            plans = [S.plan(k0, p)]
            jobs.append(sch.bjob(jid, name, seed, plans))
            meta[jid] = {"name": name, "seed": seed, "plans": plans, "cat": "bkg"}
        for _ in range(40 if thorough else 8):
            n += 1
            jid = "%s.%d" % (base, n)
            seed = rng.randrange(1, 2 ** 31)
            jobs.append(sch.bjob(jid, name, seed, []))
            meta[jid] = {"name": name, "seed": seed, "plans": [], "cat": "bkg"}
    tab = S.tab["table"]
    triples = [(ent, il, lv, m) for ent in tab for il, lv in enumerate(ent["levels"]) for m in range(1, 21)]
    # where the admission rules and the kernel have to agree on an energy threshold: the e-capture modes (9..12) of the 2b+ nuclides
    # at every level (the available energy is Q - EK - 2me or Q - 2EK minus the level), and - thorough - every mode of the levels
    # less than 4 electron masses below Q.  Whatever the library ACCEPTS there has to yield well-formed events.
    edge = [t for t in triples if float(t[0]["Z"]) < 0 and (t[3] in (9, 10, 11, 12)
                                                            or (thorough and float(t[0]["Q"]) - t[2]["E"] / 1000.0 < 2.1))]
    ck.set("threshold_configurations", len(edge))
    eid = {(t[0]["name"], t[1], t[3]) for t in edge}
    rest = [t for t in triples if (t[0]["name"], t[1], t[3]) not in eid]
    for (ent, il, lv, m) in edge + rng.sample(rest, 1200 if thorough else 300):
        n += 1
        jid = "%s.%d.%d.d%d" % (ent["name"], il, m, n)
        seed = rng.randrange(1, 2 ** 31)
        jobs.append(c02.dline(jid, ent["name"], il, m, None, seed, 3))
        meta[jid] = {"name": ent["name"], "seed": seed, "cat": "dbd", "level": il, "mode": m}
    res1, crashes, files = run_jobs(exe, jobs, wd, "a")
    # ---- pass 2: every deviate position of those events pinned into the tails
    pins = []
    ndr = {}
    for rj in res1:
        jid = rj["id"].split(":")[0]
        if rj["id"].endswith(":init") or jid not in meta:
            continue
        if meta[jid]["cat"] == "bkg":
            ndr[jid] = rj["ndraws"]
        elif rj["id"].endswith(":0"):
            ndr[jid] = rj["ndraws"]
    for jid, nd in ndr.items():
        m = meta[jid]
        if not m.get("plans") and not thorough and rng.random() < 0.6:
            continue
        poss = range(nd) if thorough or nd <= 12 else rng.sample(range(nd), 12)
        for pos in poss:
            for val in (1e-12, 1.0 - 1e-12):
                n += 1
                pj = "%s.p%d" % (jid, n)
                if m["cat"] == "bkg":
                    pins.append(sch.bjob(pj, m["name"], m["seed"], m["plans"], pin=(pos, val)))
                else:
                    line = c02.dline(pj, m["name"], m["level"], m["mode"], None, m["seed"], 1).split()
                    line[9], line[10] = str(pos), repr(val)
                    pins.append(" ".join(line))
                meta[pj] = dict(m, pin=(pos, val))
    # ---- pass 3: RUNS of pinned deviates: from each (sampled) position on, 24 consecutive deviates at 1-1e-12, or at 1e-12 - a rejection
    #      loop is refused a dozen times in a row (its ordinate deviate stays at the top, or its abscissa at the edge), then the
    #      seeded stream takes over: the shot still ends and the event is still well-formed
    for jid, nd in ndr.items():
        m = meta[jid]
        if m["cat"] != "bkg" or "pin" in m:
            continue
        if not m.get("plans") and not thorough:
            continue
        poss = range(nd) if (thorough and nd <= 40) else rng.sample(range(nd), min(nd, 6 if not thorough else 20))
        for pos in poss:
            for val in (1.0 - 1e-12, 1e-12):
                n += 1
                pj = "%s.r%d" % (jid, n)
                pins.append(sch.bjob(pj, m["name"], m["seed"], m["plans"], pin=(pos, val), pin_len=24))
                meta[pj] = dict(m, pin=(pos, val), run=24)
    res2, crashes2, files2 = run_jobs(exe, pins, wd, "b")
    cls = collections.Counter()
    maxdraws = 0
    for rj in res1 + res2:
        if rj["id"].endswith(":init"):
            continue
        cls[rj["cls"]] += 1
        maxdraws = max(maxdraws, rj.get("ndraws", 0))
        jid = rj["id"].split(":")[0]
        if rj["cls"] == "port-exception":
            m = meta.get(jid, {})
            what = "draw-budget" if "budget" in rj["detail"] else "exception"
            ck.violation("%s:%s:%s" % (m.get("name", "?").split("+")[0], what, "pinned" if "pin" in m else "free"),
                         "shot of %s %s: %s" % (m.get("name"), ("with deviate #%d pinned to %r" % m["pin"]) if "pin" in m else "", rj["detail"]),
                         {"job": [j for j in jobs + pins if j.split()[1] == jid][:1]})
    for (rc, tail, nxt) in crashes + crashes2:
        ck.violation("crash-or-hang", "the generation harness died (rc=%s; 124 = time limit) : %s" % (rc, tail[-400:]), {"job": nxt})
    # ---- TLC validates every projected event
    nevents = 0

    def one(tf):
        found = []
        cnt = open(tf).read().count('"Begin"')
        stats = None
        for guard in range(30):
            rr, fl = c03.validate("MCEvent", "MCTraceEventC04.cfg", tf)
            if fl is None:
                raise vlib.InfraError("TraceEvent: " + (rr.error or rr.out[-600:]))
            if stats is None:
                stats = rr
            if fl[0] > fl[1]:
                break
            h, evl = c03.locate(tf, max(1, fl[0] - 1))
            if "id" not in h:
                raise vlib.InfraError("TraceEvent: cannot locate the rejected event at line %d of %s" % (fl[0], tf))
            small = tf + ".one"
            open(small, "w").write("\n".join(evl) + "\n")
            r2, fl2 = c03.validate("MCEvent", "MCTraceEventC04Named.cfg", small)
            st = r2.trace[-1] if r2.trace else {}
            found.append((h, evl, st))
            ident = h["id"].rsplit(":", 1)[0] if h["cat"] == "dbd" else h["id"]
            ls = open(tf).read().splitlines()
            out, skip = [], False
            for x in ls:
                if '"Begin"' in x:
                    i_ = json.loads(x)["id"]
                    skip = (i_.rsplit(":", 1)[0] if h["cat"] == "dbd" else i_) == ident
                if not skip:
                    out.append(x)
            open(tf, "w").write("\n".join(out) + "\n")
        return stats, cnt, found
    with cf.ThreadPoolExecutor(max_workers=4) as ex:
        for stats, cnt, found in ex.map(one, files + files2):
            ck.tlc_stats(stats, None)
            nevents += cnt
            for (h, evl, st) in found:
                jid = h["id"].split(":")[0]
                m = meta.get(jid, {})
                bad = st.get("bad", {})
                bads = ",".join(sorted(bad.get("__set__", []))) if isinstance(bad, dict) else str(bad)
                ck.violation("%s:malformed:%s" % (m.get("name", "?").split("+")[0], bads or "?"),
                             "event %s of %s%s is not well-formed (%s): %s" % (h["id"], m.get("name"), (" with deviate #%d pinned to %r" % m["pin"]) if "pin" in m else "",
                                                                                 bads, " ".join(evl)[:400]), {"event": evl, "job": [j for j in jobs + pins if j.split()[1] == jid][:1]})
    # ---- the nuclides that exist only in the port: every path of their graphs (extracted from the C++ text), steered, and the
    #      scheme-level trace validated against the graph: the routine went exactly where the plan sent it, one scheme-level
    #      draw per fork, the prescribed primitive calls with the prescribed literal arguments, and returned
    po = S.tab["chains"].get("port_only", {})
    ck.set("port_only_graphs", sorted(po))
    if po:
        pl = []
        for nm in sorted(po):
            k0 = S.key_of_call(nm)
            for p_ in S.all_paths(k0):
                pl.append(sch.bjob("%s.q%d" % (nm, len(pl)), nm, 1 + len(pl), [S.plan(k0, p_)]))
        tf = os.path.join(wd, "portonly.ndjson")
        rc_, res_, tail_ = c01.run_shard(exe, pl, tf)
        if rc_ != 0:
            ck.violation("crash-or-hang", "the generation harness died on the port-only paths (rc=%s): %s" % (rc_, tail_[-400:]), None)
        else:
            rr, fl = c01.validate_trace(tf)
            if fl is None:
                raise vlib.InfraError("TraceScheme(port-only): " + (rr.error or rr.out[-600:]))
            ck.tlc_stats(rr, "MCTraceScheme(port-only nuclides, %d paths)" % len(pl))
            ck.set("port_only_paths_followed", len(pl))
            if fl[0] <= fl[1]:
                ls = open(tf).read().splitlines()
                ln = min(fl[0], len(ls))
                start = ln - 1
                while start > 0 and '"Reset"' not in ls[start - 1]:
                    start -= 1
                ctx = ls[max(0, start - 1):ln + 1]
                ent = [x for x in ctx if '"Enter"' in x]
                nm = json.loads(ent[0])["s"] if ent else "?"
                ck.violation("%s:port-only:path-not-followed" % nm,
                             "port-only scheme %s left the steered path of its own graph at trace line %d: %s" % (nm, ln, " ".join(ctx)[:600]),
                             {"trace": ctx})
    ck.set("events_validated", nevents)
    ck.set("evaluations", nevents)
    ck.set("traces_validated_against_impl", nevents)
    ck.set("pinned_shots", len(pins))
    ck.set("max_deviates_in_one_shot", maxdraws)
    ck.set("published_background_names", len(pub))
    ck.set("cosim_classes_under_pins", dict(cls))
    ck.set("distinct_nontrivial", len(jobs) + len(pins))
    ck.set("exhaustive", False)
    ck.set("rule", "all %d published background names (one witness path per scheme edge of the reference-derived graphs + seeded events; the "
                   "BxDecay0-only nuclides by seeded events) and seeded double-beta configurations; each deviate position of each such shot pinned "
                   "to 1e-12 and to 1-1e-12; distinct = (job, pin) pairs; non-trivial = the shot produces an event" % len(pub))
    ck.sample({"free": jobs[0][:140]})
    ck.sample({"pinned": pins[0][:140] if pins else None})
    ck.assumptions += ["kinetic energy bound 12 MeV; at most 2e6 deviates per shot; 2400 s for each shard of shots",
                       "the nine BxDecay0-only background nuclides have no extracted graph: seeded and pinned events only"]
    return ck.finish()
