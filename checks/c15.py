"""C15 - malformed input files raise an error; never a crash, hang or garbage load.

spec/Loader.tla is a token-level grammar model of the input formats (event record file, gA tab_pdf / tab_ocdf tables,
the three catalogue lists, the command line of bxdecay0-run): a valid document x ONE injected fault x a token
position.  TLC enumerates the cases (every state of MCLoader carries the faulted document) and checks the enumeration's
own invariants; each case is rendered to bytes and fed to the real loader by harness/loader_fuzz.cc (one forked child
per case, ASan+UBSan build of the library, the loader translation units additionally recompiled with libstdc++
assertions, allocation cap, 5 s limit); the command lines are also run on the real bxdecay0-run binary.  What was
observed is validated against the specification by TLC (spec/TraceLoader.tla: Gen / Inject / Observe per case,
Loader!Accept decides).  A seeded byte-level mutation pass over the same corpus is outside what the model enumerates
and is reported separately (outside_spec)."""
import concurrent.futures as cf
import hashlib
import json
import math
import os
import random
import re
import shutil

import vlib

PID = "C15"
LONG_N = 1000000          # the "10^6 character token"
LONG_N_EXEC = 100000      # longest single argument execve accepts is 128 KiB: used for the real binary only
ALLOC_CAP_MB = 1024       # one allocation beyond this = "alloc"
RSS_CAP_MB = 3072         # resident set beyond this = "alloc"
CASE_TIMEOUT = 5.0
PAR = 4
HARDEN = ["programs/bxdecay0_clparser.cpp", "programs/bxdecay0_driver.cpp",
          "bxdecay0/event_reader.cc", "bxdecay0/dbd_gA.cc", "bxdecay0/bb_utils.cc"]
LIS_FILE = {"lis_dbd": "dbd_isotopes.lis", "lis_bkg": "background_isotopes.lis", "lis_modes": "dbd_modes.lis"}
GA_FILE = {"pdf": "tab_pdf.data", "ocdf": "tab_ocdf.data"}
ALLOWED = ("error", "loaded")


def hfmt(fmt):
    """model format name -> harness format name"""
    return "argv" if fmt.startswith("argv") else fmt.split("#")[0]


# ----------------------------------------------------------------------------- rendering tokens -> bytes / argv

def tok_text(t, base="BASE", long_n=LONG_N, prev=None):
    v = t[2]
    if v in ("<NEARPREV>", "<SAMEPREV>"):
        try:
            x = float(prev)
        except (TypeError, ValueError):
            return "0"
        if v == "<SAMEPREV>":
            return prev
        for _ in range(3):
            x = math.nextafter(x, math.inf)
        return "%.17g" % x
    if v == "<LONGD>":
        return "9" * long_n
    if v == "<LONGA>":
        return "A" * long_n
    if v == "<FLOOD0>":
        return " ".join(["0"] * 5000)
    if v == "<WS>":
        return " \t  "
    if v == "<BASE>":
        return base
    return v


def render_text(doc, crlf=False):
    out, cur = [], []
    for t in doc:
        if t[0] == "nl":
            out.append(" ".join(cur) + ("\r\n" if crlf else "\n"))
            cur = []
        else:
            cur.append(tok_text(t, prev=cur[-1] if cur else None))
    if cur:
        out.append(" ".join(cur))
    return "".join(out).encode("latin-1")


def render_argv(doc, base, long_n=LONG_N):
    out = []
    for t in doc:
        out.append(tok_text(t, base, long_n, prev=out[-1] if out else None))
    return out


class Case:
    __slots__ = ("id", "fmt", "kind", "pos", "role", "crlf", "doc", "data", "args", "outside", "bound")

    def __init__(self, cid, fmt, kind, pos, role, crlf, doc, data=None, outside=False, bound=None):
        self.id, self.fmt, self.kind, self.pos, self.role, self.crlf, self.doc = cid, fmt, kind, pos, role, crlf, doc
        self.data = data          # bytes of the rendered file (file formats)
        self.args = None          # argv formats: rendered later (needs the scratch base name)
        self.outside = outside    # byte-level mutation: outside the specification
        self.bound = bound

    def describe(self):
        return {"id": self.id, "fmt": self.fmt, "kind": self.kind, "pos": self.pos, "role": self.role, "crlf": self.crlf,
                "outside_spec": self.outside,
                "data_hex": self.data.hex() if self.data is not None and len(self.data) <= 4096 else None,
                "data_len": len(self.data) if self.data is not None else None,
                "doc": self.doc if self.doc is not None and len(json.dumps(self.doc)) < 200000 else None}


def cases_from_graph(g, prefix=""):
    """TLC state graph of MCLoader -> controls (valid documents) and cases."""
    out = []
    for nid in sorted(g["nodes"]):
        st = g["nodes"][nid]
        f = st["fault"]
        fmt = st["fmt"]
        cid = "%s%s.%s.%d" % (prefix, fmt, f["kind"], f["pos"])
        b = st["verdict"]["bound"]
        c = Case(cid, fmt, f["kind"], f["pos"], f["role"], bool(f["crlf"]), st["doc"], bound=(b["values"], b["entries"]))
        if hfmt(fmt) != "argv":
            c.data = render_text(st["doc"], c.crlf)
        out.append(c)
    return out


# ----------------------------------------------------------------------------- byte-level mutation (outside the spec)

def mutate(data, rng):
    b = bytearray(data)
    nops = rng.choice((1, 1, 1, 2, 3))
    for _ in range(nops):
        op = rng.randrange(8)
        n = len(b)
        if op == 0 and n:                                   # bit flip
            i = rng.randrange(n)
            b[i] ^= 1 << rng.randrange(8)
        elif op == 1 and n:                                 # byte replaced by an interesting one
            b[rng.randrange(n)] = rng.choice(b"\x00\xff-+.eE9 \n\t#^!1")
        elif op == 2:                                       # insert random bytes
            i = rng.randrange(n + 1)
            b[i:i] = bytes(rng.randrange(256) for _ in range(rng.choice((1, 1, 2, 8))))
        elif op == 3 and n:                                 # delete a range
            i = rng.randrange(n)
            del b[i:i + rng.choice((1, 1, 2, 5, 20))]
        elif op == 4 and n:                                 # duplicate a range
            i = rng.randrange(n)
            j = min(n, i + rng.choice((1, 4, 16, 64)))
            b[j:j] = b[i:j]
        elif op == 5 and n:                                 # truncate at a byte
            del b[rng.randrange(n):]
        elif op == 6 and n:                                 # digit -> other digit / long digit run
            idx = [i for i in range(n) if 48 <= b[i] <= 57]
            if idx:
                i = rng.choice(idx)
                b[i:i + 1] = rng.choice((b"0", b"9", b"99999999999", b"-1"))
        elif op == 7 and n:                                 # swap two bytes
            i, j = rng.randrange(n), rng.randrange(n)
            b[i], b[j] = b[j], b[i]
    return bytes(b)


# ----------------------------------------------------------------------------- running the cases

class Runner:
    def __init__(self, ck):
        self.ck = ck
        self.repo = vlib.repo()
        for f in HARDEN[:2]:
            if not os.path.exists(os.path.join(self.repo, f)):
                raise vlib.InfraError("C15 harness needs %s of the repository" % f)
        srcs = ["harness/loader_fuzz.cc"] + [os.path.join(self.repo, f) for f in HARDEN
                                             if os.path.exists(os.path.join(self.repo, f))]
        self.exe = vlib.compile_harness("loader_fuzz", srcs, "asan",
                                        extra=["-I", os.path.join(self.repo, "programs"), "-D_GLIBCXX_ASSERTIONS"])
        # the same harness built with g++: automatic variables are filled with another pattern (0xFE.. = finite doubles; clang
        # fills doubles with NaN), so a value that comes from an uninitialised local shows up as a different result
        self.exe2 = vlib.compile_harness("loader_fuzz", srcs, "plain", extra=["-I", os.path.join(self.repo, "programs"), "-D_GLIBCXX_ASSERTIONS"])
        self.env2 = vlib.harness_env("plain")
        self.runbin = os.path.join(vlib.ensure_build("plain"), "bxdecay0-run")
        if not os.path.exists(self.runbin):
            raise vlib.InfraError("bxdecay0-run not built: %s" % self.runbin)
        self.env = vlib.harness_env("asan")
        self.env["ASAN_OPTIONS"] += (":max_allocation_size_mb=%d:hard_rss_limit_mb=%d:allocator_may_return_null=0"
                                     ":malloc_fill_byte=190:max_malloc_fill_size=268435456" % (ALLOC_CAP_MB, RSS_CAP_MB))
        self.work = vlib.workdir("c15")
        self.resdesc = os.path.join(self.repo, "resources", "description")

    def materialise(self, c):
        """write the case's input; returns the path given to the harness"""
        h = hfmt(c.fmt)
        d = os.path.join(self.work, "in", c.id.replace("/", "_"))
        if h == "event":
            os.makedirs(os.path.dirname(d), exist_ok=True)
            p = d + ".d0t"
            with open(p, "wb") as f:
                f.write(c.data)
            return p
        if h in GA_FILE:
            dd = os.path.join(d, "data", "dbd_gA", "v1.0", "Test", "g0")
            os.makedirs(dd)
            with open(os.path.join(dd, GA_FILE[h]), "wb") as f:
                f.write(c.data)
            return d
        if h in LIS_FILE:
            dd = os.path.join(d, "description")
            os.makedirs(dd)
            for k, fn in LIS_FILE.items():
                if k == h:
                    with open(os.path.join(dd, fn), "wb") as f:
                        f.write(c.data)
                else:
                    os.symlink(os.path.join(self.resdesc, fn), os.path.join(dd, fn))
            return d
        if h == "argv":
            os.makedirs(os.path.dirname(d), exist_ok=True)
            c.args = render_argv(c.doc, d + ".out")
            p = d + ".args"
            with open(p, "w", encoding="latin-1") as f:
                f.write("".join(a + "\n" for a in c.args))
            return p
        raise vlib.InfraError("unknown format %s" % c.fmt)

    def run_harness(self, cases, budget, _retry=False):
        """all cases through loader_fuzz (PAR shards); returns {id: record}"""
        shards = [[] for _ in range(PAR)]
        for i, c in enumerate(cases):
            shards[i % PAR].append((c.id, hfmt(c.fmt), self.materialise(c)))

        def one(k):
            if not shards[k]:
                return {}
            lst = os.path.join(self.work, "cases.%d.%d.tsv" % (k, len(os.listdir(self.work))))
            outp = lst + ".out"
            with open(lst, "w") as f:
                for t in shards[k]:
                    f.write("\t".join(t) + "\n")
            rc, out = vlib.sh([self.exe, "--cases", lst, "--out", outp, "--timeout", str(CASE_TIMEOUT),
                               "--seed", str(self.ck.seed)], timeout=budget, env=self.env)
            recs = {}
            if os.path.exists(outp):
                with open(outp, encoding="latin-1") as f:
                    for line in f:
                        try:
                            r = json.loads(line)
                        except ValueError:
                            raise vlib.InfraError("unparsable harness record: %s" % line[:300])
                        recs[r["id"]] = r
            if rc != 0 and rc != 124:
                raise vlib.InfraError("loader_fuzz driver failed (rc=%s): %s" % (rc, out[-1500:]))
            return recs
        res = {}
        with cf.ThreadPoolExecutor(max_workers=PAR) as ex:
            for r in ex.map(one, range(PAR)):
                res.update(r)
        # a wall-clock verdict is only kept if it repeats in isolation with three times the limit (shared machine)
        slow = [t for sh in shards for t in sh if res.get(t[0], {}).get("how") == "timeout"][:12]
        if slow and not _retry:
            lst = os.path.join(self.work, "cases.retry.%d.tsv" % len(os.listdir(self.work)))
            with open(lst, "w") as f:
                for t in slow:
                    f.write("\t".join(t) + "\n")
            vlib.sh([self.exe, "--cases", lst, "--out", lst + ".out", "--timeout", str(3 * CASE_TIMEOUT),
                     "--seed", str(self.ck.seed)], timeout=len(slow) * (3 * CASE_TIMEOUT + 5) + 30, env=self.env)
            if os.path.exists(lst + ".out"):
                with open(lst + ".out", encoding="latin-1") as f:
                    for line in f:
                        r = json.loads(line)
                        r["retried"] = True
                        res[r["id"]] = r
            self.ck.add("timeouts_retried", len(slow))
        # the event-record and catalogue cases once more in the g++ build: the two builds must agree on what was delivered
        if not _retry:
            second = [t for sh in shards for t in sh if t[1] == "event" or t[1] in LIS_FILE]
            if second:
                lst = os.path.join(self.work, "cases.gcc.%d.tsv" % len(os.listdir(self.work)))
                with open(lst, "w") as f:
                    for t in second:
                        f.write("\t".join(t) + "\n")
                rc2, out2 = vlib.sh([self.exe2, "--cases", lst, "--out", lst + ".out", "--timeout", str(CASE_TIMEOUT), "--seed", str(self.ck.seed)],
                                    timeout=budget, env=self.env2)
                if rc2 not in (0, 124):
                    raise vlib.InfraError("loader_fuzz (g++ build) failed (rc=%s): %s" % (rc2, out2[-800:]))
                if os.path.exists(lst + ".out"):
                    with open(lst + ".out", encoding="latin-1") as f:
                        for line in f:
                            r2 = json.loads(line)
                            r1 = res.get(r2["id"])
                            if not r1 or not r1.get("res") or not r2.get("res"):
                                if r1 is not None and r2.get("how") not in (None, "exit", "timeout") and r1.get("how") in (None, "exit"):
                                    res[r2["id"]] = r2          # the g++ build crashed where the clang build did not
                                continue
                            a, b = r1["res"], r2["res"]
                            keys = ("outcome", "nev", "npart", "n", "invalid")
                            if any(a.get(k) != b.get(k) for k in keys):
                                a["build_dependent"] = 1
                                a["other_build"] = {k: b.get(k) for k in keys}
                                for k in ("nev", "npart", "n"):
                                    if isinstance(a.get(k), int) and isinstance(b.get(k), int):
                                        a[k] = max(a[k], b[k])
                self.ck.add("cases_run_in_both_builds", len(second))
        return res

    def run_binary(self, cases):
        """argv cases on the real bxdecay0-run (plain build): refusal must be orderly"""
        env = {"BXDECAY0_RESOURCE_DIR": os.path.join(self.repo, "resources")}

        def one(c):
            base = os.path.join(self.work, "bin", c.id.replace("/", "_"))
            os.makedirs(os.path.dirname(base), exist_ok=True)
            args = render_argv(c.doc, base, LONG_N_EXEC)
            try:
                rc, out = vlib.sh([self.runbin] + args, timeout=30, env=env)
            except OSError as e:
                return c.id, {"skipped": str(e)}
            done = False
            if rc == 0 and os.path.exists(base + ".d0c"):
                with open(base + ".d0c", errors="replace") as f:
                    done = "@status=0" in f.read()
            sym = "hang" if rc == 124 else "crash" if (rc < 0 or rc >= 128) else "loaded" if done else "error"
            return c.id, {"rc": rc, "sym": sym, "tail": out[-600:] if sym not in ALLOWED else ""}
        res = {}
        with cf.ThreadPoolExecutor(max_workers=PAR) as ex:
            for cid, r in ex.map(one, cases):
                res[cid] = r
        return res

    def cleanup(self):
        shutil.rmtree(self.work, ignore_errors=True)


def symptom(rec):
    """harness record -> one of Loader!Symptoms"""
    if rec is None:
        return "crash"
    how, code, res = rec["how"], rec["code"], rec.get("res")
    if how == "timeout":
        return "hang"
    if how == "exit" and code == 0 and res:
        oc = res.get("outcome")
        if oc == "loaded":
            return "loaded"
        if oc in ("error", "usage"):
            return "error"
        if oc in ("nonterminating", "runaway"):
            return "hang"
    text = rec.get("marker", "") + "\n" + rec.get("tail", "")
    if re.search(r"allocation-size-too-big|out-of-memory|rss limit|exceeds maximum supported size", text):
        return "alloc"
    if re.search(r"(heap|stack|global)-buffer-overflow|container-overflow|use-after-free|use-after-return|"
                 r"use-after-poison|use-after-scope|Assertion '.*' failed", text):
        return "oob"
    if "division by zero" in text:
        return "crash"
    if "runtime error:" in text:
        return "ub"
    return "crash"


def observation(c, rec):
    """(sym, values, entries, invalid, alien) as integers / strings for Loader!Accept"""
    sym = symptom(rec)
    res = (rec or {}).get("res") or {}
    h = hfmt(c.fmt)
    g = lambda k: int(res.get(k, 0) or 0)
    if h == "event":
        # alien: what was delivered differs between two builds that fill uninitialised automatic variables differently
        return sym, 4 * g("nev") + 5 * g("npart"), 0, g("invalid"), g("build_dependent")
    # Only the loaders' OWN validity predicates count as "invalid": event::is_valid for a delivered event, "p.d.f. value
    # >= 0" for the loaded table (seen through plot_interpolated_pdf), the catalogue loaders' acceptance test.  What a later
    # shoot makes of a table that passes them (e.g. NaN momenta from an absurd but accepted energy range) is not the
    # loader's business: those counters (shots_invalid, e_bad, use_invalid) are informative only.
    if h in GA_FILE:
        return sym, 0, 0, g("plot_neg"), g("plot_over")
    if h in LIS_FILE:
        return sym, 0, g("n"), g("implausible"), g("alien") + g("build_dependent")
    return sym, 0, 0, 0, 0


def why_py(sym, values, entries, invalid, alien, bound):
    """Python mirror of Loader!Why: decides the byte-level pass (outside the specification) and cross-checks TLC"""
    if sym not in ALLOWED:
        return sym
    if invalid or alien:
        return "garbage"
    if values > bound[0] or entries > bound[1]:
        return "invented"
    return "ok"


def byte_bound(data):
    """'no invention' for arbitrary bytes: a value consumes at least one non-blank byte, an entry one non-blank line"""
    return (len(data) - sum(data.count(w) for w in (b" ", b"\t", b"\n", b"\r", b"\v", b"\f")),
            sum(1 for ln in data.split(b"\n") if ln.strip()))


def control_ok(c, rec):
    res = (rec or {}).get("res") or {}
    if symptom(rec) != "loaded":
        return False
    h = hfmt(c.fmt)
    if h == "event":
        return res.get("nev", 0) >= 1 and res.get("npart", 0) >= 1
    if h in GA_FILE:
        return res.get("shots", 0) >= 50 and res.get("shoot_err", 1) == 0
    if h in LIS_FILE:
        return res.get("n", 0) >= 3 and res.get("use_ok", 0) >= 1
    return True


# ----------------------------------------------------------------------------- the check

def tlc_enumerate(ck, module, cfg, label, spec_dir=None):
    dump = os.path.join(vlib.workdir("c15-tlc"), "graph")
    r = vlib.tlc(module, cfg, dump=dump, workers=PAR, spec_dir=spec_dir, timeout=600)
    if r.error:
        raise vlib.InfraError(r.error)
    ck.tlc_stats(r, label)
    if r.violated:
        ck.violation("model:" + r.violated, "Loader.tla violates %s on the model %s" % (r.violated, label), {"trace": r.trace})
        return None
    g = vlib.parse_dot(dump + ".dot")
    shutil.rmtree(os.path.dirname(dump), ignore_errors=True)
    return g


def validate_trace(ck, run, cases, recs, bins, module="TraceLoader", cfg="TraceLoader.cfg", spec_dir=None):
    """Observations -> ndjson -> TLC; returns {case id (+'/bin'): why} for the rejected ones."""
    path = os.path.join(run.work, "trace.%d.ndjson" % len(os.listdir(run.work)))
    nobs = 0
    with open(path, "w") as f:
        for c in cases:
            f.write(json.dumps({"e": "Gen", "f": c.fmt}) + "\n")
            if c.kind != "none":
                f.write(json.dumps({"e": "Inject", "k": c.kind, "p": c.pos}) + "\n")
            sym, values, entries, invalid, alien = observation(c, recs.get(c.id))
            f.write(json.dumps({"e": "Observe", "id": c.id, "sym": sym, "values": values, "entries": entries,
                                "invalid": invalid, "alien": alien}) + "\n")
            nobs += 1
            b = bins.get(c.id)
            if b and "sym" in b:
                f.write(json.dumps({"e": "Observe", "id": c.id + "/bin", "sym": b["sym"], "values": 0, "entries": 0,
                                    "invalid": 0, "alien": 0}) + "\n")
                nobs += 1
            f.write(json.dumps({"e": "Reset"}) + "\n")
    r = vlib.tlc(module, cfg, workers=1, env={"TRACE": path}, spec_dir=spec_dir, timeout=900)
    if r.error:
        raise vlib.InfraError(r.error)
    ck.tlc_stats(r, module)
    if r.violated:
        # a line that no action of the specification matches: harness and model disagree about the case space
        raise vlib.InfraError("TraceLoader did not match the whole trace (%s, depth %d): harness/spec mismatch; trace %s"
                              % (r.violated, r.depth, path))
    rej = {}
    for m in re.finditer(r'<<\s*"REJECT",\s*"([^"]*)",\s*"([^"]*)"', r.out):   # TLC wraps long tuples over several lines
        rej[m.group(1)] = m.group(2)
    if len(re.findall(r'"REJECT"', r.out)) != len(rej):
        raise vlib.InfraError("could not parse every REJECT line of TraceLoader's output")
    # cross-check with the Python mirror of Loader!Why (used for the byte-level pass): the two must agree
    for c in cases:
        w = why_py(*observation(c, recs.get(c.id)), c.bound)
        if (w != "ok") != (c.id in rej) or (w != "ok" and rej[c.id] != w):
            raise vlib.InfraError("TraceLoader and its Python mirror disagree on %s: %s vs %s" % (c.id, rej.get(c.id, "ok"), w))
    return rej, nobs


def report(ck, c, why, rec, extra=None):
    key = "%s:%s:%s" % (hfmt(c.fmt), c.kind, why)
    ck.cov.setdefault("violating_cases", {})
    ck.cov["violating_cases"][key] = ck.cov["violating_cases"].get(key, 0) + 1
    if ck.cov["violating_cases"][key] > 1:
        return
    marker = (rec or {}).get("marker", "")
    what = "format=%s fault=%s at token %d (%s)%s -> %s%s" % (
        c.fmt, c.kind, c.pos, c.role, " [byte-level mutation, outside the model]" if c.outside else "", why,
        (": " + marker[:300]) if marker else (": " + json.dumps((rec or {}).get("res"))[:300]) if rec else "")
    case = c.describe()
    if c.args is not None:
        case["args"] = [a if len(a) <= 200 else a[:40] + "...(%d chars)" % len(a) for a in c.args]
    ck.violation(key, what, {"case": case, "observed": rec, "extra": extra})


def shipped_docs(run):
    """Typed token sequences of the documents shipped in the repository (thorough tier)."""
    docs = {}
    q = lambda s: '"' + s.replace("\\", "\\\\").replace('"', '\\"') + '"'
    T = lambda k, r, v: "<<%s, %s, %s>>" % (q(k), q(r), q(v))
    NLT = T("nl", "nl", "")

    def lines_of(p):
        with open(p, encoding="latin-1") as f:
            return f.read().split("\n")
    for fmt, fn in LIS_FILE.items():
        toks = []
        ls = lines_of(os.path.join(run.resdesc, fn))
        if ls and ls[-1] == "":
            ls.pop()
        for ln in ls:
            w = ln.split()
            if not w:
                toks.append(NLT)
                continue
            if w[0].startswith("#"):
                toks += [T("comment", "comment", " ".join(w)), NLT]
                continue
            if fmt == "lis_modes" and len(w) >= 3 and re.fullmatch(r"-?\d+", w[0]) and re.fullmatch(r"-?\d+", w[2]):
                toks += [T("int", "mode", w[0]), T("name", "label", w[1]), T("int", "legacy", w[2])]
                toks += [T("word", "desc", x) for x in w[3:]]
            else:
                toks += [T("name", "iso", w[0])] + [T("word", "desc", x) for x in w[1:]]
            toks.append(NLT)
        docs[fmt + "#shipped"] = toks
    p = os.path.join(run.repo, "resources", "data", "dbd_gA", "Test", "g0", "tab_pdf.data")
    if os.path.exists(p):
        toks, stage = [], 0
        ls = lines_of(p)
        if ls and ls[-1] == "":
            ls.pop()
        for ln in ls:
            w = ln.split()
            if not w:
                toks.append(NLT)
                continue
            if w[0].startswith("#"):
                toks += [T("comment", "comment", " ".join(w)), NLT]
                continue
            body, cm = w, []
            for i, x in enumerate(w):
                if x.startswith("#"):
                    body, cm = w[:i], [T("comment", "comment", " ".join(w[i:]))]
                    break
            if stage == 0:
                toks += [T("real", "esum", body[0])] + [T("word", "desc", x) for x in body[1:]]
                stage = 1
            elif stage == 1 and len(body) == 5:
                toks += [T("kw", "label", body[0]), T("real", "emin", body[1]), T("real", "emax", body[2]),
                         T("real", "estep", body[3]), T("count", "nsamples", body[4])]
                stage = 2
            else:
                toks += [T("real", "prob", x) for x in body]
            toks += cm + [NLT]
        if stage == 2:
            docs["pdf#shipped"] = toks
    return docs


def write_shipped_spec(run, docs):
    """MCLoaderShipped.tla / TraceLoaderShipped.tla in a scratch spec directory (generated from the repository's files)."""
    sd = os.path.join(run.work, "spec")
    os.makedirs(sd)
    for f in ("Loader.tla",):
        shutil.copy(os.path.join(vlib.SPEC, f), sd)
    names = sorted(docs)
    ident = lambda n: "Doc_" + re.sub(r"[^A-Za-z0-9]", "_", n)
    with open(os.path.join(sd, "MCLoaderShipped.tla"), "w") as f:
        f.write("---- MODULE MCLoaderShipped ----\n(* generated by checks/c15.py from the files shipped in the repository *)\n"
                "EXTENDS Loader\n")
        for n in names:
            f.write("%s == <<\n  %s >>\n" % (ident(n), ",\n  ".join(docs[n])))
        f.write("MCFormats == {%s}\nMCArgvFormats == {}\n" % ", ".join('"%s"' % n for n in names))
        f.write("MCDoc == [f \\in MCFormats |-> CASE " + "\n   [] ".join('f = "%s" -> %s' % (n, ident(n)) for n in names) + "]\n====\n")
    cfgc = "CONSTANTS\n  Formats <- MCFormats\n  ArgvFormats <- MCArgvFormats\n  Doc <- MCDoc\nCHECK_DEADLOCK FALSE\n"
    with open(os.path.join(sd, "MCLoaderShipped.cfg"), "w") as f:
        f.write("SPECIFICATION Spec\n" + cfgc + "INVARIANTS TypeOK Effective PrefixKept OneEdit BoundSane\n")
    with open(os.path.join(vlib.SPEC, "TraceLoader.tla")) as f:
        t = f.read().replace("MODULE TraceLoader", "MODULE TraceLoaderShipped").replace("EXTENDS MCLoader,", "EXTENDS MCLoaderShipped,")
    with open(os.path.join(sd, "TraceLoaderShipped.tla"), "w") as f:
        f.write(t)
    with open(os.path.join(sd, "TraceLoaderShipped.cfg"), "w") as f:
        f.write("SPECIFICATION TSpec\n" + cfgc + "POSTCONDITION TraceAccepted\n")
    return sd


def execute(ck, run, cases, budget, spec=None):
    """harness + binary + trace validation for model cases; returns (recs, number of observations)"""
    recs = run.run_harness(cases, budget)
    missing = [c.id for c in cases if c.id not in recs]
    if missing:
        raise vlib.InfraError("harness produced no record for %d cases (time box %ss too small?), e.g. %s"
                              % (len(missing), budget, missing[:3]))
    argv = [c for c in cases if hfmt(c.fmt) == "argv"]
    bins = run.run_binary(argv) if argv else {}
    for c in cases:
        if c.kind == "none" and not control_ok(c, recs.get(c.id)):
            raise vlib.InfraError("control failed: the VALID %s document does not load (%s) - the check would be vacuous"
                                  % (c.fmt, json.dumps(recs.get(c.id))[:600]))
        if c.kind == "none" and c.id in bins and bins[c.id].get("sym") != "loaded":
            raise vlib.InfraError("control failed: bxdecay0-run refuses the VALID command line %s: %s" % (c.fmt, bins[c.id]))
    if spec:
        rej, nobs = validate_trace(ck, run, cases, recs, bins, "TraceLoaderShipped", "TraceLoaderShipped.cfg", spec)
    else:
        rej, nobs = validate_trace(ck, run, cases, recs, bins)
    byid = {c.id: c for c in cases}
    for rid, why in sorted(rej.items()):
        cid = rid[:-4] if rid.endswith("/bin") else rid
        c = byid[cid]
        if rid.endswith("/bin"):
            report(ck, c, why + "-bxdecay0-run", None, bins.get(cid))
        else:
            report(ck, c, why, recs.get(cid))
    for c in cases:
        sym = observation(c, recs.get(c.id))[0]
        ck.cov.setdefault("outcomes", {}).setdefault(hfmt(c.fmt), {})
        o = ck.cov["outcomes"][hfmt(c.fmt)]
        k = sym if c.id not in rej else "VIOLATION:" + rej[c.id]
        o[k] = o.get(k, 0) + 1
    ck.add("evaluations", len(cases) + len([b for b in bins.values() if "sym" in b]))
    ck.add("binary_runs", len([b for b in bins.values() if "sym" in b]))
    ck.add("binary_runs_skipped", len([b for b in bins.values() if "skipped" in b]))
    return recs, nobs, rej


def run(tier, replay):
    ck = vlib.Check(PID, "exploration", tier)
    thorough = tier == "thorough"
    run_ = Runner(ck)
    try:
        return _run(ck, run_, thorough, replay)
    finally:
        run_.cleanup()


def _replay(ck, run_, path):
    obj = json.load(open(path))
    cs = obj["replay"]["case"]
    c = Case(cs["id"], cs["fmt"], cs["kind"], cs["pos"], cs["role"], cs["crlf"], cs.get("doc"),
             data=bytes.fromhex(cs["data_hex"]) if cs.get("data_hex") else None, outside=cs.get("outside_spec", False))
    if c.data is None and c.doc is not None and hfmt(c.fmt) != "argv":
        c.data = render_text(c.doc, c.crlf)
    if c.data is None and hfmt(c.fmt) != "argv":
        raise vlib.InfraError("replay file carries neither bytes nor document")
    recs = run_.run_harness([c], 120)
    rec = recs.get(c.id)
    obs = observation(c, rec)
    sym = obs[0]
    why = why_py(*obs, byte_bound(c.data) if c.data is not None else (10 ** 9, 10 ** 9))
    bins = run_.run_binary([c]) if hfmt(c.fmt) == "argv" else {}
    ck.add("evaluations", 1 + len(bins))
    ck.set("distinct_nontrivial", 2)
    ck.set("rule", "replay of one recorded case")
    ck.sample({"case": c.id, "observed": sym, "why": why})
    if why != "ok":
        report(ck, c, why, rec)
    b = bins.get(c.id)
    if b and b.get("sym") not in ALLOWED and "sym" in b:
        report(ck, c, b["sym"] + "-bxdecay0-run", None, b)
    return ck.finish()


def _run(ck, run_, thorough, replay):
    if replay:
        return _replay(ck, run_, replay)
    # ---- 1. the model: enumerate format x fault x position
    g = tlc_enumerate(ck, "MCLoader", "MCLoader.cfg", "MCLoader")
    if g is None:
        return ck.finish()
    cases = cases_from_graph(g)
    ck.set("model_cases", len([c for c in cases if c.kind != "none"]))
    ck.set("model_formats", sorted({c.fmt for c in cases}))
    # ---- 2. every case on the real loaders, 3. validated against the specification
    recs, nobs, rej = execute(ck, run_, cases, 900 if thorough else 400)
    ck.add("traces_validated_against_impl", nobs)
    exhaustive = True
    allcases = list(cases)
    if thorough:
        docs = shipped_docs(run_)
        sd = write_shipped_spec(run_, docs)
        g2 = tlc_enumerate(ck, "MCLoaderShipped", "MCLoaderShipped.cfg", "MCLoaderShipped", spec_dir=sd)
        if g2 is not None:
            c2 = cases_from_graph(g2)
            ck.set("shipped_cases", len([c for c in c2 if c.kind != "none"]))
            ck.set("shipped_formats", sorted(docs))
            r2, n2, rej2 = execute(ck, run_, c2, 1500, spec=sd)
            ck.add("traces_validated_against_impl", n2)
            allcases += c2
            recs.update(r2)
    # ---- 4. byte-level mutation of the same corpus (outside the specification)
    rng = random.Random(ck.seed)
    per = 6000 if thorough else 150
    base = [c for c in allcases if c.kind == "none" and c.data is not None]
    seedpool = {}
    for c in allcases:
        if c.data is not None and c.kind in ("none", "missing", "extra", "dupline", "dropline", "truncate"):
            seedpool.setdefault(c.fmt, []).append(c)
    bcases, seen = [], set()
    for b in base:
        pool = seedpool[b.fmt]
        for i in range(per):
            src = b if i % 3 else rng.choice(pool)      # 2/3 one-step from the valid document, 1/3 from a faulted one
            if len(src.data) > 20000:
                src = b
            data = mutate(src.data, rng)
            hsh = hashlib.md5(b.fmt.encode() + data).hexdigest()
            if hsh in seen or data == b.data:
                continue
            seen.add(hsh)
            bcases.append(Case("b.%s.%d" % (b.fmt, i), b.fmt, "bytemut", 0, "bytes", False, None, data=data, outside=True,
                               bound=byte_bound(data)))
    brecs = run_.run_harness(bcases, 1500 if thorough else 400)
    bmissing = [c.id for c in bcases if c.id not in brecs]
    if bmissing:
        exhaustive = False
        ck.set("bytelevel_not_run", len(bmissing))
    outside = {"outside_spec": True, "cases": 0, "error": 0, "loaded": 0, "violations": 0}
    for c in bcases:
        if c.id not in brecs:
            continue
        obs = observation(c, brecs[c.id])
        sym = obs[0]
        why = why_py(*obs, c.bound)
        outside["cases"] += 1
        if why == "ok":
            outside[sym] += 1
        else:
            outside["violations"] += 1
            report(ck, c, why, brecs[c.id])
    ck.set("bytelevel", outside)
    ck.add("evaluations", outside["cases"])
    # ---- evidence
    distinct = set()
    valid = {c.fmt: (c.data if c.data is not None else tuple(render_argv(c.doc, "B", 8))) for c in allcases if c.kind == "none"}
    for c in allcases + bcases:
        rend = c.data if c.data is not None else tuple(render_argv(c.doc, "B", 8))
        if c.kind != "none" and rend != valid.get(c.fmt) and (c.id in recs or c.id in brecs):
            distinct.add((hfmt(c.fmt), hashlib.md5(repr(rend).encode()).hexdigest()))
    ck.set("distinct_nontrivial", len(distinct))
    ck.set("rule", "cases = states of Loader.tla (valid document x one fault x token position, all of them), rendered to bytes / "
                   "argv and run on the real loaders, plus seeded byte-level mutants (outside_spec); distinct = different "
                   "(loader, rendered byte string or argument vector); non-trivial = differs from the valid document and the "
                   "harness returned an observation for it")
    ck.set("exhaustive", exhaustive)
    for cid in ("event.truncate.12", "pdf.zero.11", "ocdf.dropline.27", "lis_modes.negative.5", "argv1.truncate.4"):
        c = next((x for x in cases if x.id == cid), None)
        if c:
            ck.sample({"case": cid, "fault": "%s@%s" % (c.kind, c.role),
                       "rendered": (c.data[:160].decode("latin-1") if c.data is not None else c.args),
                       "observed": observation(c, recs.get(c.id))[0], "verdict": rej.get(cid, "ok")})
    if bcases:
        c = bcases[0]
        ck.sample({"case": c.id, "outside_spec": True, "rendered": c.data[:120].decode("latin-1"),
                   "observed": observation(c, brecs.get(c.id))[0] if c.id in brecs else "not run"})
    ck.assumptions += [
        "TLC enumerates Loader.tla completely for the documents of MCLoader.tla (one fault per case)",
        "sanitizers (ASan+UBSan), libstdc++ assertions in the recompiled loader sources, the %d MB allocation cap, the %d MB "
        "resident-set cap and the %.0f s limit are the oracle for crash / out-of-bounds / unbounded allocation / hang" % (
            ALLOC_CAP_MB, RSS_CAP_MB, CASE_TIMEOUT),
        "the validity predicates are the library's own (event::is_valid, dbd_gA::is_initialized, p.d.f. values >= 0, the "
        "catalogue loaders' own acceptance tests); 'no invention' = delivered values <= 2 x tokens of the document, "
        "catalogue entries and p.d.f. values occur in the document",
        "heap memory is pre-filled with 0xBE so that reads of never-written table cells are visible as negative p.d.f. values",
        "the 10^6-character token is shortened to %d characters for the real binary (execve limit)" % LONG_N_EXEC]
    return ck.finish()
