"""C09 - configure / initialise / shoot / reset protocol.

Decided by spec/Lifecycle.tla: TLC checks the protocol invariants on the model and exports the complete state
graph; harness/lifecycle_replay.cc drives a real decay0_generator along (a) one witness behaviour per graph edge,
(b) every sequence of action instances up to a depth, (c) seeded long walks, comparing the getter projection with
the model after every call and every event with a fresh instance's."""
import concurrent.futures as cf
import json
import os
import subprocess

import vlib

PID = "C09"


def flatten(g, path):
    """TLC graph -> flat text for the C++ replayer. Returns (actions list, sid map)."""
    acts = {}
    alist = []

    def aid(name, args):
        arg = "-"
        if args:
            a = args[0]
            arg = "''" if a == "" else str(a)
        k = (name, arg)
        if k not in acts:
            acts[k] = len(alist)
            alist.append(k)
        return acts[k]
    sid = {n: i for i, n in enumerate(sorted(g["nodes"]))}
    with open(path, "w") as f:
        edges = []
        for (s, n, a, d) in g["edges"]:
            edges.append((sid[s], aid(n, a), sid[d]))
        for (n, a), i in sorted(acts.items(), key=lambda x: x[1]):
            f.write("A %d %s %s\n" % (i, n, a))
        for n, i in sid.items():
            st = g["nodes"][n]
            gg = st["g"]
            f.write("S %d %d %s %s %d %d %d %s %d %d %s\n" % (
                i, 1 if gg["init"] else 0, gg["cat"], gg["iso"] if gg["iso"] != "" else "''", 1 if gg["ver"] else 0,
                gg["level"], gg["mode"], gg["range"], gg["nops"], gg["count"], st["last"]))
        for e in sorted(set(edges)):
            f.write("E %d %d %d\n" % e)
        f.write("I %d\n" % sid[g["init"][0]])
    return alist, sid


def usable(g):
    """EF init: from every reachable state an initialised state is reachable."""
    radj = {}
    for (s, n, a, d) in g["edges"]:
        radj.setdefault(d, set()).add(s)
    good = {n for n, st in g["nodes"].items() if st["g"]["init"]}
    stack = list(good)
    while stack:
        u = stack.pop()
        for p in radj.get(u, ()):
            if p not in good:
                good.add(p)
                stack.append(p)
    return [n for n in g["nodes"] if n not in good]


def run_harness(exe, args, env, timeout):
    # the library's own diagnostics on stderr are voluminous: not captured (a crash is re-run with stderr for the report)
    rc, out = vlib.sh([exe] + args, timeout=timeout, env=env, drop_stderr=True)
    last = [l for l in out.splitlines() if l.startswith("{")]
    if rc != 0 or not last:
        rc2, out2 = vlib.sh([exe] + args, timeout=timeout, env=env)
        return {"crash": True, "rc": rc, "out": out2[-3000:]}
    return json.loads(last[-1])


def run(tier, replay):
    ck = vlib.Check(PID, "model_checking", tier)
    thorough = tier == "thorough"
    # ---- 1. the model
    dump = os.path.join(vlib.workdir("c09"), "lifecycle")
    r = vlib.tlc("MCLifecycle", "MCLifecycle.cfg", dump=dump, coverage=False)
    if r.error:
        raise vlib.InfraError(r.error)
    ck.tlc_stats(r, "MCLifecycle(GaData=FALSE)")
    if r.violated:
        ck.violation("model:" + r.violated, "Lifecycle.tla violates %s on the model" % r.violated, {"trace": r.trace})
        return ck.finish()
    g = vlib.parse_dot(dump + ".dot")
    bad = usable(g)
    if bad:
        ck.violation("model:Usable", "state from which no initialised state is reachable: %s" % g["nodes"][bad[0]], None)
    gpath = dump + ".graph"
    alist, sid = flatten(g, gpath)
    ck.set("model_states", len(g["nodes"]))
    ck.set("model_edges", len(g["edges"]))
    ck.set("action_instances", len(alist))

    # ---- 2. replay on the real object
    variants = ["asan", "plain"]
    exes = {v: vlib.compile_harness("lifecycle_replay", ["harness/lifecycle_replay.cc"], v) for v in variants}
    results = []
    cover_budget = 500 if thorough else 100
    def ga_variant():
        res_ga = []
            # ---- 3. the same protocol with a gA dataset mounted (mode 21 of Mo100 initialises and shoots): second model, cover replay
        gdump = os.path.join(os.path.dirname(dump), "lifecycle_ga")
        rg = vlib.tlc("MCLifecycle", "MCLifecycle_ga.cfg", dump=gdump)
        if rg.error:
            raise vlib.InfraError(rg.error)
        ck.tlc_stats(rg, "MCLifecycle(GaData=TRUE)")
        if rg.violated:
            ck.violation("model:ga:" + rg.violated, "Lifecycle.tla (GaData=TRUE) violates %s" % rg.violated, {"trace": rg.trace})
        else:
            gg = vlib.parse_dot(gdump + ".dot")
            ggpath = gdump + ".graph"
            galist, _ = flatten(gg, ggpath)
            gadir = os.path.join(os.path.dirname(dump), "gadata")
            rc_, out_ = vlib.sh(["python3", os.path.join(vlib.ROOT, "tools", "mk_ga_dataset.py"), gadir, "Mo100", "g0"], timeout=120)
            if rc_ != 0:
                raise vlib.InfraError("mk_ga_dataset failed: " + out_[-400:])
            # the g2 tables of the same nuclide, cut in the middle of their rows: an initialisation that is refused LATE, after the
            # loader has accepted the header and part of the table
            rc_, out_ = vlib.sh(["python3", os.path.join(vlib.ROOT, "tools", "mk_ga_dataset.py"), gadir, "Mo100", "g2"], timeout=120)
            if rc_ != 0:
                raise vlib.InfraError("mk_ga_dataset failed: " + out_[-400:])
            for dp, _dn, fn in os.walk(gadir):
                if os.path.basename(dp) == "g2":
                    for f_ in fn:
                        if f_.startswith("tab_"):
                            ls_ = open(os.path.join(dp, f_)).read().splitlines()
                            # another energy grid than the good table's (what a half-loaded table leaves behind must be visible)
                            for i_, l_ in enumerate(ls_):
                                w_ = l_.split()
                                if len(w_) == 5 and w_[0] in ("CumulativeProbability", "Probability"):
                                    w_[1], w_[2], w_[3] = repr(float(w_[1]) * 0.5), repr(float(w_[2]) * 0.5), repr(float(w_[3]) * 0.5)
                                    ls_[i_] = " ".join(w_)
                            open(os.path.join(dp, f_), "w").write("\n".join(ls_[:max(6, len(ls_) - 3)]) + "\n")
            genv = vlib.harness_env("plain")
            genv["BXDECAY0_DBD_GA_DATA_DIR"] = gadir
            gamap = {k: i for i, k in enumerate(galist)}
            gpre = [("SetCategory", "dbd"), ("SetIsotope", "Mo100"), ("SetLevel", "0"), ("SetMode", "21"), ("Initialize", "-"), ("Shoot", "-"), ("Reset", "-")]
            glate = [("SetCategory", "dbd"), ("SetIsotope", "Mo100"), ("SetLevel", "0"), ("SetMode", "22"), ("Initialize", "-")]
            jobs_ga = [("edge-cover(gA mounted) prefix=none", []), ("edge-cover(gA mounted) prefix=gA-cycle", gpre),
                       ("edge-cover(gA mounted) prefix=late-failing-gA-load", glate)]
            with cf.ThreadPoolExecutor(max_workers=3) as ex:
                futs = []
                for tag, pre in jobs_ga:
                    args = ["--graph", ggpath, "--cover", "--budget", str(cover_budget), "--maxlen", "3000"]
                    if pre:
                        args += ["--prefix", " ".join(str(gamap[l]) for l in pre)]
                    futs.append((tag, ex.submit(run_harness, exes["plain"], args, genv, cover_budget + 120)))
                for tag, f in futs:
                    rr = f.result()
                    rr["phase"] = tag
                    res_ga.append(rr)
                    if not rr.get("crash"):
                        ck.add("state_action_pairs_executed", rr["pairs_covered"])
                        ck.cov.setdefault("cover_complete", {})[tag] = rr["exhaustive"]
        return res_ga
    ga_pool = cf.ThreadPoolExecutor(max_workers=1)
    ga_future = ga_pool.submit(ga_variant)
    # (a) edge cover: every (model state, action instance) pair is executed on a live object (online walk of the
    #     graph), once from the initial state and once more after each "poison prefix" - histories suspected of
    #     leaving hidden state behind (failed initialisations of each kind, a completed initialise/shoot/reset
    #     cycle).  The model does not depend on that history; the code must not either.
    amap = {k: i for i, k in enumerate(alist)}
    dbd = [("SetCategory", "dbd"), ("SetIsotope", "Mo100"), ("SetLevel", "0")]
    prefixes = {
        "none": [],
        "failed-gA-init": dbd + [("SetMode", "21"), ("Initialize", "-")],
        "failed-4b-init": dbd + [("SetMode", "20"), ("Initialize", "-")],
        "failed-bkg-init": [("SetCategory", "bkg"), ("SetIsotope", "junk"), ("Initialize", "-")],
        "failed-window-init": dbd + [("SetMode", "4"), ("SetRange", "inv"), ("Initialize", "-")],
        "dbd-cycle": dbd + [("SetMode", "4"), ("SetRange", "ok"), ("Initialize", "-"), ("Shoot", "-"), ("Reset", "-")],
        "bkg-cycle": [("SetCategory", "bkg"), ("SetIsotope", "Co60"), ("AddOp", "-"), ("Initialize", "-"), ("Shoot", "-"),
                      ("Reset", "-")],
    }
    if not thorough:
        prefixes = {k: prefixes[k] for k in ("none", "failed-gA-init", "dbd-cycle")}
    ck.set("poison_prefixes", sorted(prefixes))
    cover_budget = 500 if thorough else 100
    with cf.ThreadPoolExecutor(max_workers=len(prefixes)) as ex:
        futs = {}
        for pname, pre in prefixes.items():
            args = ["--graph", gpath, "--cover", "--budget", str(cover_budget), "--maxlen", "3000"]
            if pre:
                args += ["--prefix", " ".join(str(amap[l]) for l in pre)]
            futs[pname] = ex.submit(run_harness, exes["plain"], args, vlib.harness_env("plain"), cover_budget + 120)
        for pname, f in futs.items():
            rr = f.result()
            rr["phase"] = "edge-cover prefix=%s" % pname
            results.append(rr)
            if not rr.get("crash"):
                ck.add("state_action_pairs_executed", rr["pairs_covered"])
                ck.cov.setdefault("cover_complete", {})[pname] = rr["exhaustive"]
    # (b) all sequences up to depth k, sharded over the cores (plain build)
    depth = 5 if thorough else 3
    budget = 600 if thorough else 60
    nsh = vlib.NCPU if thorough else 8
    with cf.ThreadPoolExecutor(max_workers=nsh) as ex:
        futs = [ex.submit(run_harness, exes["plain"],
                          ["--graph", gpath, "--depth", str(depth), "--shard", str(i), str(nsh), "--budget", str(budget)],
                          vlib.harness_env("plain"), budget + 120) for i in range(nsh)]
        for i, f in enumerate(futs):
            rr = f.result()
            rr["phase"] = "dfs-depth-%d shard %d/%d" % (depth, i, nsh)
            results.append(rr)
    # (b2) refused initialisations of every kind followed by every kind of repair: what the refused attempt had already copied into
    #      the engine's parameter block (mode, window, level) must not survive into the repaired initialisation
    D_ = [("SetCategory", "dbd"), ("SetIsotope", "Mo100")]
    fails = []
    for r_ in ("ok", "lo", "hi", "none"):
        fails.append(D_ + [("SetLevel", "9"), ("SetMode", "4"), ("SetRange", r_), ("Initialize", "-")])      # refused by the engine: level
        fails.append([("SetCategory", "dbd"), ("SetIsotope", "junk"), ("SetLevel", "0"), ("SetMode", "4"), ("SetRange", r_), ("Initialize", "-")])
        fails.append(D_ + [("SetLevel", "0"), ("SetMode", "1"), ("SetRange", r_), ("Initialize", "-")] if r_ != "none" else
                     D_ + [("SetLevel", "1"), ("SetMode", "4"), ("SetRange", "ok"), ("Initialize", "-")])                    # window on mode 1 / spin rule
    fails.append(D_ + [("SetLevel", "0"), ("SetMode", "21"), ("Initialize", "-")])
    fails.append(D_ + [("SetLevel", "0"), ("SetMode", "20"), ("Initialize", "-")])
    repairs = [[("SetIsotope", "Mo100"), ("SetLevel", "0"), ("SetMode", "4"), ("SetRange", r_), ("Initialize", "-"), ("Shoot", "-"), ("Shoot", "-")]
               for r_ in ("none", "lo", "hi", "ok")]
    repairs += [[("SetIsotope", "Mo100"), ("SetLevel", "0"), ("SetMode", "1"), ("SetRange", "none"), ("Initialize", "-"), ("Shoot", "-")],
                [("SetIsotope", "Mo100"), ("SetLevel", "1"), ("SetMode", "7"), ("SetRange", "none"), ("Initialize", "-"), ("Shoot", "-")],
                [("SetCategory", "bkg"), ("SetIsotope", "Co60"), ("Initialize", "-"), ("Shoot", "-")]]
    seqs = [f_ + r_ for f_ in fails for r_ in repairs] + [f_ + f2_ + r_ for f_ in fails[:3] for f2_ in fails[3:6] for r_ in repairs[:3]]
    sfile = dump + ".repair.seq"
    with open(sfile, "w") as f:
        for sq in seqs:
            if all(l_ in amap for l_ in sq):
                f.write(" ".join(str(amap[l_]) for l_ in sq) + "\n")
    rr = run_harness(exes["plain"], ["--graph", gpath, "--seqfile", sfile], vlib.harness_env("plain"), 600)
    rr["phase"] = "repair-after-refusal"
    results.append(rr)
    ck.set("repair_after_refusal_sequences", len(seqs))
    # (c) seeded long walks (ASan build)
    nw = 20000 if thorough else 2000
    res = run_harness(exes["asan"], ["--graph", gpath, "--walks", str(nw), "--walklen", "14", "--seed", str(ck.seed),
                                     "--budget", "240" if thorough else "40"], vlib.harness_env("asan"), 600)
    res["phase"] = "walks(asan)"
    results.append(res)

    ga_future_results = ga_future.result()
    results += ga_future_results
    exhaustive = True
    for res in results:
        if res.get("crash"):
            ck.violation("crash:" + res["phase"].split()[0], "replayer died (rc=%s) in phase %s: %s" % (
                res["rc"], res["phase"], res["out"][-1500:]), {"phase": res["phase"], "output": res["out"]})
            continue
        ck.add("evaluations", res["sequences"])
        ck.add("steps_compared", res["steps"])
        ck.add("shoots_compared_with_fresh_instance", res["shoots"])
        ck.add("successful_initialisations", res["inits_ok"])
        if res["phase"].startswith("dfs") and not res["exhaustive"]:
            exhaustive = False
        for v in res["violations"]:
            ck.violation(v["key"], v["what"], {"sequence": v["seq"], "phase": res["phase"]})
    ck.set("traces_validated_against_impl", ck.cov.get("evaluations", 0))
    ck.set("distinct_nontrivial", sum(r_.get("sequences", 0) for r_ in results if r_.get("phase", "").startswith(("dfs", "edge"))))
    ck.set("rule", "behaviours of Lifecycle.tla: online walks executing every (state, action instance) pair of the graph, from the initial state and after each poison prefix; every maximal "
                   "sequence of model-enabled action instances of length %d, seeded walks of length 14; non-trivial = at least one call" % depth)
    ck.set("exhaustive", exhaustive)
    ck.set("dfs_depth", depth)
    for (pname, pre) in list(prefixes.items())[:3]:
        ck.sample({"poison_prefix": pname, "calls": ["%s(%s)" % l for l in pre], "then": "online cover of every (state, action) pair"})
    ck.sample("SetCategory(dbd) ; SetIsotope(Mo100) ; SetLevel(0) ; SetMode(21) ; Initialize [fails: no gA data] ; SetMode(1) ; Initialize ; Shoot ; Reset ; Shoot [refused]")
    ck.assumptions += ["TLC explores Lifecycle.tla completely for the constants in MCLifecycle.cfg",
                       "the getter projection (harness/lifecycle_replay.cc::project) is the abstract state",
                       "two variants: gA dataset not mounted (mode 21 initialisation must fail and leave the object usable) and a synthetic Mo100/g0 dataset mounted (mode 21 initialises and shoots)"]
    return ck.finish()
