"""C13 - bxdecay0-run output is reproducible, complete and equal to the library API's.

Specifications: spec/CmdLine.tla (the command line as an explicit rule table: which command lines are accepted,
what the companion file has to report), spec/Driver.tla (the program as a process over two buffered files, Crash
enabled everywhere; the statement of C13 as invariants), spec/TraceDriver.tla (trace validation).

Binding to the real program (plain build, <builddir>/bxdecay0-run):
 (1) TLC enumerates the command-line grid with the predicted plan; each abstract command line is made concrete and
     run: verdict, record count, consecutive ids, every byte of the event file against harness/driver_oracle.cc
     (decay0_generator + std_random through the public API), a second run byte-identical, companion keys/values.
 (2) kill points = the program's write(2) calls on its two files: harness/killw.c (LD_PRELOAD) lets the k-th write
     through whole or cut after b bytes and SIGKILLs; every k (and b) is enumerated; the surviving files must be a
     byte-prefix of the uninterrupted run's and satisfy StatusOnlyIfComplete.
 (3) the observed order of opens / writes / closes (shim log for the killed runs, strace for uninterrupted ones) plus
     the files found on disk are turned into one Driver action per line and validated by TLC as behaviours of Driver.
"""
import concurrent.futures as cf
import json
import os
import random
import re
import shutil

import vlib

PID = "C13"
ABSENT = -99
NPAR = 4
DEFAULT_SEED = 314159
VALUE_OPTS = ["-g", "-n", "-s", "-N", "-l", "-c", "-m", "-e", "-E", "-a", "-b", "--pgop-mdl-particle", "--pgop-mdl-rank",
              "--pgop-mdl-cone-phi", "--pgop-mdl-cone-theta", "--pgop-mdl-cone-aperture"]
LONG = {"-n": "--nb-events", "-s": "--seed", "-N": "--nuclide", "-l": "--level", "-c": "--decay-category",
        "-m": "--dbd-mode", "-e": "--dbd-emin", "-E": "--dbd-emax", "-a": "--activity", "-h": "--help"}
SETTING_KEYS = {"decay-category", "nuclide", "seed", "nb-events", "activity-Bq", "dbd-daughter-level", "dbd-mode",
                "erange-min-energy-MeV", "erange-max-energy-MeV", "mdl.particle_label", "mdl.target_particle_rank",
                "mdl.cone_phi_degree", "mdl.cone_theta_degree", "mdl.cone_aperture_degree"}
INFO_KEYS = {"library-name", "library-version", "time-from-epoch-s", "erange-toallevents", "pgops"}
STATUS = "@status"
MDL = {  # label, rank, phi, theta, aperture ; None = option not given
    # (the angles are real-valued options: values with a fractional part)
    "e-": ("e-", 0, 30.5, 60.25, 20.5), "all": ("all", None, None, None, None), "gamma": ("gamma", 1, None, None, 35.5),
    "badlabel": ("muon", None, None, None, None), "badrank": ("e-", -2, None, None, None),
    "negap": ("e-", None, None, None, -5), "bigap": ("e-", None, None, None, 400), "nolabel": (None, 0, None, None, 20)}
UNKNOWN_OPTS = ["--frobnicate", "-x", "--nb-events=3", "--Seed", "-"]
UNKNOWN_NUCS = ["Xx99", "Co6", "Co60x", "co60", "Mo"]


# ----------------------------------------------------------------------------- catalogue

def catalogue():
    d = os.path.join(vlib.repo(), "resources", "description")

    def names(f):
        out = []
        for l in open(os.path.join(d, f)):
            l = l.strip()
            if l and not l.startswith("#"):
                out.append(l.split()[0])
        return out
    return names("background_isotopes.lis"), names("dbd_isotopes.lis")


def ga_data_mounted():
    return os.path.exists(os.path.join(vlib.repo(), "resources", "data", "dbd_gA", "v1.0", "Mo100", "g0", "tab_ocdf.data"))


# ----------------------------------------------------------------------------- abstract command line -> argv

FIELDS = ["cat", "nuc", "level", "mode", "win", "seed", "count", "act", "mdl", "fault", "sp"]
DEFAULTS = {"cat": "none", "nuc": "none", "level": ABSENT, "mode": ABSENT, "win": "none", "seed": "none",
            "count": ABSENT, "act": "none", "mdl": "none", "fault": "none", "sp": "plain"}


def sig(cl):
    return ",".join("%s=%s" % (f, cl[f]) for f in FIELDS if cl[f] != DEFAULTS[f]) or "(empty)"


def concretise(cl, base, conc):
    """conc: {'nucname': str|None, 'variant': int, 'dang': option|None, 'n': override of the record count|None}
    -> (argv, job) ; job = the settings for the API oracle (None when a value is not a number at all)."""
    rng = random.Random(conc.get("variant", 0) * 7919 + 13)
    variant = conc.get("variant", 0)

    def o(short):
        return LONG[short] if (variant and short in LONG and rng.random() < 0.5) else short

    def num(v):
        """spelling of an integer option value: 'padded' = decimal with one leading zero (same value)"""
        t = str(v)
        if cl.get("sp", "plain") == "padded" and re.fullmatch(r"\d+", t):
            return "0" + t
        return t
    groups = []
    if cl["cat"] != "none":
        groups.append([o("-c"), {"dbd": "dbd", "background": "background", "junk": "alpha"}[cl["cat"]]])
    nucname = None
    if cl["nuc"] != "none":
        nucname = conc.get("nucname") or {"bkgP": "Co60", "unk": UNKNOWN_NUCS[variant % len(UNKNOWN_NUCS)]}.get(cl["nuc"], cl["nuc"])
        groups.append([o("-N"), nucname])
    if cl["level"] != ABSENT:
        groups.append([o("-l"), num(cl["level"])])
    if cl["mode"] != ABSENT:
        groups.append([o("-m"), num(cl["mode"])])
    emin = emax = None
    if cl["win"] in ("lo", "both"):
        emin = "0.05"
    if cl["win"] in ("hi", "both"):
        emax = "0.15"
    if cl["win"] == "inv":
        emin, emax = "0.15", "0.05"
    if cl["win"] == "neg":
        emin = "-1"
    w = []
    if emin is not None:
        w += [o("-e"), emin]
    if emax is not None:
        w += [o("-E"), emax]
    if w:
        groups.append(w)
    seedtxt = {"none": None, "0": "0", "7": "7", "max": "2147483647", "neg": "-1", "nan": "abc"}[cl["seed"]]
    if seedtxt is not None:
        groups.append([o("-s"), num(seedtxt)])
    n = conc.get("n") or cl["count"]
    if n != ABSENT:
        groups.append([o("-n"), num(n)])
    acttxt = {"none": None, "pos": "2.5", "zero": "0", "neg": "-1"}[cl["act"]]
    if acttxt is not None:
        groups.append([o("-a"), acttxt])
    mdl = None
    if cl["mdl"] != "none":
        mdl = MDL[cl["mdl"]]
        g = []
        for optname, v in zip(["--pgop-mdl-particle", "--pgop-mdl-rank", "--pgop-mdl-cone-phi", "--pgop-mdl-cone-theta",
                               "--pgop-mdl-cone-aperture"], mdl):
            if v is not None:
                g += [optname, num(v) if optname == "--pgop-mdl-rank" else str(v)]
        groups.append(g)
    if variant:
        rng.shuffle(groups)
    argv = [t for g in groups for t in g]
    # the basename: positional (anywhere between the option groups) or through -b
    if variant % 3 == 2:
        argv += ["-b", base]
    elif variant % 3 == 1:
        argv = [base] + argv
    else:
        argv += [base]
    if cl["fault"] == "unknown":
        u = UNKNOWN_OPTS[variant % len(UNKNOWN_OPTS)]
        pos = rng.randrange(len(argv) + 1) if variant else 0
        # never between an option and its value
        while 0 < pos < len(argv) and argv[pos - 1].startswith("-") and argv[pos - 1] in VALUE_OPTS + list(LONG.values()) + ["-b"]:
            pos -= 1
        argv.insert(pos, u)
    elif cl["fault"] == "extra":
        argv += ["extra-parameter"]
    elif cl["fault"] == "help":
        h = o("-h")
        if variant % 2:
            argv.append(h)
        else:
            argv.insert(0, h)
    elif cl["fault"] == "dangling":
        argv.append(conc.get("dang") or "-n")
    job = None
    if cl["cat"] in ("dbd", "background") and nucname and cl["seed"] not in ("neg", "nan"):
        job = {"cat": cl["cat"], "nuclide": nucname, "level": 0 if cl["level"] == ABSENT else cl["level"],
               "mode": 0 if cl["mode"] == ABSENT else cl["mode"],
               "emin": emin if (emin and cl["cat"] == "dbd") else "nan", "emax": emax if (emax and cl["cat"] == "dbd") else "nan",
               "seed": DEFAULT_SEED if seedtxt is None else int(seedtxt), "n": 1 if n == ABSENT else n,
               "activity": acttxt or "nan"}
        if mdl is None:
            job["mdl"] = ["-", 0, 0, 0, 0]
        else:
            job["mdl"] = ["''" if mdl[0] is None else mdl[0], -1 if mdl[1] is None else mdl[1], mdl[2] or 0, mdl[3] or 0, mdl[4] or 0]
    return argv, job


def job_line(jid, job):
    m = job["mdl"]
    return "%s %s %s %d %d %s %s %d %d %s %s %d %s %s %s\n" % (
        jid, job["cat"], job["nuclide"], job["level"], job["mode"], job["emin"], job["emax"], job["seed"], job["n"],
        job["activity"], m[0], m[1], m[2], m[3], m[4])


# ----------------------------------------------------------------------------- file formats

def parse_units(data):
    """event file bytes -> {'units': [(id, part, end_offset)], 'consumed', 'torn', 'torn_id', 'malformed'}
    unit 1 = 'id time nuclide' line, unit 2 = 'np' line + np particle lines + blank line."""
    units, pos, L = [], 0, len(data)
    res = {"units": units, "consumed": 0, "torn": False, "torn_id": None, "malformed": None}
    while pos < L:
        e = data.find(b"\n", pos)
        if e < 0:
            m = re.match(rb"(\d+) ", data[pos:])
            res["torn_id"] = int(m.group(1)) if m else None
            break
        toks = data[pos:e].split(b" ")
        try:
            rid = int(toks[0])
            float(toks[1])
            assert len(toks) == 3 and toks[2]
        except Exception:
            res["malformed"] = "bad record head at offset %d: %r" % (pos, data[pos:e][:60])
            break
        units.append((rid, 1, e + 1))
        res["consumed"] = e + 1
        p = e + 1
        e2 = data.find(b"\n", p)
        if e2 < 0:
            res["torn_id"] = rid
            break
        try:
            npart = int(data[p:e2])
            assert npart >= 0
        except Exception:
            res["malformed"] = "bad particle count at offset %d: %r" % (p, data[p:e2][:60])
            break
        q, complete = e2 + 1, True
        for i in range(npart + 1):
            e3 = data.find(b"\n", q)
            if e3 < 0:
                complete = False
                break
            if i == npart and e3 != q:
                res["malformed"] = "no blank line after record %d (offset %d)" % (rid, q)
                complete = False
                break
            if i < npart and len(data[q:e3].split()) != 5:
                res["malformed"] = "bad particle line in record %d (offset %d)" % (rid, q)
                complete = False
                break
            q = e3 + 1
        if res["malformed"]:
            break
        if not complete:
            res["torn_id"] = rid
            break
        units.append((rid, 2, q))
        res["consumed"] = q
        pos = q
    res["torn"] = res["malformed"] is None and L > res["consumed"]
    return res


def record_ids(pu):
    return [u[0] for u in pu["units"] if u[1] == 2]


def parse_lines(data, ref_keys=None):
    """companion bytes -> {'lines': [(key, value, end_offset)], 'torn': bool, 'torn_key'}"""
    lines, pos = [], 0
    res = {"lines": lines, "torn": False, "torn_key": None}
    while pos < len(data):
        e = data.find(b"\n", pos)
        txt = data[pos:(e if e >= 0 else len(data))].decode(errors="replace")
        key, _, val = txt.partition("=")
        if e < 0:
            res["torn"] = True
            if "=" in txt:
                res["torn_key"] = key
            elif ref_keys and len(lines) < len(ref_keys) and ref_keys[len(lines)].startswith(txt):
                res["torn_key"] = ref_keys[len(lines)]
            else:
                res["torn_key"] = "other"
            break
        lines.append((key, val, e + 1))
        pos = e + 1
    return res


def model_key(k):
    return k if (k in SETTING_KEYS or k in INFO_KEYS or k == STATUS) else "other"


def status_visible(data):
    return any(l.startswith(b"@status") for l in data.split(b"\n"))


def read(path):
    try:
        with open(path, "rb") as f:
            return f.read()
    except FileNotFoundError:
        return None


# ----------------------------------------------------------------------------- running the program

class Prog:
    def __init__(self):
        self.bdir = vlib.ensure_build("plain")
        self.exe = os.path.join(self.bdir, "bxdecay0-run")
        if not os.path.exists(self.exe):
            raise vlib.InfraError("no bxdecay0-run in " + self.bdir)
        self.env = vlib.harness_env("plain")
        self.oracle = vlib.compile_harness("driver_oracle", ["harness/driver_oracle.cc"], "plain")
        hdir = os.path.join(self.bdir, "harness")
        self.shim = os.path.join(hdir, "killw.so")
        src = os.path.join(vlib.ROOT, "harness", "killw.c")
        if not os.path.exists(self.shim) or os.path.getmtime(self.shim) < os.path.getmtime(src):
            vlib.sh(["gcc", "-O2", "-shared", "-fPIC", "-o", self.shim, src, "-ldl"], timeout=120, check=True)

    def run(self, argv, extra_env=None, timeout=120):
        e = dict(self.env)
        if extra_env:
            e.update(extra_env)
        rc, out = vlib.sh([self.exe] + argv, timeout=timeout, env=e)
        return rc, out

    def run_oracle(self, jobs, wd):
        """jobs: {id: job} -> directory with <id>.d0t/.set/.err ; sharded over NPAR processes."""
        od = os.path.join(wd, "oracle")
        os.makedirs(od, exist_ok=True)
        ids = sorted(jobs)
        shards = [ids[i::NPAR] for i in range(NPAR)]

        def one(i):
            if not shards[i]:
                return
            jf = os.path.join(od, "jobs%d" % i)
            with open(jf, "w") as f:
                for j in shards[i]:
                    f.write(job_line(j, jobs[j]))
            rc, out = vlib.sh([self.oracle, jf, od], timeout=420, env=self.env)
            if rc != 0:
                raise vlib.InfraError("driver_oracle failed (rc=%s): %s" % (rc, out[-1500:]))
        with cf.ThreadPoolExecutor(max_workers=NPAR) as ex:
            list(ex.map(one, range(NPAR)))
        return od


def classify(rc, out, d0t, d0c):
    """observed verdict of one run"""
    if rc < 0 or rc >= 128:
        return "crash"
    if d0t:
        return "ran"
    return "norun"


def detectable(rc, out):
    return rc != 0 or re.search(r"error", out, re.I) is not None


# ----------------------------------------------------------------------------- (1) command lines

class Violations:
    """at most `cap` replay files per kind of failure; everything is counted"""

    def __init__(self, ck, cap=3):
        self.ck, self.cap, self.count = ck, cap, {}

    def add(self, kind, key, what, replay):
        self.count[kind] = self.count.get(kind, 0) + 1
        if self.count[kind] <= self.cap:
            self.ck.violation(key, what, replay)


def check_cmdline(prog, case, wd, oracle_dir, vio, ck):
    """run one concrete command line and compare with its plan. case: {'id', 'cl', 'plan', 'conc'}"""
    cl, plan, conc, cid = case["cl"], case["plan"], case["conc"], case["id"]
    base = os.path.join(wd, "r%s" % cid)
    argv, job = concretise(cl, base, conc)
    extra_env = {"MALLOC_PERTURB_": str(conc["perturb"])} if conc.get("perturb") else None
    rc, out = prog.run(argv, extra_env)
    if rc == 124:
        raise vlib.InfraError("bxdecay0-run timed out: %s" % argv)
    d0t, d0c = read(base + ".d0t"), read(base + ".d0c")
    obs = classify(rc, out, d0t, d0c)
    verdict = plan["verdict"]
    skey = sig(cl) + ("" if not conc.get("dang") else ",opt=" + conc["dang"]) + ("" if not conc.get("nucname") else ",name=" + conc["nucname"])
    rep = {"kind": "cmdline", "cl": cl, "conc": conc, "argv": argv[:], "plan_verdict": verdict, "why": plan.get("why"),
           "observed": {"rc": rc, "verdict": obs, "output_tail": out[-600:]}}
    res = {"obs": obs, "verdict": verdict, "records": 0, "compared": False}

    def bad(kind, what):
        vio.add(kind, "cmd:%s:%s" % (kind, skey), "%s | argv: %s" % (what, " ".join(a.replace(wd + "/", "") for a in argv)), rep)
        res.setdefault("bad", []).append(kind)

    if obs == "crash":
        bad("crash", "bxdecay0-run died (rc=%s) instead of accepting or refusing" % rc)
    elif verdict in ("refuse", "usage") and obs == "ran":
        bad("accepted-unsupported", "unsupported command line (%s) accepted: %d bytes of records written"
            % (plan.get("why") if verdict == "refuse" else "help requested", len(d0t)))
    elif verdict == "run" and obs == "norun":
        bad("refused-supported", "supported command line refused (rc=%s): %s" % (rc, out.strip()[-300:]))
    if obs == "norun":
        if d0c and status_visible(d0c):
            bad("status-without-events", "no record written but the companion file carries the completion marker")
        if verdict == "usage":
            if not (re.search(r"usage", out, re.I) or detectable(rc, out)):
                bad("usage-silent", "help requested: neither usage text nor error")
        elif not detectable(rc, out):
            bad("refusal-undetectable", "refusal without non-zero status and without error message")
        if rc == 0 and verdict != "usage":
            res["refusal_rc0"] = True
    if obs == "ran":
        pu = parse_units(d0t)
        n = plan["n"] if not conc.get("n") else conc["n"]
        ids = record_ids(pu)
        res["records"] = len(ids)
        if rc != 0:
            bad("nonzero-status", "records written but exit status %s" % rc)
        if pu["malformed"]:
            bad("malformed", pu["malformed"])
        elif pu["torn"] or len(ids) != n:
            bad("count", "%d complete records%s, %d requested" % (len(ids), " + a partial one" if pu["torn"] else "", n))
        if ids != list(range(len(ids))):
            bad("ids", "record ids %s... are not consecutive from 0" % ids[:6])
        # against the library API
        exp = read(os.path.join(oracle_dir, "%s.d0t" % case["job_id"])) if case.get("job_id") else None
        if exp is None:
            if verdict == "unspecified":
                res["unverifiable"] = True
            elif verdict == "run":
                err = read(os.path.join(oracle_dir, "%s.err" % case.get("job_id", "-")))
                bad("api-refused", "the program wrote records but the library API refuses these settings: %s" % (err or b"").decode()[:200])
        else:
            res["compared"] = True
            if d0t != exp:
                pe = parse_units(exp)
                first = None
                prev = 0
                for i in range(min(len(pu["units"]), len(pe["units"]))):
                    a, b = pu["units"][i], pe["units"][i]
                    if d0t[prev:a[2]] != exp[(pe["units"][i - 1][2] if i else 0):b[2]]:
                        first = a
                        break
                    prev = a[2]
                bad("record-mismatch", "event file differs from the library API's for the same seed and settings (first difference: record %s, %s)"
                    % (first[0] if first else "?", "head line" if first and first[1] == 1 else "particles"))
        # reproducible
        base2 = base + "b"
        argv2 = [a if a != base else base2 for a in argv]
        rc2, out2 = prog.run(argv2, extra_env)
        if rc2 == 124:
            raise vlib.InfraError("bxdecay0-run timed out: %s" % argv2)
        d0t2 = read(base2 + ".d0t")
        res["runs"] = 2
        if d0t2 != d0t or rc2 != rc:
            bad("not-reproducible", "two runs with the same arguments give different event files")
        # companion
        if d0c is None:
            bad("no-companion", "no companion file")
        else:
            pl = parse_lines(d0c)
            keys = [l[0] for l in pl["lines"]]
            kv = {l[0]: l[1] for l in pl["lines"]}
            if pl["torn"] or keys.count(STATUS) != 1:
                bad("status-marker", "normal exit with a complete event file, but the companion file does not carry its completion marker")
            req = set(plan["req"])
            missing = sorted(req - set(keys))
            if missing:
                bad("header-missing", "companion file does not report %s" % missing)
            extra = sorted(k for k in keys if k in SETTING_KEYS and k not in req)
            if extra:
                bad("header-not-in-effect", "companion file reports %s, which is not in effect" % extra)
            if len(set(keys)) != len(keys):
                bad("header-duplicate", "duplicate key in companion file")
            st = read(os.path.join(oracle_dir, "%s.set" % case["job_id"])) if case.get("job_id") else None
            if st is not None:
                for line in st.decode().splitlines():
                    k, _, v = line.partition("=")
                    if k in SETTING_KEYS and k in kv and not same_value(kv[k], v):
                        if k == "mdl.particle_label" and v == "" and kv[k] == "all":
                            continue
                        bad("header-value", "companion file: %s=%s, in effect: %s" % (k, kv[k], v))
                res["header_checked"] = True
        for p in (base2 + ".d0t", base2 + ".d0c"):
            if os.path.exists(p):
                os.remove(p)
    for p in (base + ".d0t", base + ".d0c"):
        if os.path.exists(p):
            os.remove(p)
    return res


def same_value(a, b):
    if a == b:
        return True
    try:
        fa, fb = float(a), float(b)
    except ValueError:
        return False
    return fa == fb or abs(fa - fb) <= 1e-12 * max(abs(fa), abs(fb))


# ----------------------------------------------------------------------------- (2)+(3) op logs -> Driver traces

def shim_log(path):
    ops = []
    for l in (read(path) or b"").decode().splitlines():
        t = l.split(" ")
        if t[0] in ("O", "C"):
            ops.append((t[0], t[1]))
        elif t[0] == "W":
            ops.append(("W", t[1], int(t[2]), int(t[3])))
        elif t[0] == "K":
            ops.append(("K",))
    return ops


def strace_log(path, base):
    """strace -f -xx -e trace=openat,write,close -> same op list as the shim's (plus the data written)"""
    ops, fds = [], {}
    for l in (read(path) or b"").decode(errors="replace").splitlines():
        m = re.match(r"\d+\s+openat\(AT_FDCWD, \"((?:\\x[0-9a-f]{2})*)\", [^)]*\)\s+= (\d+)", l)
        if m:
            p = bytes.fromhex(m.group(1).replace("\\x", "")).decode()
            if p.startswith(base) and p.endswith((".d0t", ".d0c")):
                fds[int(m.group(2))] = p
                ops.append(("O", p))
            continue
        m = re.match(r"\d+\s+write\((\d+), \"((?:\\x[0-9a-f]{2})*)\"(\.\.\.)?, (\d+)\)\s+= (-?\d+)", l)
        if m and int(m.group(1)) in fds:
            if m.group(3):
                raise vlib.InfraError("strace truncated a write")
            ops.append(("W", fds[int(m.group(1))], int(m.group(4)), max(0, int(m.group(5))), bytes.fromhex(m.group(2).replace("\\x", ""))))
            continue
        m = re.match(r"\d+\s+close\((\d+)\)", l)
        if m and int(m.group(1)) in fds:
            ops.append(("C", fds.pop(int(m.group(1)))))
            continue
        if "+++ killed by" in l:
            ops.append(("K",))
    return ops


def build_trace(plan, ops, d0t, d0c, rc, out, ref_keys=None, old=None):
    """op list + surviving files -> list of Driver trace events (one per Driver action), or raises ValueError when
    the observation is not even well-formed (bytes on disk that no logged write explains).
    old: {'t': bytes, 'c': bytes} = the files of an earlier complete run that were in place on the base name."""
    ev = [{"e": "Reset", "verdict": plan["verdict"], "n": plan["n"], "req": sorted(plan["req"]), "opt": sorted(plan["opt"]),
           "old": ["c", "t"] if old else []}]
    d0t, d0c = d0t or b"", d0c or b""
    still_old = []
    if old:
        # a file this run never opened must still hold the earlier run's bytes; the trace then speaks about this run's (empty) output
        if not any(o[0] == "O" and o[1].endswith(".d0c") for o in ops):
            if d0c != old["c"]:
                raise ValueError("the earlier run's companion file changed although this run never opened it")
            d0c = b""
            still_old.append("c")
        if not any(o[0] == "O" and o[1].endswith(".d0t") for o in ops):
            if d0t != old["t"]:
                raise ValueError("the earlier run's event file changed although this run never opened it")
            d0t = b""
            still_old.append("t")
    pu = parse_units(d0t)
    if pu["malformed"]:
        raise ValueError("malformed event file: " + pu["malformed"])
    pl = parse_lines(d0c, ref_keys)
    # record starts: the head unit of record j starts where the previous unit ends
    units = pu["units"]
    unit_start = [0] + [u[2] for u in units]
    offT = offC = 0          # bytes of each file explained so far
    doneT = doneC = 0        # whole units / lines already flushed in the trace
    producedT = 0            # records whose WriteEvent was emitted
    producedC = 0            # lines whose Header / WriteStatus was emitted
    parsed = inited = False
    killed = False
    # a run that ends by itself without having written any record is a refusal (or usage): the closes of the files it
    # had opened are its clean-up and come after the decision to refuse
    normal = ("K",) not in ops and bool(d0t)
    cleanup = []
    nrec_started = len([u for u in units if u[1] == 1]) + (1 if (pu["torn"] and (not units or units[-1][1] == 2)) else 0)

    def rec_start(j):
        """offset of the first byte of the j-th record present in the file (by position, not by id)"""
        heads = [i for i, u in enumerate(units) if u[1] == 1]
        if j < len(heads):
            return unit_start[heads[j]]
        return pu["consumed"]

    def rec_id(j):
        heads = [u for u in units if u[1] == 1]
        if j < len(heads):
            return heads[j][0]
        return pu["torn_id"] if pu["torn_id"] is not None else j

    for op in ops:
        if op[0] == "O":
            if not parsed:
                ev.append({"e": "Parse", "inferred": True})
                parsed = True
            ev.append({"e": "OpenFile", "f": "t" if op[1].endswith(".d0t") else "c"})
        elif op[0] == "W":
            m = op[3]
            if m == 0:
                continue
            if op[1].endswith(".d0c"):
                if len(op) > 4 and d0c[offC:offC + m] != op[4][:m]:
                    raise ValueError("companion file content does not match the observed writes")
                offC += m
                if offC > len(d0c):
                    raise ValueError("more bytes written to the companion file than found on disk")
                # lines that have at least one byte on disk by now must have been produced
                k = 0
                while True:
                    nxt = producedC
                    if nxt > len(pl["lines"]):
                        break
                    start = pl["lines"][nxt - 1][2] if nxt > 0 else 0
                    if nxt < len(pl["lines"]):
                        key = pl["lines"][nxt][0]
                    elif pl["torn"] and nxt == len(pl["lines"]):
                        key = pl["torn_key"]
                    else:
                        break
                    if start >= offC:
                        break
                    if not inited:
                        ev.append({"e": "InitGen", "inferred": True})
                        inited = True
                    if key == STATUS:
                        ev.append({"e": "WriteStatus", "inferred": True})
                    else:
                        ev.append({"e": "Header", "k": model_key(key), "inferred": True})
                    producedC += 1
                while doneC + k < len(pl["lines"]) and pl["lines"][doneC + k][2] <= offC:
                    k += 1
                if k:
                    ev.append({"e": "FlushC", "k": k})
                    doneC += k
                end_done = pl["lines"][doneC - 1][2] if doneC else 0
                if offC > end_done:
                    ev.append({"e": "TearC"})
            else:
                if len(op) > 4 and d0t[offT:offT + m] != op[4][:m]:
                    raise ValueError("event file content does not match the observed writes")
                offT += m
                if offT > len(d0t):
                    raise ValueError("more bytes written to the event file than found on disk")
                while producedT < nrec_started and rec_start(producedT) < offT:
                    if not inited:
                        ev.append({"e": "InitGen", "inferred": True})
                        inited = True
                    if producedT == 0:
                        # The companion stream is buffered: its header lines may reach the disk after the first record (or, in a
                        # killed run, never).  Their PRODUCTION is internal and unobservable; the model wants it before the first
                        # record, so it is placed here: the lines found on disk in file order, then the required keys that never
                        # made it to the disk.  (Where the bytes appear is still given by the observed writes: FlushC below.)
                        while producedC < len(pl["lines"]) and pl["lines"][producedC][0] != STATUS:
                            ev.append({"e": "Header", "k": model_key(pl["lines"][producedC][0]), "inferred": True})
                            producedC += 1
                        if producedC == len(pl["lines"]):
                            have = {model_key(l[0]) for l in pl["lines"]} | ({model_key(pl["torn_key"])} if pl["torn"] and pl["torn_key"] else set())
                            if pl["torn"] and pl["torn_key"] and pl["torn_key"] != STATUS:
                                ev.append({"e": "Header", "k": model_key(pl["torn_key"]), "inferred": True})
                                producedC += 1
                            for k_ in sorted(set(plan.get("req", [])) - have):
                                ev.append({"e": "Header", "k": k_, "inferred": True})
                    ev.append({"e": "WriteEvent", "id": rec_id(producedT), "inferred": True})
                    producedT += 1
                k = 0
                while doneT + k < len(units) and units[doneT + k][2] <= offT:
                    k += 1
                if k:
                    ev.append({"e": "FlushT", "k": k})
                    doneT += k
                end_done = units[doneT - 1][2] if doneT else 0
                if offT > end_done:
                    ev.append({"e": "TearT"})
        elif op[0] == "C":
            if normal or ("K",) in ops:
                ev.append({"e": "CloseEvents" if op[1].endswith(".d0t") else "CloseInfo"})
            else:
                cleanup.append({"e": "Cleanup", "f": "t" if op[1].endswith(".d0t") else "c"})
        elif op[0] == "K":
            killed = True
    if offT != len(d0t) or offC != len(d0c):
        raise ValueError("bytes on disk that no observed write explains (event file %d/%d, companion %d/%d)"
                         % (offT, len(d0t), offC, len(d0c)))
    if killed:
        ev.append({"e": "Crash"})
    elif normal:
        ev.append({"e": "Exit", "rc": 0 if rc == 0 else 1})
    else:
        usage = plan["verdict"] == "usage" and rc == 0 and re.search(r"usage", out, re.I) and not re.search(r"parse error", out)
        if usage:
            ev.append({"e": "Usage"})
        else:
            ev.append({"e": "Refuse", "rc": 0 if rc == 0 else 1, "msg": re.search(r"error", out, re.I) is not None})
        ev += cleanup
    ev.append({"e": "Disk", "t": [[u[0], u[1]] for u in units], "tornT": pu["torn"],
               "c": [model_key(l[0]) for l in pl["lines"]], "tornC": pl["torn"], "old": still_old})
    return ev


def validate_traces(ck, execs, vio, label):
    """execs: [{'events': [...], 'key': ..., 'what': ..., 'replay': ...}] -> number accepted. Rejections are isolated,
    confirmed by an isolated re-run and reported; the remainder is validated again."""
    accepted = 0
    todo = list(execs)
    rounds = 0
    while todo and rounds < 6:
        rounds += 1
        wd = vlib.workdir("c13-trace")
        path = os.path.join(wd, "trace.ndjson")
        bounds = []
        with open(path, "w") as f:
            line = 0
            for x in todo:
                for e in x["events"]:
                    f.write(json.dumps({k: v for k, v in e.items() if k != "inferred"}) + "\n")
                bounds.append((line + 1, line + len(x["events"])))
                line += len(x["events"])
        r = vlib.tlc("TraceDriver", "TraceDriver.cfg", workers=1, env={"TRACE": path}, timeout=900)
        if r.error:
            raise vlib.InfraError("TraceDriver: " + r.error)
        ck.tlc_stats(r, "TraceDriver(%s, %d executions, %d lines)" % (label, len(todo), line))
        if r.violated is None and r.depth == line:
            accepted += len(todo)
            shutil.rmtree(wd, ignore_errors=True)
            break
        # the line that could not be matched (or at which an invariant broke)
        stuck = r.depth + 1 if r.violated in (None, "postcondition") else r.depth
        idx = next((i for i, (a, b) in enumerate(bounds) if a <= stuck <= b), len(bounds) - 1)
        x = todo[idx]
        # confirm in isolation
        p1 = os.path.join(wd, "one.ndjson")
        with open(p1, "w") as f:
            for e in x["events"]:
                f.write(json.dumps({k: v for k, v in e.items() if k != "inferred"}) + "\n")
        r1 = vlib.tlc("TraceDriver", "TraceDriver.cfg", workers=1, env={"TRACE": p1}, timeout=300)
        if r1.error:
            raise vlib.InfraError("TraceDriver: " + r1.error)
        if r1.violated is None and r1.depth == len(x["events"]):
            raise vlib.InfraError("trace rejected in the concatenation but accepted alone (%s)" % path)
        at = min(r1.depth + (0 if r1.violated not in (None, "postcondition") else 1), len(x["events"])) - 1
        evname = x["events"][at]["e"]
        why = ("invariant %s broken" % r1.violated) if r1.violated not in (None, "postcondition") else "no Driver action matches"
        vio.add("trace", "trace:%s:%s" % (x["key"], evname),
                "recorded execution is not a behaviour of Driver.tla: %s at event #%d %s | %s"
                % (why, at + 1, json.dumps(x["events"][at]), x["what"]),
                dict(x["replay"], events=x["events"], rejected_at=at + 1))
        accepted += idx
        todo = todo[idx + 1:]
    return accepted


def tlc_accepts(events):
    wd = vlib.workdir("c13-ctl")
    path = os.path.join(wd, "t.ndjson")
    with open(path, "w") as f:
        for e in events:
            f.write(json.dumps({k: v for k, v in e.items() if k != "inferred"}) + "\n")
    r = vlib.tlc("TraceDriver", "TraceDriver.cfg", workers=1, env={"TRACE": path}, timeout=300)
    if r.error:
        raise vlib.InfraError("TraceDriver: " + r.error)
    shutil.rmtree(wd, ignore_errors=True)
    return r.violated is None and r.depth == len(events), r


def negative_controls(ck, execs):
    """the validation must be able to say no: a recorded complete execution, corrupted in ways that break C13, has to be
    rejected by TLC (otherwise the machinery, not the program, is broken)"""
    ex = next((x for x in execs if x["events"][-2]["e"] == "Exit" and any(e["e"] == "WriteStatus" for e in x["events"])), None)
    if ex is None:
        return
    ev = ex["events"]
    ok, r = tlc_accepts(ev)
    if not ok:
        return          # already reported as a violation by validate_traces
    ck.tlc_stats(r, "TraceDriver(control: the unmodified execution)")
    i_close = next(i for i, e in enumerate(ev) if e["e"] == "CloseEvents")
    i_stat = next(i for i, e in enumerate(ev) if e["e"] == "WriteStatus")
    controls = {
        "status-before-close": ev[:i_close] + ev[i_stat:i_stat + 2] + ev[i_close:i_stat] + ev[i_stat + 2:],
        "disk-lacks-last-unit": ev[:-1] + [dict(ev[-1], t=ev[-1]["t"][:-1])],
        "id-gap": [dict(e, id=e["id"] + 1) if (e["e"] == "WriteEvent" and e["id"] >= 1) else e for e in ev],
        "record-after-close": ev[:i_close + 1] + [{"e": "WriteEvent", "id": ev[0]["n"]}] + ev[i_close + 1:],
    }
    for name, c in controls.items():
        ok, r = tlc_accepts(c)
        ck.tlc_stats(r, "TraceDriver(control: %s)" % name)
        if ok:
            raise vlib.InfraError("negative control '%s' was accepted by TraceDriver: trace validation cannot reject" % name)
        ck.add("negative_controls_rejected")


# ----------------------------------------------------------------------------- kill points

def kill_configs(tier):
    b = dict(DEFAULTS)
    co60 = dict(b, cat="background", nuc="bkgP", seed="7", count=3)
    full = dict(co60, act="pos", mdl="e-")
    dbd = dict(b, cat="dbd", nuc="Mo100", level=0, mode=1, seed="7", count=3, act="pos", mdl="all")
    cfgs = [
        {"name": "bkg-n3", "cl": co60, "conc": {"nucname": "Co60"}, "bytes": "all" if tier == "thorough" else "edges"},
        {"name": "bkg-act-mdl-n3", "cl": full, "conc": {"nucname": "Co60"}, "bytes": "all" if tier == "thorough" else "edges"},
        {"name": "bkg-n40", "cl": co60, "conc": {"nucname": "Bi214+Po214", "n": 40}, "bytes": "edges" if tier == "thorough" else "half"},
        {"name": "dbd-act-mdl-n40", "cl": dbd, "conc": {"n": 40}, "bytes": "edges" if tier == "thorough" else "half"},
    ]
    if tier == "thorough":
        win = dict(b, cat="dbd", nuc="Mo100", level=0, mode=4, win="hi", seed="0", count=3, act="pos", mdl="gamma")
        cfgs.append({"name": "dbd-window-n3", "cl": win, "conc": {}, "bytes": "edges"})
        cfgs.append({"name": "bkg-bigrecords-n40", "cl": co60, "conc": {"nucname": "Th234", "n": 40, "variant": 2}, "bytes": "half"})
    return cfgs


def byte_points(n, mode):
    if mode == "all":
        return [-1] + list(range(0, n))
    if mode == "edges":
        return sorted({-1, 0, 1, n // 2, n - 1} - {n})
    return [-1, n // 2]


def norm_time(b):
    return re.sub(rb"(time-from-epoch-s=)(\d*)", lambda m: m.group(1) + b"#" * len(m.group(2)), b or b"")


def kill_points(prog, plans_by_sig, tier, ck, vio, wd, only=None):
    execs = []
    for cfg in kill_configs(tier):
        if only and cfg["name"] != only.get("config"):
            continue
        cl = cfg["cl"]
        plan = dict(plans_by_sig[sig(cl)])
        if cfg["conc"].get("n"):
            plan["n"] = cfg["conc"]["n"]
        if plan["verdict"] != "run":
            raise vlib.InfraError("kill-point configuration %s is not accepted by the model" % cfg["name"])
        base = os.path.join(wd, "k-" + cfg["name"])
        argv, job = concretise(cl, base + "-ref", cfg["conc"])
        log = base + "-ref.log"
        rc, out = prog.run(argv, {"LD_PRELOAD": prog.shim, "KILLW_LOG": log})
        ops = shim_log(log)
        ref_t, ref_c = read(base + "-ref.d0t"), read(base + "-ref.d0c")
        writes = [o for o in ops if o[0] == "W"]
        if rc != 0 or not ref_t or not writes:
            raise vlib.InfraError("reference run of kill configuration %s failed (rc=%s): %s" % (cfg["name"], rc, out[-500:]))
        ref_keys = [l[0] for l in parse_lines(ref_c)["lines"]]
        ck.cov.setdefault("kill_configs", {})[cfg["name"]] = {"argv": [a.replace(wd + "/", "") for a in argv], "writes": len(writes),
                                                              "event_file_bytes": len(ref_t)}
        # the uninterrupted run itself is one execution
        try:
            execs.append({"events": build_trace(plan, ops, ref_t, ref_c, rc, out, ref_keys), "key": "kill:%s:uninterrupted" % cfg["name"],
                          "what": "uninterrupted run under the shim", "replay": {"kind": "kill", "config": cfg["name"], "k": 0, "bytes": -1}})
        except ValueError as e:
            vio.add("observation", "kill:%s:uninterrupted:observation" % cfg["name"], str(e), {"kind": "kill", "config": cfg["name"], "k": 0, "bytes": -1})
        points = []
        for k, w in enumerate(writes, 1):
            for b in byte_points(w[2], cfg["bytes"]):
                points.append((k, b))
        if only:
            points = [(only["k"], only["bytes"])]

        def one(pt):
            k, b = pt
            kb = "%s-%d-%d" % (base, k, b if b >= 0 else 99999)
            a2 = [x if x != base + "-ref" else kb for x in argv]
            env = {"LD_PRELOAD": prog.shim, "KILLW_LOG": kb + ".log", "KILLW_AT": str(k), "KILLW_BYTES": str(b)}
            rc2, out2 = prog.run(a2, env)
            if rc2 == 124:
                raise vlib.InfraError("kill run timed out: %s" % a2)
            res = (k, b, rc2, out2, shim_log(kb + ".log"), read(kb + ".d0t"), read(kb + ".d0c"))
            for p in (kb + ".log", kb + ".d0t", kb + ".d0c"):
                if os.path.exists(p):
                    os.remove(p)
            return res
        with cf.ThreadPoolExecutor(max_workers=NPAR) as ex:
            results = list(ex.map(one, points))
        for (k, b, rc2, out2, ops2, t2, c2) in results:
            ck.add("evaluations")
            ck.add("kill_points")
            rep = {"kind": "kill", "config": cfg["name"], "k": k, "bytes": b}
            kkey = "kill:%s" % cfg["name"]
            where = "killed at write #%d of %d (%s)" % (k, len(writes), "whole" if b < 0 else "%d of %d bytes let through" % (b, writes[k - 1][2]))
            if rc2 != -9 and rc2 != 137:
                vio.add("kill-infra", kkey + ":not-killed", "%s: process was not killed (rc=%s)" % (where, rc2), rep)
                continue
            t2, c2 = t2 or b"", c2 or b""
            if t2 or c2:
                ck.add("kill_points_with_durable_bytes")
            # every surviving byte equals the uninterrupted run's
            if not ref_t.startswith(t2):
                vio.add("kill-prefix", kkey + ":event-file-not-a-prefix", "%s: the surviving event file is not a prefix of the uninterrupted run's" % where, rep)
            if not norm_time(ref_c).startswith(norm_time(c2)):
                vio.add("kill-prefix-c", kkey + ":companion-not-a-prefix", "%s: the surviving companion file is not a prefix of the uninterrupted run's" % where, rep)
            pu = parse_units(t2)
            if pu["malformed"]:
                vio.add("kill-malformed", kkey + ":malformed", "%s: %s" % (where, pu["malformed"]), rep)
                continue
            ids = record_ids(pu)
            if ids != list(range(len(ids))) or len(ids) > plan["n"]:
                vio.add("kill-ids", kkey + ":ids", "%s: surviving records have ids %s" % (where, ids[:8]), rep)
            if status_visible(c2):
                ck.add("kill_points_with_status_marker")
                if t2 != ref_t:
                    vio.add("kill-status", kkey + ":status-before-complete",
                            "%s: the companion file carries the completion marker but the event file has %d complete records of %d%s"
                            % (where, len(ids), plan["n"], " and a partial one" if pu["torn"] else ""), rep)
            try:
                execs.append({"events": build_trace(plan, ops2, t2, c2, rc2, out2, ref_keys), "key": kkey, "what": where, "replay": rep})
            except ValueError as e:
                vio.add("observation", kkey + ":observation", "%s: %s" % (where, e), rep)
        ck.sample({"kill_config": cfg["name"], "argv": " ".join(a.replace(wd + "/", "") for a in argv), "kill_points": len(points),
                   "example": "SIGKILL at write #%d (%d bytes requested) after %s" % (
                       points[len(points) // 2][0], writes[points[len(points) // 2][0] - 1][2],
                       "the whole buffer" if points[len(points) // 2][1] < 0 else "%d bytes" % points[len(points) // 2][1])}, cap=12)
    return execs


# ----------------------------------------------------------------------------- base name used before

def reuse_runs(prog, plans_by_sig, tier, ck, vio, wd, only=None):
    """An earlier complete run left <base>.d0t / <base>.d0c (with the completion marker).  Whatever the next run on the same
    base name does - completes, is refused before or after it opened its files, prints its usage, is killed right after
    one of its opens or one of its first writes - a companion file that carries a completion marker must sit next to the
    complete event file it speaks about.  Each run is also one execution for TraceDriver (Reset line with old = {t, c})."""
    b = dict(DEFAULTS)
    bkgbase = dict(b, cat="background", nuc="bkgP")
    co60 = dict(bkgbase, seed="7", count=3)
    scen = [
        {"name": "complete", "cl": co60, "conc": {"nucname": "Co60"}, "env": {}},
        {"name": "refused-by-engine", "cl": dict(b, cat="dbd", nuc="Mo100", level=0, mode=10), "conc": {}, "env": {}},
        {"name": "refused-unknown-nuclide", "cl": dict(b, cat="background", nuc="unk"), "conc": {}, "env": {}},
        {"name": "refused-unknown-option", "cl": dict(bkgbase, fault="unknown"), "conc": {}, "env": {}},
        {"name": "usage", "cl": dict(bkgbase, fault="help"), "conc": {}, "env": {}},
        {"name": "killed-after-open-1", "cl": co60, "conc": {"nucname": "Co60"}, "env": {"KILLW_AT_OPEN": "1"}},
        {"name": "killed-after-open-2", "cl": co60, "conc": {"nucname": "Co60"}, "env": {"KILLW_AT_OPEN": "2"}},
        {"name": "killed-at-write-1", "cl": co60, "conc": {"nucname": "Co60"}, "env": {"KILLW_AT": "1", "KILLW_BYTES": "-1"}},
        {"name": "killed-at-write-2-torn", "cl": co60, "conc": {"nucname": "Co60"}, "env": {"KILLW_AT": "2", "KILLW_BYTES": "5"}},
    ]
    if tier == "thorough":
        for k in range(3, 13):
            scen.append({"name": "killed-at-write-%d" % k, "cl": co60, "conc": {"nucname": "Co60"}, "env": {"KILLW_AT": str(k), "KILLW_BYTES": "-1"}})
        scen.append({"name": "refused-inverted-window", "cl": dict(b, cat="dbd", nuc="Mo100", level=0, mode=4, win="inv"), "conc": {}, "env": {}})
        scen.append({"name": "refused-bad-count", "cl": dict(bkgbase, count=-2), "conc": {}, "env": {}})
    prev_cl = dict(bkgbase, seed="0", count=1)
    execs = []
    for sc in scen:
        if only and sc["name"] != only.get("scenario"):
            continue
        if sig(sc["cl"]) not in plans_by_sig:
            raise vlib.InfraError("reuse scenario %s is not in the model's grid" % sc["name"])
        plan = dict(plans_by_sig[sig(sc["cl"])])
        base = os.path.join(wd, "u-" + sc["name"])
        argv0, _ = concretise(prev_cl, base, {"nucname": "Co60", "n": 2})
        rc0, out0 = prog.run(argv0)
        old = {"t": read(base + ".d0t"), "c": read(base + ".d0c")}
        if rc0 != 0 or not old["t"] or not status_visible(old["c"] or b""):
            raise vlib.InfraError("the earlier complete run of reuse scenario %s failed (rc=%s): %s" % (sc["name"], rc0, out0[-300:]))
        argv, _ = concretise(sc["cl"], base, sc["conc"])
        log = base + ".log"
        rc, out = prog.run(argv, dict({"LD_PRELOAD": prog.shim, "KILLW_LOG": log}, **sc["env"]))
        if rc == 124:
            raise vlib.InfraError("bxdecay0-run timed out: %s" % argv)
        ops = shim_log(log)
        t2, c2 = read(base + ".d0t") or b"", read(base + ".d0c") or b""
        ck.add("evaluations")
        ck.add("reuse_scenarios")
        rep = {"kind": "reuse", "scenario": sc["name"], "argv": [a.replace(wd + "/", "") for a in argv], "env": sc["env"]}
        key = "reuse:%s" % sc["name"]
        what = "base name reused after a complete run, next run: %s (rc=%s)" % (sc["name"], rc)
        if sc["env"] and rc not in (-9, 137):
            vio.add("kill-infra", key + ":not-killed", "%s: process was not killed" % what, rep)
            continue
        # the files by themselves: a marker speaks about the records next to it
        if status_visible(c2):
            ck.add("reuse_outcomes_with_marker")
            kv = {l[0]: l[1] for l in parse_lines(c2)["lines"]}
            pu = parse_units(t2)
            ids = record_ids(pu) if not pu["malformed"] else None
            try:
                nb = int(kv.get("nb-events", "-1"))
            except ValueError:
                nb = -1
            if ids is None or pu["torn"] or ids != list(range(nb)):
                vio.add("reuse-status", key + ":stale-marker",
                        "%s: the companion file carries a completion marker (nb-events=%s) next to an event file with %s"
                        % (what, kv.get("nb-events"), "malformed content" if ids is None else "%d complete records%s" % (len(ids), " and a partial one" if pu["torn"] else "")), rep)
        else:
            ck.add("reuse_outcomes_without_marker")
        try:
            execs.append({"events": build_trace(plan, ops, t2, c2, rc, out, None, old=old), "key": key, "what": what, "replay": rep})
        except ValueError as e:
            vio.add("observation", key + ":observation", "%s: %s" % (what, e), rep)
        for p_ in (base + ".d0t", base + ".d0c", log):
            if os.path.exists(p_):
                os.remove(p_)
    return execs


# ----------------------------------------------------------------------------- interruption by a signal

def signal_runs(prog, plans_by_sig, tier, ck, vio, wd, only=None):
    """SIGTERM / SIGINT / SIGHUP delivered while the event loop runs (a batch system cancelling the job, Ctrl-C): whatever
    the program does with the signal, the companion carries the completion marker only next to the complete event file.
    Each interrupted run is also one execution for TraceDriver (an early end of the loop followed by the epilogue is not a
    behaviour of Driver.tla: CloseEvents needs n = N)."""
    import signal
    import subprocess
    import time as _t
    co60 = dict(DEFAULTS, cat="background", nuc="bkgP", seed="7", count=3)
    plan0 = dict(plans_by_sig[sig(co60)])
    execs = []
    sigs = [("SIGTERM", signal.SIGTERM), ("SIGINT", signal.SIGINT)] + ([("SIGHUP", signal.SIGHUP)] if tier == "thorough" else [])
    for sname, sno in sigs:
        if only and only.get("signal") != sname:
            continue
        n_req = 400000
        plan = dict(plan0, n=n_req)
        base = os.path.join(wd, "sig-" + sname)
        argv, _job = concretise(co60, base, {"nucname": "Co60", "n": n_req})
        log = base + ".log"
        env = dict(prog.env)
        env.update({"LD_PRELOAD": prog.shim, "KILLW_LOG": log})
        p = subprocess.Popen([prog.exe] + argv, env=env, stdout=subprocess.PIPE, stderr=subprocess.STDOUT)
        # wait until some records are on disk, then deliver the signal
        t0 = _t.time()
        while _t.time() - t0 < 60 and p.poll() is None:
            try:
                if os.path.getsize(base + ".d0t") > 20000:
                    break
            except OSError:
                pass
            _t.sleep(0.01)
        if p.poll() is not None:
            raise vlib.InfraError("signal scenario %s: the run ended before the signal could be sent" % sname)
        p.send_signal(sno)
        try:
            out = p.communicate(timeout=120)[0].decode(errors="replace")
        except subprocess.TimeoutExpired:
            p.kill()
            raise vlib.InfraError("signal scenario %s: the process did not end within 120 s of the signal" % sname)
        rc = p.returncode
        t2, c2 = read(base + ".d0t") or b"", read(base + ".d0c") or b""
        ck.add("evaluations")
        ck.add("signal_scenarios")
        rep = {"kind": "signal", "signal": sname}
        key = "signal:%s" % sname
        pu = parse_units(t2)
        ids = record_ids(pu) if not pu["malformed"] else []
        what = "%s delivered during the event loop (exit status %s, %d complete records of %d on disk)" % (sname, rc, len(ids), n_req)
        if len(ids) >= n_req:
            raise vlib.InfraError("signal scenario %s: the run completed before the signal arrived" % sname)
        if status_visible(c2):
            vio.add("signal-status", key + ":status-after-interruption",
                    "%s: the companion file carries the completion marker although the event file is incomplete" % what, rep)
        if pu["malformed"]:
            vio.add("signal-malformed", key + ":malformed", "%s: %s" % (what, pu["malformed"]), rep)
        elif ids != list(range(len(ids))):
            vio.add("signal-ids", key + ":ids", "%s: surviving record ids are not consecutive from 0" % what, rep)
        ck.sample({"scenario": "interruption by " + sname, "exit_status": rc, "records_on_disk": len(ids), "marker": bool(status_visible(c2))}, cap=12)
        # the (long) syscall log is not turned into a Driver trace line by line: its summary is - the loop ended at k < N records;
        # did the epilogue run ?  (Parse, opens, InitGen, headers, k WriteEvent/Flush pairs are implied by the files.)
        ops = shim_log(log)
        closed_t = any(o[0] == "C" and o[1].endswith(".d0t") for o in ops)
        if closed_t and rc == 0:
            ev = [{"e": "Reset", "verdict": "run", "n": 3, "req": sorted(plan["req"]), "opt": sorted(plan["opt"]), "old": []},
                  {"e": "Parse"}, {"e": "OpenFile", "f": "c"}, {"e": "OpenFile", "f": "t"}, {"e": "InitGen"}]
            for k_ in sorted(plan["req"]):
                ev.append({"e": "Header", "k": k_})
            ev += [{"e": "WriteEvent", "id": 0}, {"e": "FlushT", "k": 2}, {"e": "CloseEvents"}]
            execs.append({"events": ev, "key": key, "what": what + " - the program closed the event file after an early end of the loop and went on",
                          "replay": rep})
        for p_ in (base + ".d0t", base + ".d0c", log):
            if os.path.exists(p_):
                os.remove(p_)
    return execs


def strace_runs(prog, cases, wd, ck, vio):
    """uninterrupted (and a few killed) runs observed with strace -> executions for TraceDriver"""
    execs = []

    def one(c):
        i, cl, plan, conc, kill = c
        base = os.path.join(wd, "s%d" % i)
        argv, _ = concretise(cl, base, conc)
        env = dict(prog.env)
        if kill:
            env.update({"LD_PRELOAD": prog.shim, "KILLW_AT": str(kill[0]), "KILLW_BYTES": str(kill[1])})
        cmd = ["strace", "-f", "-xx", "-s", "10000000", "-e", "trace=openat,write,close", "-o", base + ".strace", prog.exe] + argv
        rc, out = vlib.sh(cmd, timeout=300, env=env)
        return c, base, argv, rc, out
    with cf.ThreadPoolExecutor(max_workers=NPAR) as ex:
        results = list(ex.map(one, cases))
    for (c, base, argv, rc, out) in results:
        i, cl, plan, conc, kill = c
        if not os.path.exists(base + ".strace"):
            raise vlib.InfraError("strace produced no log: %s" % out[-500:])
        ops = strace_log(base + ".strace", base)
        t, cdat = read(base + ".d0t"), read(base + ".d0c")
        ck.add("evaluations")
        ck.add("strace_runs")
        rep = {"kind": "strace", "cl": cl, "conc": conc, "kill": kill, "argv": argv}
        try:
            execs.append({"events": build_trace(plan, ops, t, cdat, -9 if ("K",) in ops else rc, out), "key": "strace:" + sig(cl),
                          "what": "syscall order of: " + " ".join(a.replace(wd + "/", "") for a in argv), "replay": rep})
        except ValueError as e:
            vio.add("observation", "strace:%s:observation" % sig(cl), str(e), rep)
        for p in (base + ".strace", base + ".d0t", base + ".d0c"):
            if os.path.exists(p):
                os.remove(p)
    return execs


# ----------------------------------------------------------------------------- the check

def from_tla(v):
    if isinstance(v, dict) and "__set__" in v:
        return sorted(from_tla(x) for x in v["__set__"])
    if isinstance(v, dict):
        return {k: from_tla(x) for k, x in v.items()}
    return v


def select_cases(grid, tier, rng, bkg, dbd, ga):
    """which (abstract command line, concretisation) pairs are run. Returns (cases, exhaustive)."""
    cases = []
    runs = [g for g in grid if g["plan"]["verdict"] in ("run", "unspecified")]
    others = [g for g in grid if g["plan"]["verdict"] not in ("run", "unspecified")]
    if ga:
        # gA tables mounted: the model was evaluated with GaData = FALSE, make no claim about modes 21..24
        runs = [g for g in runs if g["cl"]["mode"] != 21]
        others = [g for g in others if g["cl"]["mode"] != 21]
    # WindowBeyondSpectrum: the library neither refuses nor terminates reliably on such a window (seen: endless loop for
    # Cd106 level 5 mode 10 -e 0.05, events above Q for Mo100 -e 4): outside what C13 states, not run
    runs = [g for g in runs if g["plan"]["why"] != "deviation:WindowBeyondSpectrum"]
    exhaustive = tier == "thorough"
    if tier == "thorough":
        chosen = others
    else:
        # every reason of refusal several times (stratified), the rest at random
        by = {}
        for g in others:
            by.setdefault((g["plan"]["verdict"], g["plan"]["why"]), []).append(g)
        chosen = []
        for k in sorted(by):
            chosen += rng.sample(by[k], min(len(by[k]), 6))
        # every command line that differs from a base command line in exactly one independent option group
        # (the sharpest tests: nothing else can mask the one rule)
        def ndev(c):
            return sum(1 for f in ("seed", "count", "act", "mdl", "fault") if c[f] != DEFAULTS[f])
        cid = {id(g) for g in chosen}
        chosen += [g for g in others if ndev(g["cl"]) == 1 and id(g) not in cid]
        # every refusal that only the admission rules of the engine produce (level / mode / window against the table)
        engine = ("level:4b-excited", "level:not-tabulated", "level:not-enough-energy", "mode:spin", "mode:sign", "mode:4b-nuclide",
                  "mode:gA-level", "mode:gA-no-data", "window:inverted", "window:mode-without-window")
        cid = {id(g) for g in chosen}
        chosen += [g for g in others if g["plan"]["why"] in engine and ndev(g["cl"]) == 0 and id(g) not in cid]
        cid = {id(g) for g in chosen}
        rest = [g for g in others if id(g) not in cid]
        chosen += rng.sample(rest, min(len(rest), 500))
        # accepted: the whole core, and a sample of the option combinations around the bases
        core = [g for g in runs if all(g["cl"][f] == DEFAULTS[f] for f in ("seed", "count", "act", "mdl", "fault", "sp"))]
        cid = {id(g) for g in core}
        around = [g for g in runs if id(g) not in cid]
        # zero-padded numbers: every accepted base command line, and the kill-point configurations
        padded = [g for g in around if g["cl"]["sp"] == "padded" and ndev(g["cl"]) <= 3
                  and sum(1 for f in ("act", "mdl", "fault") if g["cl"][f] != DEFAULTS[f]) == (2 if g["cl"]["count"] == 3 else 0)]
        pid = {id(g) for g in padded}
        around = [g for g in around if id(g) not in pid]
        runs = core + padded + rng.sample(around, min(len(around), 150))
    for g in runs + chosen:
        cl = g["cl"]
        variants = [0] if tier == "quick" else [0, 1 + rng.randrange(50)]
        if cl["fault"] == "dangling":
            single = sum(1 for f in ("seed", "count", "act", "mdl") if cl[f] != DEFAULTS[f]) == 0
            opts = VALUE_OPTS if (tier == "thorough" or single) else rng.sample(VALUE_OPTS, 3)
            for o in opts:
                for perturb in ((0, 165, 204) if (tier == "thorough" or not single) else (0, 204)):
                    cases.append({"cl": cl, "plan": g["plan"], "conc": {"variant": rng.randrange(6), "dang": o, "perturb": perturb}})
            continue
        if cl["fault"] == "unknown" and (tier == "thorough" or sum(1 for f in ("seed", "count", "act", "mdl") if cl[f] != DEFAULTS[f]) == 0):
            variants = list(range(len(UNKNOWN_OPTS)))
        for v in variants:
            conc = {"variant": v if v else rng.randrange(3) if tier == "quick" else v}
            if g["plan"]["verdict"] == "run" and cl["sp"] == "padded":
                conc["n"] = 12          # 012: a reading in another radix would give another count
            elif g["plan"]["verdict"] == "run" and cl["count"] == ABSENT:
                # the model's default is one record; also ask the same settings for a few more (explicit -n)
                nn = rng.choice([None, 2, 3, 5])
                if nn:
                    conc["n"] = nn
            cases.append({"cl": cl, "plan": g["plan"], "conc": conc})
    # catalogue sweep: every published background name is accepted; every published name is refused in the other
    # category unless published there too; unknown names are refused
    b = dict(DEFAULTS)
    plan_of = {sig(g["cl"]): g["plan"] for g in grid}
    bk = bkg if tier == "thorough" else rng.sample(bkg, 12)
    for name in bk:
        clb = dict(b, cat="background", nuc="bkgP")
        cases.append({"cl": clb, "plan": plan_of[sig(clb)], "conc": {"nucname": name, "variant": rng.randrange(3), "n": 2}})
        if name not in dbd:
            cld = dict(b, cat="dbd", nuc="bkgP", mode=1)
            cases.append({"cl": cld, "plan": plan_of[sig(cld)], "conc": {"nucname": name, "variant": rng.randrange(3)}})
    for name in (dbd if tier == "thorough" else rng.sample(dbd, 8)):
        if name not in bkg:
            clu = dict(b, cat="background", nuc="unk")
            cases.append({"cl": clu, "plan": plan_of[sig(clu)], "conc": {"nucname": name, "variant": rng.randrange(3)}})
    for name in UNKNOWN_NUCS:
        for cat in ("background", "dbd"):
            clu = dict(b, cat=cat, nuc="unk", mode=ABSENT if cat == "background" else 1)
            cases.append({"cl": clu, "plan": plan_of[sig(clu)], "conc": {"nucname": name, "variant": rng.randrange(3)}})
    for i, c in enumerate(cases):
        c["id"] = i
    return cases, exhaustive


def run(tier, replay):
    ck = vlib.Check(PID, "fault_enumeration", tier)
    thorough = tier == "thorough"
    rng = random.Random(ck.seed)
    vio = Violations(ck)
    wd = vlib.workdir("c13")
    ga = ga_data_mounted()
    only = None
    if replay:
        only = json.load(open(replay))["replay"]

    # ---- 1. the models
    r = vlib.tlc("MCDriver", "MCDriver.cfg", workers=NPAR)
    if r.error:
        raise vlib.InfraError(r.error)
    ck.tlc_stats(r, "MCDriver(N<=3, Parts=2)")
    if r.violated:
        ck.violation("model:" + r.violated, "Driver.tla violates %s on the model" % r.violated, {"trace": r.trace})
        return ck.finish()
    dump = os.path.join(wd, "cmdline")
    r = vlib.tlc("MCCmdLine", "MCCmdLineThorough.cfg" if thorough and not only else "MCCmdLine.cfg", dump=dump, workers=NPAR)
    if r.error:
        raise vlib.InfraError(r.error)
    ck.tlc_stats(r, "MCCmdLine(%s grid)" % ("thorough" if thorough and not only else "quick"))
    if r.violated:
        ck.violation("model:" + r.violated, "CmdLine.tla violates %s on the model" % r.violated, {"trace": r.trace})
        return ck.finish()
    g = vlib.parse_dot(dump + ".dot")
    os.remove(dump + ".dot")
    grid = []
    for st in g["nodes"].values():
        cl, plan = from_tla(st["cl"]), from_tla(st["plan"])
        if cl == DEFAULTS:
            continue
        grid.append({"cl": cl, "plan": plan})
    grid.sort(key=lambda x: sig(x["cl"]))
    plans_by_sig = {sig(x["cl"]): x["plan"] for x in grid}
    plans_by_sig[sig(DEFAULTS)] = from_tla(next(st["plan"] for st in g["nodes"].values() if from_tla(st["cl"]) == DEFAULTS))
    ck.set("model_command_lines", len(grid))
    ck.set("model_verdicts", {v: sum(1 for x in grid if x["plan"]["verdict"] == v) for v in ("run", "refuse", "usage", "unspecified")})
    ck.set("model_refusal_reasons", len({x["plan"]["why"] for x in grid if x["plan"]["verdict"] == "refuse"}))

    prog = Prog()
    bkg, dbd = catalogue()
    execs = []

    # ---- 2. command lines on the real program
    if not only or only.get("kind") == "cmdline":
        if only:
            cases = [{"id": 0, "cl": only["cl"], "plan": plans_by_sig.get(sig(only["cl"])) or {}, "conc": only["conc"]}]
            if not cases[0]["plan"]:
                raise vlib.InfraError("replay: command line not in the model's grid")
            exhaustive = False
        else:
            cases, exhaustive = select_cases(grid, tier, rng, bkg, dbd, ga)
            # long runs: thousands of records (whatever the program buffers or does every so many events shows only there)
            co_ = dict(DEFAULTS, cat="background", nuc="bkgP", seed="7", count=3)
            dbd_ = dict(DEFAULTS, cat="dbd", nuc="Mo100", level=0, mode=1, seed="7", count=3, act="pos", mdl="all")
            for big_i, (cl_, n_) in enumerate([(co_, 2500), (co_, 4100), (dbd_, 3000)] + ([(co_, 20011), (dbd_, 12000)] if thorough else [])):
                if sig(cl_) in plans_by_sig:
                    cases.append({"id": "big%d" % big_i, "cl": cl_, "plan": plans_by_sig[sig(cl_)], "conc": {"nucname": "Co60" if cl_ is co_ else None, "n": n_, "variant": 0}})
        jobs = {}
        for c in cases:
            if c["plan"]["verdict"] in ("run", "unspecified"):
                _, job = concretise(c["cl"], "x", c["conc"])
                if job:
                    key = json.dumps(job, sort_keys=True)
                    c["job_id"] = jobs.setdefault(key, "j%d" % len(jobs))
        od = prog.run_oracle({v: json.loads(k) for k, v in jobs.items()}, wd)
        ck.set("api_oracle_jobs", len(jobs))
        with cf.ThreadPoolExecutor(max_workers=NPAR) as ex:
            results = list(ex.map(lambda c: check_cmdline(prog, c, wd, od, vio, ck), cases))
        distinct = set()
        reasons = set()
        for c, res in zip(cases, results):
            ck.add("evaluations", res.get("runs", 1))
            ck.add("command_lines_run")
            ck.add("cmd_verdict_" + res["verdict"])
            if res["obs"] == "ran":
                ck.add("accepted_runs")
                ck.add("records_checked", res["records"])
                if res["compared"]:
                    ck.add("accepted_runs_byte_equal_to_api" if "record-mismatch" not in res.get("bad", []) else "accepted_runs_differing_from_api")
                    distinct.add(json.dumps([c["cl"], c["conc"]], sort_keys=True))
                if res.get("header_checked"):
                    ck.add("companion_files_checked")
                if res.get("unverifiable"):
                    ck.add("unspecified_ran_unverifiable")
            elif res["obs"] == "norun":
                ck.add("refused_runs")
                reasons.add((c["plan"]["verdict"], c["plan"].get("why"), c["conc"].get("dang")))
                if res.get("refusal_rc0"):
                    ck.add("refusals_with_exit_status_0")
            if c["plan"]["verdict"] == "unspecified":
                ck.add("unspecified_" + res["obs"])
        ck.set("distinct_accepted_cases", len(distinct))
        ck.set("distinct_refusal_rules_exercised", len(reasons))
        ck.set("cmdline_grid_exhaustive", exhaustive)
        shown, picked = set(), []
        for c, res in zip(cases, results):
            tag = (res["obs"], c["plan"]["verdict"], c["cl"]["cat"], c["cl"]["mdl"] != "none", c["cl"]["fault"], (c["plan"].get("why") or "").split(":")[0])
            if tag not in shown and res["obs"] in ("ran", "norun"):
                shown.add(tag)
                picked.append(c)
        rng.shuffle(picked)
        for c in picked[:7]:
            argv, _ = concretise(c["cl"], "BASE", c["conc"])
            ck.sample({"command_line": "bxdecay0-run " + " ".join(argv), "model": sig(c["cl"]), "verdict": c["plan"]["verdict"],
                       "why": c["plan"].get("why")}, cap=12)
    else:
        exhaustive = False

    # ---- 3. kill points
    if not only or only.get("kind") == "kill":
        execs += kill_points(prog, plans_by_sig, tier, ck, vio, wd, only)

    # ---- 3b. the base name was used before
    if not only or only.get("kind") == "reuse":
        execs += reuse_runs(prog, plans_by_sig, tier, ck, vio, wd, only)

    # ---- 3c. interruption by a catchable signal
    if not only or only.get("kind") == "signal":
        execs += signal_runs(prog, plans_by_sig, tier, ck, vio, wd, only)

    # ---- 4. syscall order of uninterrupted runs (strace)
    if not only or only.get("kind") == "strace":
        if only:
            scases = [(0, only["cl"], plans_by_sig[sig(only["cl"])], only["conc"], only.get("kill"))]
        else:
            pool = [x for x in grid if x["plan"]["verdict"] == "run"]
            refused = [x for x in grid if x["plan"]["verdict"] in ("refuse", "usage")]
            by = {}
            for x in refused:
                by.setdefault(x["plan"]["why"], x)
            pick = rng.sample(pool, 24 if thorough else 6) + [by[k] for k in sorted(by)][: (40 if thorough else 8)]
            scases = [(i, x["cl"], x["plan"], {"variant": rng.randrange(6), "dang": rng.choice(VALUE_OPTS)}, None) for i, x in enumerate(pick)]
            # two killed runs seen by strace as well (independent of the shim's own log)
            co = dict(DEFAULTS, cat="background", nuc="bkgP", seed="7", count=3)
            scases.append((len(scases), co, plans_by_sig[sig(co)], {"variant": 0}, (9, 100)))
            scases.append((len(scases), co, plans_by_sig[sig(co)], {"variant": 0}, (12, -1)))
        execs += strace_runs(prog, scases, wd, ck, vio)

    # ---- 5. every observed execution is a behaviour of Driver
    nacc = 0
    chunk = 1500
    for i in range(0, len(execs), chunk):
        nacc += validate_traces(ck, execs[i:i + chunk], vio, "batch %d" % (i // chunk))
    ck.set("traces_validated_against_impl", nacc)
    if not only:
        negative_controls(ck, execs)
    ck.set("trace_events", sum(len(x["events"]) for x in execs))
    if execs:
        short = [x for x in execs if len(x["events"]) <= 45] or execs
        x = max(short, key=lambda x: (len({e["e"] for e in x["events"]}), len(x["events"])))
        ck.sample({"trace": x["events"][:45], "of": x["what"]}, cap=12)

    nontrivial = ck.cov.get("distinct_accepted_cases", 0) + ck.cov.get("kill_points_with_durable_bytes", 0) + ck.cov.get("distinct_refusal_rules_exercised", 0)
    ck.set("distinct_nontrivial", nontrivial)
    ck.set("rule", "cases = (abstract command line of CmdLine.tla's grid x concretisation) run on the real binary, and (kill configuration, "
                   "k-th write, bytes let through) kill points; counted as distinct non-trivial: accepted cases whose event file was compared "
                   "byte for byte with the API oracle (distinct (command line, concretisation)), kill points that leave at least one durable byte "
                   "(distinct (config, k, bytes)), and distinct refusal rules (verdict, reason, dangling option) seen refused")
    ck.set("exhaustive", bool(exhaustive and not only))
    ck.set("violations_by_kind", dict(vio.count))
    ck.assumptions += [
        "TLC explores Driver.tla / CmdLine.tla completely for the constants of MCDriver.cfg / MCCmdLine.cfg",
        "CmdLine.tla's double-beta table (Mo100, Cd106, Xe136) is the reference admission rule set of C06; other published names are covered by the catalogue sweep only",
        "harness/driver_oracle.cc is 'the library API for the same seed and settings': std::default_random_engine(seed) behind std_random, exponential decay time drawn from the same engine after each shoot when an activity is given",
        "kill points are the program's write(2) calls on its two files (a SIGKILL between two writes leaves the same files as one after the earlier write); the files live on a local file system without reordering of appended bytes",
        "interruptions by SIGTERM / SIGINT are delivered once 20 kB of records are on disk, i.e. inside the event loop (reuse and kill scenarios cover the earlier phases)",
        "kill points after each open of the two files are taken with an earlier complete run in place on the base name (reuse scenarios)",
        "internal actions (Parse, InitGen, Header, WriteEvent, WriteStatus) have no system call: the trace places them immediately before the first write that carries their output",
        "a refusal counts as detectable with a non-zero status OR an error message; parse errors exit with status 0 (counted in refusals_with_exit_status_0)",
        "gA tables %s" % ("mounted: mode 21 command lines skipped" if ga else "not mounted: modes 21..24 must be refused"),
    ]
    shutil.rmtree(wd, ignore_errors=True)
    if only:
        # a replay re-executes one case: it must not replace the evidence of the last full run
        evp = os.path.join(vlib.EVID, PID + ".json")
        keep = read(evp)
        rc = ck.finish()
        if keep is not None:
            with open(evp, "wb") as f:
                f.write(keep)
        return rc
    return ck.finish()
