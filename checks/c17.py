"""C17 - the Geant4 action hands over each particle unchanged and validates like the core.

Decided by spec/G4Action.tla (the action's life cycle: interface configuration, "changed" flag, private driver
configuration, live generator, vertex source, hand-over; CoreAccept = what the core tools refuse).
  * MCG4Action: TLC checks the C17 invariants / action properties on the complete graph over ten representative
    configuration classes and exports it; harness/g4_replay.cc drives the REAL PrimaryGeneratorAction (compiled from the
    repository working tree against the Geant4 stand-in /verif/g4stub) along every (state, call) pair, every call
    sequence up to a depth and seeded long walks, following the model as a nondeterministic automaton; the primaries
    recorded in the stand-in G4Event are compared with the decay the core API yields for the same seed.
  * MCG4Grid: TLC checks the same properties over the full product of the configuration classes (6912) and exports
    the verdict of the specification for each; every configuration is given to the REAL core tools (command-line
    parser, driver, one event; their sources are compiled into the harness) - disagreement with the specification's
    CoreAccept is a machinery failure, not a verdict - and replayed on a fresh action in three scenarios.
"""
import concurrent.futures as cf
import glob
import hashlib
import json
import os
import random

import vlib

PID = "C17"
NPROC = 4
DFS_VERTEX_VARIANTS = {("p1", False), ("p2", True), ("seq", True), ("none", True)}

DEFAULT = {"cat": "none", "nuc": "empty", "seed": "dflt", "mode": 0, "level": 0, "win": "none", "mdl": "off"}
NOCFG = dict(DEFAULT, mdl="nocfg")


def cfg_key(c):
    return (c["cat"], c["nuc"], c["seed"], c["mode"], c["level"], c["win"], c["mdl"])


def cfg_fields(c):
    return "%s %s %s %d %d %s %s" % cfg_key(c)


def flatten(g, path):
    """TLC graph -> flat text for the C++ replayer; returns (action list, config list)."""
    cids = {cfg_key(DEFAULT): 0, cfg_key(NOCFG): 1}
    clist = [DEFAULT, NOCFG]

    def cid(c):
        k = cfg_key(c)
        if k not in cids:
            cids[k] = len(clist)
            clist.append(c)
        return cids[k]
    # stable numbering: all configurations that appear anywhere, sorted
    allc = {}
    for st in g["nodes"].values():
        for c in (st["iface"], st["cur"]):
            allc[cfg_key(c)] = c
    for (_, n, a, _) in g["edges"]:
        if n == "SetConfiguration":
            allc[cfg_key(a[0])] = a[0]
    for k in sorted(allc, key=lambda t: tuple(str(x) for x in t)):
        cid(allc[k])
    acts = {}
    alist = []

    def aid(name, args):
        if name == "SetConfiguration":
            k = (name, str(cid(args[0])), "-", 1)
        elif name == "SetVertexGenerator":
            k = (name, args[0], "1" if args[1] else "0", 1 if (args[0], bool(args[1])) in DFS_VERTEX_VARIANTS else 0)
        else:
            k = (name, "-", "-", 1)
        if k not in acts:
            acts[k] = len(alist)
            alist.append(k)
        return acts[k]
    # stable action numbering
    for (n, a) in sorted({(e[1], json.dumps(e[2], sort_keys=True)) for e in g["edges"]}):
        aid(n, json.loads(a))
    sid = {n: i for i, n in enumerate(sorted(g["nodes"]))}
    with open(path, "w") as f:
        for i, c in enumerate(clist):
            f.write("C %d %s\n" % (i, cfg_fields(c)))
        for k, i in sorted(acts.items(), key=lambda x: x[1]):
            f.write("A %d %s %s %s %d\n" % (i, k[0], k[1], k[2], k[3]))
        for n, i in sid.items():
            st = g["nodes"][n]
            h = st["handed"]
            if h:
                hs = "%d %d %s" % (cid(h[0]["cfg"]), h[0]["idx"], h[0]["vtx"])
            else:
                hs = "-1 0 -"
            f.write("S %d %d %d %d %d %d %s %s %s\n" % (i, cid(st["iface"]), 1 if st["changed"] else 0, cid(st["cur"]),
                                                        1 if st["live"] else 0, st["shots"], st["vg"], st["last"], hs))
        for e in sorted({(sid[s], aid(n, a), sid[d]) for (s, n, a, d) in g["edges"]}):
            f.write("E %d %d %d\n" % e)
        f.write("I %d\n" % sid[g["init"][0]])
    return alist, clist


def act_label(k, clist):
    if k[0] == "SetConfiguration":
        c = clist[int(k[1])]
        return "SetConfiguration(%s/%s/%s/m%d/l%d/w:%s/mdl:%s)" % cfg_key(c)
    if k[0] == "SetVertexGenerator":
        return "SetVertexGenerator(%s,%s)" % (k[1], "owned" if k[2] == "1" else "ref")
    return k[0]


def src_signature():
    h = hashlib.md5()
    pats = [os.path.join(vlib.ROOT, "g4stub", "*.hh"), os.path.join(vlib.ROOT, "g4stub", "bxdecay0_g4", "*.hh"),
            os.path.join(vlib.repo(), "extensions", "bxdecay0_g4", "bxdecay0_g4", "*"),
            os.path.join(vlib.repo(), "programs", "*")]
    for p in pats:
        for fn in sorted(glob.glob(p)):
            if os.path.isfile(fn):
                h.update(fn.encode())
                h.update(open(fn, "rb").read())
    return h.hexdigest()[:12]


def build(variant):
    r = vlib.repo()
    ext = os.path.join(r, "extensions", "bxdecay0_g4")
    srcs = ["harness/g4_replay.cc",
            os.path.join(ext, "bxdecay0_g4", "primary_generator_action.cc"),
            os.path.join(ext, "bxdecay0_g4", "unique_point_vertex_generator.cc"),
            os.path.join(ext, "bxdecay0_g4", "vertex_generator_interface.cc"),
            os.path.join(r, "programs", "bxdecay0_clparser.cpp"),
            os.path.join(r, "programs", "bxdecay0_driver.cpp")]
    for s in srcs[1:]:
        if not os.path.exists(s):
            raise vlib.InfraError("source under test missing: %s" % s)
    # the stand-in directory comes before the extension directory: it shadows the two messenger headers
    extra = ["-I", os.path.join(vlib.ROOT, "g4stub"), "-I", ext, "-I", os.path.join(r, "programs"),
             "-DC17_SRC_SIG=" + src_signature(), "-Wno-deprecated-declarations"]
    return vlib.compile_harness("g4_replay", srcs, variant, extra=extra)


def run_harness(exe, args, env, timeout):
    rc, out = vlib.sh([exe] + args, timeout=timeout, env=env)
    last = [l for l in out.splitlines() if l.startswith("{")]
    if rc != 0 or not last:
        return {"crash": True, "rc": rc, "out": out[-3000:]}
    try:
        return json.loads(last[-1])
    except ValueError:
        return {"crash": True, "rc": rc, "out": out[-3000:]}


def model(ck, wd):
    dump = os.path.join(wd, "g4action")
    r = vlib.tlc("MCG4Action", "MCG4Action.cfg", dump=dump, workers=NPROC, timeout=600)
    if r.error:
        raise vlib.InfraError(r.error)
    ck.tlc_stats(r, "MCG4Action (10 configuration classes, 4 vertex sources, MaxShots=3)")
    if r.violated:
        ck.violation("model:" + r.violated, "G4Action.tla violates %s on MCG4Action" % r.violated, {"trace": r.trace})
        return None
    g = vlib.parse_dot(dump + ".dot")
    gpath = dump + ".graph"
    alist, clist = flatten(g, gpath)
    ck.set("model_states", len(g["nodes"]))
    ck.set("model_edges", len(g["edges"]))
    ck.set("action_instances", len(alist))
    return g, gpath, alist, clist


def grid_model(ck, wd):
    tpath = os.path.join(wd, "grid_table.json")
    r = vlib.tlc("MCG4Grid", "MCG4Grid.cfg", workers=NPROC, env={"C17_TABLE": tpath}, timeout=600)
    if r.error:
        raise vlib.InfraError(r.error)
    ck.tlc_stats(r, "MCG4Grid (full product of the configuration classes)")
    if r.violated:
        ck.violation("model:" + r.violated, "G4Action.tla violates %s on MCG4Grid" % r.violated, {"trace": r.trace})
        return None
    if not os.path.exists(tpath):
        raise vlib.InfraError("TLC did not export the verdict table (%s)" % tpath)
    table = json.load(open(tpath))
    table.sort(key=lambda x: tuple(str(v) for v in cfg_key(x["cfg"])))
    gpath = os.path.join(wd, "grid_table.txt")
    with open(gpath, "w") as f:
        for row in table:
            f.write("G %s %s %s\n" % (cfg_fields(row["cfg"]), row["verdict"], row["why"]))
    ck.set("grid_configurations", len(table))
    return table, gpath



# ----------------------------------------------------------------------------- the command layer (spec/G4Messenger.tla)
MSG_ABSENT = -999


def build_msg(variant):
    r = vlib.repo()
    ext = os.path.join(r, "extensions", "bxdecay0_g4")
    srcs = ["harness/g4msg_replay.cc",
            os.path.join(ext, "bxdecay0_g4", "primary_generator_action.cc"),
            os.path.join(ext, "bxdecay0_g4", "primary_generator_action_messenger.cc"),
            os.path.join(ext, "bxdecay0_g4", "unique_point_vertex_generator.cc"),
            os.path.join(ext, "bxdecay0_g4", "unique_point_vertex_generator_messenger.cc"),
            os.path.join(ext, "bxdecay0_g4", "vertex_generator_interface.cc")]
    for x in srcs[1:]:
        if not os.path.exists(x):
            raise vlib.InfraError("source under test missing: %s" % x)
    # the command-layer stand-in and the extension directory come first: the REAL messenger header and source are compiled
    extra = ["-I", os.path.join(vlib.ROOT, "g4stub_ui"), "-I", ext, "-I", os.path.join(vlib.ROOT, "g4stub"),
             "-DC17_SRC_SIG=" + src_signature(), "-Wno-deprecated-declarations"]
    return vlib.compile_harness("g4msg_replay", srcs, variant, extra=extra)


def msg_command(name, a):
    """action instance of G4Messenger.tla -> macro command line"""
    P = "/bxdecay0/generator/"

    def flag(d):
        return [] if d == MSG_ABSENT else ["true"]

    def mev(x):
        return "%.1f" % (x / 10.0)
    if name == "Background":
        return P + " ".join(["background", a[0], str(a[1])] + flag(a[2]))
    if name == "Dbd":
        return P + " ".join(["dbd", a[0], str(a[1]), str(a[2]), str(a[3])] + flag(a[4]))
    if name == "DbdRanged":
        t = ["dbdranged", a[0], str(a[1]), str(a[2]), str(a[3]), mev(a[4])]
        if a[5] != MSG_ABSENT:
            t += [mev(a[5])] + flag(a[6])
        return P + " ".join(t)
    if name == "Mdl":
        return P + " ".join(["mdl", a[0], str(a[1]), str(a[2]), str(a[3]), str(a[4])] + flag(a[5]))
    if name == "Mdlr":
        return P + " ".join(["mdlr", a[0], str(a[1]), str(a[2]), str(a[3]), str(a[4]), str(a[5])] + flag(a[6]))
    if name == "Short":
        return P + {"background": "background Co60", "dbd": "dbd Mo100 7 1", "dbdranged": "dbdranged Mo100 7 4 0", "verbosity": "verbosity"}[a[0]]
    if name == "Garbled":
        return P + {"background": "background Co60 abc", "dbd": "dbd Mo100 7 one 0", "dbdranged": "dbdranged Mo100 7 4 0 low",
                    "verbosity": "verbosity high"}[a[0]]
    if name == "Verbosity":
        return P + "verbosity %d" % a[0]
    return P + name.lower()


def msg_key(st):
    """projection shared by model states and observations: everything but the verdict of the last command"""
    b, m = st["base"], st["mdl"]
    return (b["cat"], b["nuc"], b["seed"], b["mode"], b["level"], b["emin"], b["emax"], bool(b["dbg"]),
            bool(m["use"]), m["name"], m["rank"], m["lon"], m["col"], m["ap"], m["ap2"], bool(m["eom"]), bool(st["changed"]), st["verb"])


def messenger_phase(ck, wd, thorough):
    """spec/G4Messenger.tla: every (reachable configuration, command line) pair of the model is executed on the real messenger and
    action; the configuration afterwards has to be one the model allows.  Breadth-first over the configurations the REAL code
    reaches (the model is nondeterministic where a named deviation leaves the choice)."""
    dump = os.path.join(wd, "g4messenger")
    r = vlib.tlc("MCG4Messenger", "MCG4Messenger.cfg", dump=dump, workers=NPROC, timeout=600)
    if r.error:
        raise vlib.InfraError(r.error)
    ck.tlc_stats(r, "MCG4Messenger (command layer of the Geant4 extension)")
    if r.violated:
        ck.violation("model:G4Messenger:" + r.violated, "G4Messenger.tla violates %s" % r.violated, {"trace": r.trace[-3:]})
        return
    ri = vlib.tlc("MCG4Messenger", "MCG4Messenger_ideal.cfg", workers=NPROC, timeout=600)
    if ri.error:
        raise vlib.InfraError(ri.error)
    if ri.violated != "DbdHasNoStaleWindow":
        raise vlib.InfraError("MCG4Messenger_ideal.cfg: the documented deviation DbdKeepsWindow is no longer a behaviour of the model")
    g = vlib.parse_dot(dump + ".dot")
    # (projected state, action label) -> allowed (projected successor, verdict class)
    succ = {}
    acts = {}
    for (s_, name, args, d_) in g["edges"]:
        lab = "%s(%s)" % (name, ",".join(str(x) for x in args))
        acts[lab] = (name, args)
        ks, kd = msg_key(g["nodes"][s_]), msg_key(g["nodes"][d_])
        succ.setdefault((ks, lab), set()).add((kd, g["nodes"][d_]["res"] == "ui-rejected"))
    labels = sorted(acts)
    ck.set("messenger_model_states", len(g["nodes"]))
    ck.set("messenger_model_edges", len(g["edges"]))
    ck.set("messenger_command_lines", len(labels))
    exe = build_msg("plain")
    env = vlib.harness_env("plain")
    init = msg_key(g["nodes"][g["init"][0]])
    reach = {init: []}          # observed configuration -> command labels that lead the real code there
    frontier = [init]
    pairs = steps = 0
    limit = None if thorough else 400
    rng = random.Random(ck.seed)
    level = 0
    while frontier:
        level += 1
        if limit is not None and len(frontier) > limit:
            frontier = rng.sample(frontier, limit)
            ck.set("messenger_cover_complete", False)
        script, plan = [], []
        for st in frontier:
            for lab in labels:
                script.append("RESET")
                for pl in reach[st]:
                    script.append(msg_command(*acts[pl]))
                script.append(msg_command(*acts[lab]))
                plan.append((st, lab, len(reach[st]) + 1))
        rc, out = vlib.sh([exe], input="\n".join(script) + "\n", timeout=900, env=env, drop_stderr=True)
        obs = [json.loads(l) for l in out.splitlines() if l.startswith('{"n"')]
        if rc != 0 or len(obs) != sum(p[2] for p in plan):
            ck.violation("messenger:crash", "the command-layer replay died (rc=%s) after %d of %d command lines at BFS level %d"
                         % (rc, len(obs), sum(p[2] for p in plan), level), {"mode": "messenger", "script": script[:40]})
            return
        nxt = []
        i = 0
        for (st, lab, n) in plan:
            o = obs[i + n - 1]
            before = msg_key(obs[i + n - 2]) if n > 1 else init
            i += n
            steps += n
            pairs += 1
            if before != st:
                raise vlib.InfraError("messenger replay is not deterministic: %s reached %s instead of %s" % (reach[st], before, st))
            after = msg_key(o)
            allowed = succ.get((st, lab))
            if allowed is None:
                raise vlib.InfraError("messenger replay: configuration %s is not a state of the model" % (st,))
            name, args = acts[lab]
            if o["exc"]:
                ck.violation("messenger:%s:exception" % name, "command line %r raised %s" % (msg_command(name, args), o["exc"]),
                             {"mode": "messenger", "commands": [msg_command(*acts[x]) for x in reach[st]] + [msg_command(name, args)]})
                continue
            if (after, o["rc"] != 0) not in allowed:
                fields = ["cat", "nuc", "seed", "mode", "level", "emin", "emax", "dbg", "mdl.use", "mdl.name", "mdl.rank", "mdl.lon", "mdl.col",
                          "mdl.ap", "mdl.ap2", "mdl.eom", "changed", "verbosity"]
                best = min(allowed, key=lambda x: sum(1 for u, v in zip(x[0], after) if u != v))
                diff = [f for f, u, v in zip(fields, best[0], after) if u != v] or ["verdict"]
                ck.violation("messenger:%s:%s" % (name, "+".join(diff[:3])),
                             "after %s the command line %r (command layer returned %d) leaves the interface configuration %s; G4Messenger.tla "
                             "allows %s (fields that differ from the nearest: %s): the values typed do not arrive in the configuration "
                             "the action validates and generates from" % ([msg_command(*acts[x]) for x in reach[st]], msg_command(name, args), o["rc"],
                                                                          dict(zip(fields, after)), [dict(zip(fields, a_[0])) for a_ in sorted(allowed, key=str)][:2], diff),
                             {"mode": "messenger", "commands": [msg_command(*acts[x]) for x in reach[st]] + [msg_command(name, args)]})
                continue
            if after not in reach:
                reach[after] = reach[st] + [lab]
                nxt.append(after)
        frontier = nxt
    ck.add("evaluations", pairs)
    ck.set("messenger_state_command_pairs_executed", pairs)
    ck.set("messenger_configurations_reached_by_the_code", len(reach))
    ck.set("messenger_command_lines_executed", steps)
    ck.sample({"scenario": "command layer", "commands": [msg_command(*acts[x]) for x in max(reach.values(), key=len)]})
    vertex_phase(ck, wd, exe, env)


def vertex_phase(ck, wd, exe, env):
    """spec/G4Vertex.tla: /bxdecay0/upvg/vertex on the real point-like vertex generator and its messenger, every (state, command) pair"""
    dump = os.path.join(wd, "g4vertex")
    r = vlib.tlc("G4Vertex", "G4Vertex.cfg", dump=dump, workers=2, timeout=300)
    if r.error:
        raise vlib.InfraError(r.error)
    ck.tlc_stats(r, "G4Vertex (vertex command of the point-like vertex generator)")
    if r.violated:
        ck.violation("model:G4Vertex:" + r.violated, "G4Vertex.tla violates %s" % r.violated, {"trace": r.trace[-3:]})
        return
    g = vlib.parse_dot(dump + ".dot")

    def cmd(name, a):
        if name == "Vertex":
            return "/bxdecay0/upvg/vertex %d %d %d%s" % (a[0], a[1], a[2], "" if a[3] == "absent" else " " + a[3])
        return "/bxdecay0/upvg/vertex 1 2" if name == "Short" else "/bxdecay0/upvg/vertex 1 two 3"
    script, plan = [], []
    for (u, steps) in vlib.edge_cover_paths(g):
        script.append("RESET")
        for (n_, a_, d_) in steps:
            script.append(cmd(n_, a_))
        plan.append(steps)
    rc, out = vlib.sh([exe], input="\n".join(script) + "\n", timeout=300, env=env, drop_stderr=True)
    obs = [json.loads(l) for l in out.splitlines() if l.startswith('{"n"')]
    if rc != 0 or len(obs) != sum(len(p) for p in plan):
        ck.violation("messenger:vertex:crash", "the vertex-command replay died (rc=%s)" % rc, {"mode": "messenger"})
        return
    adj = vlib.graph_adj(g)
    i = 0
    for steps in plan:
        cur = g["init"][0]
        for (n_, a_, d_) in steps:
            o = obs[i]
            i += 1
            ck.add("vertex_commands_executed")
            allowed = [g["nodes"][dd] for (nn, aa, dd) in adj[cur] if nn == n_ and aa == a_]
            ok = [st for st in allowed if list(st["vtx"]) == o["vtx"] and (st["res"] == "ui-rejected") == (o["rc"] != 0)]
            if not ok:
                ck.violation("messenger:vertex:%s" % (a_[3] if n_ == "Vertex" else n_),
                             "command line %r (command layer returned %d) leaves the source position at %s um; G4Vertex.tla allows %s" % (
                                 cmd(n_, a_), o["rc"], o["vtx"], [list(st["vtx"]) for st in allowed]), {"mode": "messenger", "commands": [cmd(x, y) for (x, y, _) in steps]})
                break
            # follow the successor the code chose
            cur = [dd for (nn, aa, dd) in adj[cur] if nn == n_ and aa == a_ and list(g["nodes"][dd]["vtx"]) == o["vtx"]
                   and (g["nodes"][dd]["res"] == "ui-rejected") == (o["rc"] != 0)][0]
        else:
            continue
        i = sum(len(p) for p in plan[:plan.index(steps) + 1])


def absorb(ck, res, results):
    results.append(res)


def replay_one(ck, replay_path):
    """bin/check C17 --replay <file>: re-execute exactly the recorded case."""
    obj = json.load(open(replay_path))
    rp = obj.get("replay") or {}
    wd = vlib.workdir("c17r")
    exe = build("plain")
    env = vlib.harness_env("plain")
    if rp.get("mode") == "messenger":
        messenger_phase(ck, wd, False)
        if not ck.violations:
            print("replay: no violation reproduced")
        return ck.finish()
    if rp.get("mode") == "grid":
        gm = grid_model(ck, wd)
        if gm is None:
            return ck.finish()
        table, _ = gm
        want = rp["cfg"]
        rows = [r for r in table if "%s/%s/%s/m%d/l%d/w:%s/mdl:%s" % cfg_key(r["cfg"]) == want]
        one = os.path.join(wd, "one.txt")
        with open(one, "w") as f:
            for row in rows:
                f.write("G %s %s %s\n" % (cfg_fields(row["cfg"]), row["verdict"], row["why"]))
        res = run_harness(exe, ["--grid", one, "--workdir", wd, "--budget", "120"], env, 300)
    else:
        m = model(ck, wd)
        if m is None:
            return ck.finish()
        g, gpath, alist, clist = m
        labels = {act_label(k, clist): i for i, k in enumerate(alist)}
        ids = []
        for lab in rp.get("sequence", []):
            if lab not in labels:
                raise vlib.InfraError("replay: action %r is not an action instance of the current model" % lab)
            ids.append(labels[lab])
        sf = os.path.join(wd, "seq.txt")
        open(sf, "w").write(" ".join(str(i) for i in ids) + "\n")
        res = run_harness(exe, ["--graph", gpath, "--seqfile", sf, "--workdir", wd], env, 300)
    if res.get("crash"):
        ck.violation("crash:replay", "replayer died (rc=%s): %s" % (res["rc"], res["out"][-1500:]), rp)
        return ck.finish()
    ck.add("evaluations", res["sequences"])
    ck.set("traces_validated_against_impl", res["sequences"])
    ck.set("distinct_nontrivial", res["nontrivial"])
    ck.set("rule", "replay of one recorded case")
    ck.set("exhaustive", False)
    for v in res["violations"]:
        ck.violation(v["key"], v["what"], rp)
    for d in res.get("oracle_disagreements", []):
        raise vlib.InfraError("specification's CoreAccept disagrees with the core tools: %s" % d)
    if not res["violations"]:
        print("replay: no violation reproduced")
    return ck.finish()


def run(tier, replay):
    ck = vlib.Check(PID, "model_checking", tier)
    if replay:
        # a replay must not replace the evidence of the last full run
        evp = os.path.join(vlib.EVID, PID + ".json")
        keep = open(evp).read() if os.path.exists(evp) else None
        try:
            return replay_one(ck, replay)
        finally:
            if keep is not None:
                open(evp, "w").write(keep)
    thorough = tier == "thorough"
    wd = vlib.workdir("c17")
    # ---- 1. the models
    m = model(ck, wd)
    gm = grid_model(ck, wd)
    if m is None or gm is None:
        return ck.finish()
    g, gpath, alist, clist = m
    table, tpath = gm
    labels = [act_label(k, clist) for k in alist]

    # ---- 1b. the command layer: macro command lines -> interface configuration
    messenger_phase(ck, wd, thorough)

    # ---- 2. the real class
    exes = {v: build(v) for v in ("plain", "asan")}
    env = vlib.harness_env("plain")
    results = []
    jobs = []
    depth = 6 if thorough else 5
    dfs_budget = 600 if thorough else 60
    with cf.ThreadPoolExecutor(max_workers=NPROC) as ex:
        # (a) the full product, against the core tools and on a fresh action (sharded)
        for i in range(NPROC):
            gw = os.path.join(wd, "grid%d" % i)
            os.makedirs(gw, exist_ok=True)
            jobs.append(("grid shard %d/%d" % (i, NPROC), ex.submit(
                run_harness, exes["plain"], ["--grid", tpath, "--shard", str(i), str(NPROC), "--workdir", gw, "--budget", "240"],
                env, 400)))
        # (b) every (model state, call) pair on live objects
        jobs.append(("edge-cover", ex.submit(run_harness, exes["plain"],
                                             ["--graph", gpath, "--cover", "--budget", "100", "--maxlen", "200", "--workdir", wd], env, 300)))
        # (c) every call sequence up to the depth (sharded); the small depths first, for short witnesses
        for d in (2, 3, 4):
            jobs.append(("dfs-depth-%d" % d, ex.submit(run_harness, exes["plain"],
                                                        ["--graph", gpath, "--depth", str(d), "--budget", "60", "--workdir", wd], env, 200)))
        for i in range(NPROC):
            jobs.append(("dfs-depth-%d shard %d/%d" % (depth, i, NPROC), ex.submit(
                run_harness, exes["plain"], ["--graph", gpath, "--depth", str(depth), "--shard", str(i), str(NPROC),
                                             "--budget", str(dfs_budget), "--workdir", wd], env, dfs_budget + 200)))
        # (d) seeded long walks under ASan+UBSan
        nw = 6000 if thorough else 800
        jobs.append(("walks(asan)", ex.submit(run_harness, exes["asan"],
                                              ["--graph", gpath, "--walks", str(nw), "--walklen", "16", "--seed", str(ck.seed),
                                               "--budget", "200" if thorough else "40", "--workdir", wd], vlib.harness_env("asan"), 500)))
        for phase, f in jobs:
            rr = f.result()
            rr["phase"] = phase
            results.append(rr)

    exhaustive = True
    witnesses = {}   # key -> (size, what, replay): the shortest witness over all phases
    seen_in = {}
    names = {}
    channels = {}
    species = {}
    disagreements = []
    for res in results:
        phase = res["phase"]
        if res.get("crash"):
            ck.violation("crash:" + phase.split()[0], "replayer died (rc=%s) in phase %s: %s" % (res["rc"], phase, res["out"][-1500:]),
                         {"phase": phase, "output": res["out"]})
            continue
        names = res.get("names", names)
        disagreements += res.get("oracle_disagreements", [])
        for k, v in res.get("refusal_channels", {}).items():
            channels[k] = channels.get(k, 0) + v
        for k, v in res.get("species_compared", {}).items():
            species[k] = species.get(k, 0) + v
        ck.add("evaluations", res["sequences"])
        ck.add("steps_compared", res["steps"])
        ck.add("generate_calls", res["generate_calls"])
        ck.add("handovers_compared_with_core_api", res["handovers"])
        ck.add("primaries_compared", res["primaries_compared"])
        ck.add("refusals_observed", res["refusals"])
        ck.add("distinct_nontrivial", res["nontrivial"] if not phase.startswith("walks") else 0)
        ck.add("core_tool_runs", res["oracle_runs"])
        if phase.startswith("grid"):
            ck.add("grid_configurations_replayed", res["grid_configs"])
            ck.add("grid_configurations_without_representative", res["grid_no_representative"])
            ck.add("grid_refusals_deferred_to_first_request", res["grid_deferred_refusals"])
        if phase == "edge-cover":
            ck.set("state_action_pairs_executed", res["pairs_covered"])
            ck.set("state_action_pairs_in_model", res["pairs_total"])
            ck.set("model_edges_the_implementation_never_takes", res["model_edges_not_taken"])
            ck.set("cover_complete", res["exhaustive"])
        if (phase.startswith("dfs") or phase.startswith("grid")) and not res["exhaustive"]:
            exhaustive = False
        for s in res.get("samples", [])[:2]:
            ck.sample(s)
        for v in res["violations"]:
            if v["seq"].startswith("grid "):
                _, scen, cfg = v["seq"].split(" ", 2)
                rp = {"mode": "grid", "scenario": scen, "cfg": cfg}
                size = 100
            else:
                rp = {"mode": "seq", "sequence": [labels[int(i)] for i in v["seq"].split()], "phase": phase}
                size = len(rp["sequence"])
            if v["key"] not in witnesses or size < witnesses[v["key"]][0]:
                witnesses[v["key"]] = (size, v["what"], rp)
            seen_in.setdefault(v["key"], []).append(phase)
    for key in sorted(witnesses):
        size, what, rp = witnesses[key]
        rp["also_seen_in"] = sorted(set(seen_in[key]))
        ck.violation(key, what, rp)
    if disagreements:
        raise vlib.InfraError("spec/G4Action.tla CoreAccept does not describe the core tools of this tree (no verdict possible): "
                              + " | ".join(disagreements[:5]))
    if not names.get("bkg/pub") or not names.get("dbd/pub"):
        raise vlib.InfraError("no published representative nuclide found (Co60 / Mo100): %s" % names)
    ck.set("traces_validated_against_impl", ck.cov.get("evaluations", 0))
    ck.set("representatives", names)
    ck.set("refusal_channel_at_first_request", channels)
    ck.set("primaries_compared_by_species", species)
    missing = [sp for sp in ("gamma", "e-", "e+", "alpha") if not species.get(sp)]
    if missing:
        ck.assumptions.append("no accepted decay contained the species %s: that part of the species map was not exercised" % missing)
    ck.set("rule", "behaviours of G4Action.tla executed on the real PrimaryGeneratorAction: 3 scenarios per configuration of the full "
                   "product; online walks executing every (state, call) pair of the MCG4Action graph; every maximal sequence of "
                   "model-enabled calls of length %d (vertex-generator ownership variants reduced to 4); distinct = different call sequence "
                   "or different configuration; non-trivial = at least one request refused or one decay handed over and compared" % depth)
    ck.set("exhaustive", exhaustive)
    ck.set("dfs_depth", depth)
    ck.set("tolerance", "species/order/count exact; momentum (MeV) and time (s) 1e-12 relative; vertex exact")
    ck.assumptions += [
        "Geant4 is replaced by the stand-in headers of /verif/g4stub (units MeV=1, ns=1, mm=1; G4ParticleGun with the real "
        "class's members and setter semantics; AbortRun / G4Exception only count); the messenger (UI command) layer is shadowed",
        "TLC explores G4Action.tla completely for the constants of MCG4Action.cfg / MCG4Grid.cfg",
        "CoreAccept of the specification is confirmed on every grid configuration by running the real command-line parser, "
        "driver and generator (disagreement = machinery failure)",
        "representative names are looked up in the real catalogues: %s" % json.dumps(names, sort_keys=True),
        "named deviations allowed by the specification: KeepPrivate (after DestroyConfiguration), KeepOld, SeedZero, deferred "
        "refusal of an explicitly applied configuration to the first request of primaries",
        "gA modes (21-24, need a dataset), invalid MDL labels and exhausted vertex generators are outside the model"]
    return ck.finish()
