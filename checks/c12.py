"""C12 - independent generators do not interfere when used from different threads.

Model      spec/GslHandler.tla (process-wide GSL error handler swapped around each quadrature; Unsafe / Safe),
           spec/OnceInit.tla (lazily filled function-local static; Unsafe / Once / Mutex).  TLC proves the Safe variants
           and must find counter-examples on the Unsafe ones (non-vacuity).
Binding    harness/gsl_sched.cc forces the schedules TLC enumerates for the Unsafe variants on the REAL code (yield hooks
           + interposed GSL calls), records what really happened, and TLC validates every recorded execution against the
           Safe variant (spec/TraceGslHandler.tla, spec/TraceOnceInit.tla).  Direct observations (SIGABRT with GSL's
           "Default GSL error handler invoked", handler not restored, results different from the sequential run) are
           reported as well.  The canonical bad schedule is also forced on real decay0_generator initialisations.
TSan       N free-running threads with one generator + deviate source each, events compared with the sequential run.
"""
import concurrent.futures as cf
import json
import os
import random
import re
import shutil
import time

import vlib

PID = "C12"
HCLS = {"a": "abort", "o": "off", "u": "user", "-": ""}
PAR = 4   # parallel processes at most (shared machine)
PAR_THOROUGH = int(os.environ.get("C12_PAR", "8"))   # harness shards in the thorough tier

# ----------------------------------------------------------------------------------------------- models

# (module, cfg, must-be-violated invariant or None, label)
MODELS = [
    ("MCGslHandler", "MCGslHandler_Safe.cfg", None, "GslHandler Safe 3 threads x 2 quadratures"),
    ("MCGslHandler", "MCGslHandler_UnsafeNoAbort.cfg", "NoAbort", "GslHandler Unsafe 3x2 (NoAbort must fail)"),
    ("MCGslHandler", "MCGslHandler_UnsafeRestored.cfg", "HandlerRestored", "GslHandler Unsafe 3x2 (HandlerRestored must fail)"),
    ("MCGslHandler", "MCGslHandler_UnsafeGraph.cfg", None, "GslHandler Unsafe 2x2 graph"),
    ("MCGslHandler", "MCGslHandler_UnsafeGraph3.cfg", None, "GslHandler Unsafe 3x1 graph"),
    ("MCOnceInit", "MCOnceInit_Once.cfg", None, "OnceInit Once 3 threads x 2 calls"),
    ("MCOnceInit", "MCOnceInit_Mutex.cfg", None, "OnceInit Mutex 3x2"),
    ("MCOnceInit", "MCOnceInit_MutexRefill.cfg", None, "OnceInit Mutex+Refill 3x2"),
    ("MCOnceInit", "MCOnceInit_UnsafeTwoFill.cfg", "NoTwoFill", "OnceInit Unsafe (NoTwoFill must fail)"),
    ("MCOnceInit", "MCOnceInit_UnsafeReadDuringFill.cfg", "NoReadDuringFill", "OnceInit Unsafe (NoReadDuringFill must fail)"),
    ("MCOnceInit", "MCOnceInit_UnsafeReadsFull.cfg", "ReadsFull", "OnceInit Unsafe (ReadsFull must fail)"),
    ("MCOnceInit", "MCOnceInit_UnsafeRefill.cfg", "NoReadDuringFill", "OnceInit Unsafe+Refill (NoReadDuringFill must fail)"),
    ("MCOnceInit", "MCOnceInit_UnsafeGraph.cfg", None, "OnceInit Unsafe 3x1 graph"),
    ("MCOnceInit", "MCOnceInit_UnsafeGraph2.cfg", None, "OnceInit Unsafe 2x2 graph"),
]
DUMPS = {"MCGslHandler_UnsafeGraph.cfg": "g22", "MCGslHandler_UnsafeGraph3.cfg": "g31",
         "MCOnceInit_UnsafeGraph.cfg": "o31", "MCOnceInit_UnsafeGraph2.cfg": "o22"}


def run_models(ck, wd):
    graphs = {}

    def one(m):
        mod, cfg, must, label = m
        dump = os.path.join(wd, DUMPS[cfg]) if cfg in DUMPS else None
        return m, vlib.tlc(mod, cfg, workers=1, dump=dump, timeout=300, xmx="2g"), dump
    with cf.ThreadPoolExecutor(max_workers=PAR) as ex:
        res = list(ex.map(one, MODELS))
    for (mod, cfg, must, label), r, dump in res:
        if r.error:
            raise vlib.InfraError("%s: %s" % (cfg, r.error))
        ck.tlc_stats(r, label)
        if must is None:
            if r.violated:
                ck.violation("model:" + r.violated, "%s violates %s on the model (%s)" % (mod, r.violated, cfg), {"cfg": cfg, "trace": r.trace})
        else:
            if r.violated != must:
                raise vlib.InfraError("non-vacuity lost: %s was expected to violate %s, TLC says %s" % (cfg, must, r.violated))
            ck.cov.setdefault("unsafe_counterexamples", {})[cfg.replace(".cfg", "")] = {"invariant": must, "length": len(r.trace)}
        if dump:
            graphs[DUMPS[cfg]] = vlib.parse_dot(dump + ".dot")
    return graphs


# ----------------------------------------------------------------------------------------------- words of the Unsafe graph

class Auto:
    """The Unsafe graph with the thread-local, always enabled `Acquire` step folded away (taken as early as possible):
    one path per sequence of steps that touch shared state (an observable word)."""

    def __init__(self, g):
        self.nodes = g["nodes"]
        acq, obs = {}, {}
        for (s, n, a, d) in g["edges"]:
            if s == d:
                continue
            if n == "Acquire":
                acq.setdefault(s, []).append((a[0], d))
            else:
                obs.setdefault(s, []).append((n, tuple(a), d))
        self.acq = {k: sorted(v) for k, v in acq.items()}
        self.obs = {k: sorted(v, key=lambda e: (e[1][0], e[0], 0 if len(e[1]) < 2 or e[1][1] == "ok" else 1)) for k, v in obs.items()}
        self.init = self.canon(g["init"][0])
        self.n = len(self.nodes[g["init"][0]]["pc"])
        self.q = self.nodes[g["init"][0]]["left"][0]

    def canon(self, u):
        while u in self.acq:
            u = self.acq[u][0][1]
        return u

    def succ(self, u):
        return [(n, a, self.canon(d)) for (n, a, d) in self.obs.get(u, [])]

    def complete(self, u, steps):
        """extend greedily (lowest thread first, ok before etol) to a terminal node"""
        steps = list(steps)
        while True:
            s = self.succ(u)
            if not s:
                return steps
            n, a, d = s[0]
            steps.append((n, a, u, d))
            u = d

    def all_words(self):
        stack = [(self.init, [])]
        while stack:
            u, steps = stack.pop()
            s = self.succ(u)
            if not s:
                yield steps
                continue
            for (n, a, d) in reversed(s):
                stack.append((d, steps + [(n, a, u, d)]))

    def count_words(self):
        memo = {}

        def cnt(u):
            if u in memo:
                return memo[u]
            s = self.succ(u)
            memo[u] = 1 if not s else sum(cnt(d) for (_, _, d) in s)
            return memo[u]
        import sys
        sys.setrecursionlimit(10000)
        return cnt(self.init)

    def random_word(self, rng):
        u, steps = self.init, []
        while True:
            s = self.succ(u)
            if not s:
                return steps
            n, a, d = rng.choice(s)
            steps.append((n, a, u, d))
            u = d

    def bfs(self):
        from collections import deque
        pred = {self.init: None}
        dq = deque([self.init])
        while dq:
            u = dq.popleft()
            for (n, a, d) in self.succ(u):
                if d not in pred:
                    pred[d] = (u, n, a)
                    dq.append(d)
        return pred

    def path_to(self, pred, u):
        steps = []
        while pred[u] is not None:
            pu, n, a = pred[u]
            steps.append((n, a, pu, u))
            u = pu
        steps.reverse()
        return steps

    def edge_cover(self):
        pred = self.bfs()
        out = []
        for u in pred:
            for (n, a, d) in self.succ(u):
                out.append(self.complete(d, self.path_to(pred, u) + [(n, a, u, d)]))
        return out

    def shortest_to(self, cond):
        pred = self.bfs()
        best = None
        for u in pred:
            if cond(self.nodes[u], not self.succ(u)):
                p = self.path_to(pred, u)
                if best is None or len(p) < len(best[1]):
                    best = (u, p)
        return None if best is None else self.complete(best[0], best[1])


def gauss_word(auto, steps):
    """steps of the Unsafe model -> (schedule tokens, plan, predicted events, predicted exit, predicted final handler)"""
    n, q = auto.n, auto.q
    res = [[[] for _ in range(q)] for _ in range(n)]
    quad = [0] * n
    toks, pred = [], []
    pexit, pfinal = "ok", "-"
    for (name, a, u, d) in steps:
        t = a[0]
        su, sd = auto.nodes[u], auto.nodes[d]
        if name == "Save":
            toks.append("S%d" % t)
            pred.append("S%d%s" % (t, sd["saved"][t - 1][0]))
        elif name == "Integrate":
            toks.append("I%d" % t)
            res[t - 1][quad[t - 1]].append(a[1])
            if sd["aborted"]:
                pred.append("A%d-" % t)
                pexit = "abort"
                break
            pred.append("I%d%s" % (t, "o" if a[1] == "ok" else "e"))
        elif name == "Restore":
            toks.append("R%d" % t)
            pred.append("R%d%s" % (t, su["saved"][t - 1][0]))
            quad[t - 1] += 1
    if pexit == "ok" and steps:
        pfinal = auto.nodes[steps[-1][3]]["handler"][0]
    kind = {(): "o", ("ok",): "o", ("etol",): "e", ("etol", "ok"): "x", ("etol", "etol"): "e"}
    plan = ",".join("".join(kind[tuple(r)] for r in th) for th in res)
    return toks, plan, " ".join(pred), pexit, pfinal


def traces_word(auto, steps):
    """OnceInit Unsafe path -> thread tokens: one per Check and one per FillBegin (the two points the hooks expose)"""
    return [str(a[0]) for (name, a, u, d) in steps if name in ("Check", "FillBegin")]


# ----------------------------------------------------------------------------------------------- running the harness

def parse_results(out):
    res = {}
    for line in out.splitlines():
        if not line.startswith("R "):
            continue
        head, _, evs = line.partition("|")
        f = head.split()
        res[f[1]] = {"id": f[1], "exit": f[2], "dm": f[3] == "1", "final": f[4], "lost": int(f[5]), "mismatch": int(f[6]),
                     "same": f[7] == "1", "events": evs.strip()}
    return res


def run_sched(exe, mode, lines, wd, tag, tau=50000, budget=None, shards=PAR):
    """run schedule lines through the harness in `shards` parallel processes; returns (results by id, completed?)"""
    if not lines:
        return {}, True
    shards = max(1, min(shards, len(lines) // 50 + 1))
    files = []
    for i in range(shards):
        d = os.path.join(wd, "%s.%d" % (tag, i))
        os.makedirs(d, exist_ok=True)
        p = os.path.join(d, "sched.txt")
        with open(p, "w") as f:
            f.write("\n".join(lines[i::shards]) + "\n")
        files.append((d, p))
    env = vlib.harness_env("plain")

    def one(dp):
        d, p = dp
        return vlib.sh([exe, "--mode", mode, "--in", p, "--work", d, "--tau", str(tau)], timeout=budget or 600, env=env)
    with cf.ThreadPoolExecutor(max_workers=shards) as ex:
        outs = list(ex.map(one, files))
    res, complete = {}, True
    for rc, out in outs:
        if rc == 124:
            complete = False
        elif rc != 0:
            raise vlib.InfraError("gsl_sched --mode %s failed (rc=%s): %s" % (mode, rc, out[-1500:]))
        res.update(parse_results(out))
        for line in out.splitlines():
            if line.startswith("P "):
                res.setdefault("_probe", []).append(line)
    return res, complete


# ----------------------------------------------------------------------------------------------- trace validation

def gauss_trace_lines(x, n, q, r):
    out = [{"e": "Reset", "x": x, "n": n, "q": q, "t": 0, "a": ""}]
    for tok in r["events"].split():
        k, t, a = tok[0], int(tok[1:-1]), tok[-1]
        if k == "S":
            out.append({"e": "Save", "t": t, "a": HCLS.get(a, a)})
        elif k == "R":
            out.append({"e": "Restore", "t": t, "a": HCLS.get(a, a)})
        elif k == "I":
            out.append({"e": "Integrate", "t": t, "a": {"o": "ok", "e": "etol"}.get(a, "other")})
        elif k == "A":
            out.append({"e": "Abort", "t": max(t, 0), "a": ""})
    if r["exit"] == "ok":
        out.append({"e": "End", "t": 0, "a": HCLS.get(r["final"], r["final"])})
    elif not any(l["e"] == "Abort" for l in out):
        out.append({"e": "Abort", "t": 0, "a": r["exit"]})
    return out


def traces_trace_lines(x, n, q, r):
    out = [{"e": "Reset", "x": x, "n": n, "q": q, "t": 0, "a": ""}]
    for tok in r["events"].split():
        k, t, a = tok[0], int(tok[1:-1]), tok[-1]
        if k == "C":
            out.append({"e": "Check", "t": t, "a": "empty" if a == "e" else "filled"})
        elif k == "F":
            out.append({"e": "Fill", "t": t, "a": ""})
        elif k == "D":
            out.append({"e": "Ret", "t": t, "a": a})
    if r["exit"] == "ok":
        out.append({"e": "End", "t": 0, "a": ""})
    else:
        out.append({"e": "Died", "t": 0, "a": r["exit"]})
    return out


def tlc_validate(ck, module, cases, wd, tag, label):
    """cases: list of line-lists (one execution each).  One TLC run per chunk; returns {case index: rejection record}."""
    if not cases:
        return {}
    nchunks = max(1, min(PAR, len(cases) // 4000 + 1))
    chunks = [list(range(i, len(cases), nchunks)) for i in range(nchunks)]

    def one(ci):
        idxs = chunks[ci]
        p = os.path.join(wd, "%s.%d.ndjson" % (tag, ci))
        rj = os.path.join(wd, "%s.%d.rej.json" % (tag, ci))
        nl = 0
        with open(p, "w") as f:
            for i in idxs:
                for l in cases[i]:
                    if l["e"] == "Reset":
                        l = dict(l, x=i)
                    f.write(json.dumps(l) + "\n")
                    nl += 1
            f.write(json.dumps({"e": "Eof", "t": 0, "a": ""}) + "\n")
            nl += 1
        if os.path.exists(rj):
            os.remove(rj)
        r = vlib.tlc(module, module + ".cfg", workers=1, env={"TRACE": p, "C12_REJ": rj}, timeout=1200, xmx="6g")
        return r, rj, nl
    with cf.ThreadPoolExecutor(max_workers=nchunks) as ex:
        outs = list(ex.map(one, range(nchunks)))
    rejected = {}
    for r, rj, nl in outs:
        if r.error or r.violated:
            raise vlib.InfraError("%s: trace validation machinery failed: %s %s\n%s" % (module, r.error, r.violated, r.out[-1500:]))
        ck.add("trace_monitor_states", r.distinct)
        ck.cov.setdefault("tlc_runs", []).append({"model": label, "distinct": r.distinct, "generated": r.generated, "depth": r.depth,
                                                  "wall_s": round(r.wall, 2)})
        if not os.path.exists(rj):
            raise vlib.InfraError("%s: no verdict file written (log not read to the end)" % module)
        v = json.load(open(rj))
        if v["consumed"] != nl:
            raise vlib.InfraError("%s: %d of %d log lines consumed" % (module, v["consumed"], nl))
        got = {}
        for m in re.finditer(r'<<"C12REJ", (\d+), (\d+), "([^"]*)", (\d+), "([^"]*)">>', r.out):
            got[int(m.group(1))] = {"x": int(m.group(1)), "line": int(m.group(2)), "e": m.group(3), "t": int(m.group(4)), "why": m.group(5)}
        if len(got) != v["rejected"]:
            raise vlib.InfraError("%s: %d verdicts printed, %d counted" % (module, len(got), v["rejected"]))
        rejected.update(got)
    return rejected


# ----------------------------------------------------------------------------------------------- TSan reports

def tsan_reports(out, repo):
    """[(owner, text)] for each ThreadSanitizer report.  `owner` identifies the racing OBJECT, not the access (the same
    race shows up under different accessors from run to run): the function owning the function-local static, or for a
    heap block the innermost function of the code under test in its allocation stack; no line numbers."""
    def clean(fn):
        fn = re.sub(r"\[abi:\w+\]", "", fn)
        return re.sub(r"\(.*$", "", fn).strip()

    def repo_fn(stack):
        for line in stack.splitlines():
            m = re.match(r"\s+#\d+ (.*?) (/\S+):\d+", line)
            if m and (m.group(2).startswith(repo.rstrip("/") + "/") or ("/bxdecay0/" in m.group(2) and "/harness/" not in m.group(2))):
                return clean(m.group(1))
        return None
    reps = []
    for b in out.split("WARNING: ThreadSanitizer: ")[1:]:
        b = b.split("SUMMARY: ThreadSanitizer")[0]
        kind = b.split("(pid", 1)[0].strip().split("\n")[0]
        paras = b.split("\n\n")
        owner, what = None, kind
        for i, p in enumerate(paras):
            m = re.search(r"Location is global '([^']+)'", p)
            if m:
                g = re.sub(r"\[abi:\w+\]", "", m.group(1))
                what = "%s on %s" % (kind, g)
                if g == "g_shadow_handler":
                    owner = "gsl_error_handler"
                    what = ("%s between unsynchronised calls of gsl_set_error_handler_off()/gsl_set_error_handler() (seen through the "
                            "harness's shadow of the process-wide GSL handler), called from %s" % (kind, repo_fn(paras[0]) or "?"))
                elif "()::" in g:
                    owner = g.split("()::")[0]
                else:
                    owner = g
                break
            if "Location is heap block" in p:
                owner = repo_fn(p)
                what = "%s on a heap block allocated in %s" % (kind, owner)
                break
        if owner is None:
            owner = repo_fn(paras[0]) or "unknown"
            what = "%s in %s" % (kind, owner)
        reps.append((owner, what))
    return reps


# ----------------------------------------------------------------------------------------------- the check

def classify_direct(r):
    """direct observation on one execution -> (key, text) or None"""
    if r["exit"] == "abort" and r["dm"]:
        return ("gauss:gsl-handler:abort", "GSL's default handler was invoked (\"Default GSL error handler invoked\", SIGABRT) inside "
                "decay0_gauss: another thread's restore had re-installed the aborting handler while this thread's quadrature "
                "was still running and missed its tolerance")
    if r["exit"] == "hang":
        return ("gauss:hang", "threads never finished after every thread had been released (deadlock)")
    if r["exit"] == "exc":
        return ("gauss:exception", "a call threw in a thread although it does not when run alone")
    if r["exit"] != "ok":
        return ("gauss:crash:" + r["exit"], "the child process died (%s)" % r["exit"])
    if r["final"] not in ("a", "-"):
        return ("gauss:gsl-handler:not-restored", "after all threads finished, the process-wide GSL error handler is '%s' instead "
                "of the handler that was installed before (left switched off by interleaved save/restore pairs)" % HCLS.get(r["final"]))
    if not r["same"]:
        return ("gauss:result-differs", "a thread got a value different from the one the same call returns when run alone")
    return None


def run(tier, replay):
    if replay:
        return run_replay(replay)
    ck = vlib.Check(PID, "model_checking", tier)
    thorough = tier == "thorough"
    rng = random.Random(ck.seed)
    wd = vlib.workdir("c12")
    t_start = time.time()

    # ---- 1. the models
    graphs = run_models(ck, wd)
    if ck.violations:
        return ck.finish()
    a22, a31 = Auto(graphs["g22"]), Auto(graphs["g31"])
    o31, o22 = Auto(graphs["o31"]), Auto(graphs["o22"])
    ck.set("unsafe_2x2_schedules", a22.count_words())
    ck.set("unsafe_3x1_schedules", a31.count_words())

    exe = vlib.compile_harness("gsl_sched", ["harness/gsl_sched.cc"], "plain", libs=["-ldl"])

    # ---- 2. schedules for the quadrature wrapper
    lines, meta, seen_words = [], {}, set()

    def add(auto, aid, steps, origin, dedupe=True):
        if not steps:
            return
        toks, plan, pred, pexit, pfinal = gauss_word(auto, steps)
        body = "%d %d %s %s" % (auto.n, auto.q, plan, " ".join(toks))
        if dedupe:
            if body in seen_words:
                return
            seen_words.add(body)
        sid = "%s-%d" % (aid, len(lines))
        lines.append(sid + " " + body)
        meta[sid] = {"line": lines[-1], "n": auto.n, "q": auto.q, "pred": pred, "pexit": pexit, "pfinal": pfinal, "origin": origin}
    for aid, auto in (("g22", a22), ("g31", a31)):
        add(auto, aid, auto.shortest_to(lambda s, term: s["aborted"]), "canonical:NoAbort")
        add(auto, aid, auto.shortest_to(lambda s, term: term and not s["aborted"] and s["handler"] != "abort"), "canonical:HandlerRestored")
        add(auto, aid, auto.complete(auto.init, []), "sequential")
    exhaustive = False
    budget_s = 420 if thorough else 25
    for aid, auto in (("g22", a22), ("g31", a31)):
        for steps in auto.edge_cover():
            add(auto, aid, steps, "edge-cover")
    if thorough:
        # 2 threads x 2 quadratures: every observable word (the automaton is deterministic: each exactly once)
        seen_words.clear()
        n0 = len(lines)
        for steps in a22.all_words():
            add(a22, "g22", steps, "all", dedupe=False)
        ck.set("gauss_2x2_words_enumerated", len(lines) - n0)
        exhaustive = (len(lines) - n0) == a22.count_words()
        for _ in range(20000):
            add(a31, "g31", a31.random_word(rng), "seeded")
    else:
        for aid, auto, k in (("g22", a22, 400), ("g31", a31, 150)):
            for _ in range(k):
                add(auto, aid, auto.random_word(rng), "seeded")
    ck.set("gauss_schedules_generated", len(lines))
    res, complete = run_sched(exe, "gauss", lines, wd, "gauss", budget=budget_s, shards=PAR_THOROUGH if thorough else PAR)
    if not complete or len([k for k in res if not k.startswith("_")]) < len(lines):
        exhaustive = False
    ck.set("gauss_schedules_executed", len(res))

    # direct observations, conformance with the Unsafe model, distinct traces
    direct = {}      # key -> (text, sid)
    traces = {}      # (n, q, events, exit, final) -> [sid]
    forced = followed = 0
    for sid, r in res.items():
        m = meta[sid]
        ck.add("evaluations")
        d = classify_direct(r)
        if d and d[0] not in direct:
            direct[d[0]] = (d[1], sid)
        if d:
            ck.cov.setdefault("direct_observations", {}).setdefault(d[0], 0)
            ck.cov["direct_observations"][d[0]] += 1
        if r["lost"] == 0 and r["mismatch"] == 0:
            forced += 1
        pev = m["pred"]
        if r["events"] == pev and ((m["pexit"] == "abort") == (r["exit"] == "abort")) and (m["pexit"] == "abort" or r["final"] == m["pfinal"]):
            followed += 1
        traces.setdefault((m["n"], m["q"], r["events"], r["exit"], r["final"]), []).append(sid)
    ck.set("gauss_schedules_forced_completely", forced)
    ck.set("gauss_executions_equal_to_unsafe_model_prediction", followed)
    tkeys = list(traces)
    cases = [gauss_trace_lines(i, k[0], k[1], {"events": k[2], "exit": k[3], "final": k[4]}) for i, k in enumerate(tkeys)]
    rejected = tlc_validate(ck, "TraceGslHandler", cases, wd, "tg", "TraceGslHandler (%d executions)" % len(cases))
    ck.add("traces_validated_against_impl", len(cases))
    ck.set("gauss_traces_accepted_by_safe", len(cases) - len(rejected))
    ck.set("gauss_traces_rejected_by_safe", len(rejected))
    nontrivial = sum(1 for k in tkeys if len({tok[1:-1] for tok in k[2].split() if tok[0] == "S"}) >= 2)
    by_why = {}
    for i, rec in rejected.items():
        by_why.setdefault(rec["why"], []).append(i)
    for why, idxs in by_why.items():
        ck.cov.setdefault("rejections_by_reason", {})[why] = len(idxs)

    # confirm on an isolated re-run, then report
    def rerun(sid, mode="gauss", met=None):
        mm = (met or meta)[sid]
        rr, _ = run_sched(exe, mode, [mm["line"]], wd, "iso", shards=1, budget=120)
        return rr.get(sid)
    for key, (text, sid) in sorted(direct.items()):
        r2 = rerun(sid)
        if r2 is None:
            continue
        d2 = classify_direct(r2)
        if d2 and d2[0] == key:
            ck.violation(key, "%s.  Forced schedule (%s): %s ; recorded: %s" % (text, meta[sid]["origin"], meta[sid]["line"], r2["events"]),
                         {"mode": "gauss", "line": meta[sid]["line"], "observed": r2})
    WHY_KEY = {"overlap": "gauss:gsl-handler:overlap"}
    WHY_TEXT = {
        "overlap": "a thread called gsl_set_error_handler_off() while another thread still held the handler it had saved (two "
                   "save..restore sections overlap): the recorded execution is not a behaviour of GslHandler!Safe",
        "restore-early": "the saved handler was re-installed while the retry loop was still running",
        "integrate-outside": "a quadrature ran outside the save..restore section",
        "restore-value": "gsl_set_error_handler() was called with a handler different from the saved one",
        "not-restored": "all threads done but the handler is not the initial one",
        "abort": "the process aborted",
    }
    for why, idxs in sorted(by_why.items()):
        i = min(idxs, key=lambda j: len(tkeys[j][2]))
        sid = traces[tkeys[i]][0]
        r2 = rerun(sid)
        if r2 is None:
            continue
        rej2 = tlc_validate(ck, "TraceGslHandler", [gauss_trace_lines(0, meta[sid]["n"], meta[sid]["q"], r2)], wd, "tgi",
                            "TraceGslHandler (isolated re-run)")
        if not (rej2 and rej2[0]["why"] == why):
            ck.add("rejections_not_confirmed_by_isolated_rerun")
        if rej2 and rej2[0]["why"] == why:
            key = WHY_KEY.get(why, "gauss:trace-rejected:" + why)
            ck.violation(key, "%s.  Rejected at line %d (%s by thread %d) of: %s ; forced schedule: %s" % (
                WHY_TEXT.get(why, why), rej2[0]["line"] - 1, rej2[0]["e"], rej2[0]["t"], r2["events"], meta[sid]["line"]),
                {"mode": "gauss", "line": meta[sid]["line"], "observed": r2, "rejection": rej2[0]})
    for k in tkeys[:3]:
        ck.sample({"scenario": "decay0_gauss x threads", "schedule": meta[traces[k][0]]["line"], "recorded": k[2], "exit": k[3],
                   "final_handler": HCLS.get(k[4], k[4]), "safe_verdict": "rejected" if tkeys.index(k) in rejected else "accepted"})

    # ---- 3. the lazily filled trace map
    tlines, tmeta = [], {}
    for aid, auto in (("o31", o31), ("o22", o22)):
        seen = set()
        for steps in auto.all_words():
            toks = traces_word(auto, steps)
            if tuple(toks) in seen:
                continue
            seen.add(tuple(toks))
            sid = "%s-%d" % (aid, len(tlines))
            line = "%s %d %d - %s" % (sid, auto.n, auto.q, " ".join(toks))
            tlines.append(line)
            tmeta[sid] = {"line": line, "n": auto.n, "q": auto.q}
    ck.set("traces_schedules_generated", len(tlines))
    tres, tcomplete = run_sched(exe, "traces", tlines, wd, "traces", budget=120)
    ttr = {}
    for sid, r in tres.items():
        ck.add("evaluations")
        m = tmeta[sid]
        if r["exit"] != "ok" or not r["same"]:
            key = "traces:crash:" + r["exit"] if r["exit"] != "ok" else "traces:value-differs"
            r2 = rerun(sid, "traces", tmeta)
            if r2 and (r2["exit"] != "ok" or not r2["same"]):
                ck.violation(key, "is_trace() from several threads: %s, schedule %s, recorded %s" % (
                    "child died (%s)" % r2["exit"] if r2["exit"] != "ok" else "a flag differs from the sequential value", m["line"], r2["events"]),
                    {"mode": "traces", "line": m["line"], "observed": r2})
        if r["events"]:
            ttr.setdefault((m["n"], m["q"], r["events"], r["exit"]), []).append(sid)
        else:
            ck.add("traces_executions_without_observable_step")
    ttk = list(ttr)
    tcases = [traces_trace_lines(i, k[0], k[1], {"events": k[2], "exit": k[3]}) for i, k in enumerate(ttk)]
    trej = tlc_validate(ck, "TraceOnceInit", tcases, wd, "to", "TraceOnceInit (%d executions)" % len(tcases))
    ck.add("traces_validated_against_impl", len(tcases))
    ck.set("traces_traces_rejected_by_once", len(trej))
    nontrivial += sum(1 for k in ttk if len({tok[1:-1] for tok in k[2].split() if tok[0] == "C"}) >= 2)
    tby = {}
    for i, rec in trej.items():
        tby.setdefault(rec["why"], []).append(i)
    TWHY = {"concurrent-fill": "two threads found the trace map empty and both went on to fill it (traces:pre_check .. traces:filling "
                               "is an unprotected check-then-act on a function-local static): the recorded execution is not a behaviour of "
                               "OnceInit!Once.  Reachable through the public entry points is_trace()/traces()/decay0_gauss()/decay0_bb() called "
                               "first from different threads; on the decay0_generator path today only genbbsub's own function-local static "
                               "initialiser happens to serialise the first call"}
    for why, idxs in sorted(tby.items()):
        ck.cov.setdefault("rejections_by_reason", {})["traces:" + why] = len(idxs)
        i = min(idxs, key=lambda j: len(ttk[j][2]))
        sid = ttr[ttk[i]][0]
        r2 = rerun(sid, "traces", tmeta)
        if r2 is None:
            continue
        rej2 = tlc_validate(ck, "TraceOnceInit", [traces_trace_lines(0, tmeta[sid]["n"], tmeta[sid]["q"], r2)], wd, "toi",
                            "TraceOnceInit (isolated re-run)")
        if not (rej2 and rej2[0]["why"] == why):
            ck.add("rejections_not_confirmed_by_isolated_rerun")
        if rej2 and rej2[0]["why"] == why:
            ck.violation("traces:" + why, "%s.  Rejected at line %d (%s by thread %d) of: %s ; forced schedule: %s" % (
                TWHY.get(why, why), rej2[0]["line"] - 1, rej2[0]["e"], rej2[0]["t"], r2["events"], tmeta[sid]["line"]),
                {"mode": "traces", "line": tmeta[sid]["line"], "observed": r2, "rejection": rej2[0]})
    if ttk:
        ck.sample({"scenario": "is_trace x threads", "schedule": tmeta[ttr[ttk[0]][0]]["line"], "recorded": ttk[0][2],
                   "once_verdict": "rejected" if 0 in trej else "accepted"})

    # ---- 4. the canonical bad schedule on real generator initialisations
    pairs = [("Mo100:0:4", "Mo100:0:5"), ("Se82:0:6", "Mo100:0:4:0.5:2.0")]
    if thorough:
        pairs += [("Cd106:0:4", "Cd106:0:4"), ("Nd150:0:13", "Mo100:0:5"), ("Mo100:0:4:0.5:2.0", "Mo100:0:4:0.5:2.0"), ("Mo100:0:4", "Mo100:0:4")]
    rlines = ["real-%d %s %s" % (i, a, b) for i, (a, b) in enumerate(pairs)]
    rmeta = {"real-%d" % i: {"line": l, "n": 2, "q": 8} for i, l in enumerate(rlines)}
    rres, _ = run_sched(exe, "real", rlines, wd, "real", shards=2, budget=300)
    ck.set("real_init_probes", rres.pop("_probe", []))
    for sid, r in sorted(rres.items()):
        ck.add("evaluations")
        d = classify_direct(r)
        if d:
            r2 = rerun(sid, "real", rmeta)
            d2 = classify_direct(r2) if r2 else None
            if d2 and d2[0] == d[0]:
                ck.violation(d[0] if not d[0].startswith("gauss:result") else "real:events-differ",
                             "%s.  Two real decay0_generator initialisations (%s), canonical schedule S(A) S(B) I(A) R(A) I(B) at the first "
                             "quadrature of B that misses its tolerance; recorded: %s" % (d[1], rmeta[sid]["line"], r2["events"]),
                             {"mode": "real", "line": rmeta[sid]["line"], "observed": r2})
        ck.sample({"scenario": "two real initialisations", "configs": rmeta[sid]["line"], "recorded": r["events"], "exit": r["exit"]}, cap=12)

    # ---- 5. free-running threads: TSan + comparison with the sequential run
    run_mt(ck, wd, thorough)

    # ---- 6. working data shared between instances (Sharing.tla): baton schedule on pairs of real generators, TSan over everything
    run_sharing(ck, wd, thorough, rng)

    # ---- evidence
    ck.set("distinct_nontrivial", nontrivial)
    ck.set("rule", "schedules = observable words (Save/Integrate(ok|etol)/Restore steps per thread; Check/Fill steps for the trace map) of "
                   "the Unsafe TLC graphs, each forced on the real code in a forked child; %s.  distinct = different recorded event sequence; "
                   "non-trivial = at least two threads performed a Save (resp. a Check) in it" % (
                       "ALL words of the 2 threads x 2 quadratures graph + edge cover and 20000 seeded walks of the 3 x 1 graph" if thorough else
                       "edge cover of both graphs + seeded walks + TLC's canonical counter-examples"))
    ck.set("exhaustive", bool(exhaustive and tcomplete))
    ck.assumptions += [
        "the wrapper keeps the mechanism named by the property: handler switched off before and restored after each integration (Safe = that "
        "mechanism made mutually exclusive); Acquire/Release are not observable and are placed where they constrain least",
        "records are appended under the scheduler's lock by the interposed gsl_set_error_handler[_off]/gsl_integration_qng, so their order is the real order",
        "a thread that does not reach its next yield point at one of the yield points but sleeps in the kernel (or has not arrived after 50 ms) is treated as blocked: schedules can only be lost, never invented",
        "TSan sees the handler race through a plain shadow variable written by the interposed setter (libgsl itself is not instrumented)",
    ]
    ck.set("wall_model_and_schedules_s", round(time.time() - t_start, 1))
    if not os.environ.get("C12_KEEP"):
        shutil.rmtree(wd, ignore_errors=True)   # logs of several 100 MB in the thorough tier; replay files are self-contained
    return ck.finish()


# ----------------------------------------------------------------------------------------------- working data shared between instances

SHARING_MODELS = [
    ("MCSharing_PrivateFree.cfg", None, "Sharing: private cell, all interleavings at draw granularity (3 threads x 2 decays x 3 segments)"),
    ("MCSharing_PrivateBaton.cfg", None, "Sharing: private cell, baton schedule"),
    ("MCSharing_StaticOneSegment.cfg", None, "Sharing: process-wide cell never read back across a draw"),
    ("MCSharing_StaticFree.cfg", "Independent", "Sharing: process-wide cell (Independent must fail)"),
    ("MCSharing_StaticBatonDetects.cfg", "Independent", "Sharing: process-wide cell, the baton schedule alone (Independent must fail)"),
]
HANDOVER_MODELS = [
    ("MCHandover_Object.cfg", None, "Handover: tables kept in the generator, 2 generators moving between 3 threads"),
    ("MCHandover_ThreadAtHome.cfg", None, "Handover: thread-local tables, no generator ever moves (Independent holds: why one generator per thread shows nothing)"),
    ("MCHandover_ThreadDetects.cfg", "Independent", "Handover: thread-local tables, generators move (Independent must fail)"),
    ("MCHandover_ProcessDetects.cfg", "Independent", "Handover: process-wide tables (Independent must fail)"),
]
# ... the last three end in the Ru100 / Se76 / Sm150 cascades with an angular-correlation block (a rejection loop of its own)
DBD_SHARE_CFGS = ["Mo100:0:1", "Se82:0:1", "Cd106:0:10", "Cd106:1:12", "Zr96:0:20", "Nd150:1:3", "Mo100:1:7", "Te130:0:6", "Xe136:0:13",
                  "Ca48:0:15", "Ge76:0:18", "Mo100:2:1", "Ge76:2:1", "Nd150:3:7"]


def run_sharing(ck, wd, thorough, rng):
    """spec/Sharing.tla: working data of a routine kept across deviate draws must be per instance.  TLC: with a process-wide
    cell the baton schedule (hand over after every deviate) breaks independence whenever two threads are inside a decay of
    >= 2 segments.  That schedule is forced on pairs of real generators (harness/share_sched.cc): every published background
    nuclide and a set of double-beta configurations, each paired with partners that call the same emission primitives;
    every thread's events must equal those of the same generator run alone.  Free-running threads generating every
    configuration under ThreadSanitizer cover the interleavings finer than a draw."""
    import catalogue
    import schemes as sch
    for cfg, must, label in SHARING_MODELS:
        r = vlib.tlc("MCSharing", cfg, workers=1, timeout=300, xmx="2g")
        if r.error:
            raise vlib.InfraError("%s: %s" % (cfg, r.error))
        ck.tlc_stats(r, label)
        if must and r.violated != must:
            raise vlib.InfraError("%s: the model does not break %s (vacuous)" % (cfg, must))
        if not must and r.violated:
            ck.violation("model:Sharing:" + r.violated, "Sharing.tla (%s) violates %s" % (cfg, r.violated), {"trace": r.trace[-4:]})
    for cfg, must, label in HANDOVER_MODELS:
        r = vlib.tlc("MCHandover", cfg, workers=1, timeout=300, xmx="2g")
        if r.error:
            raise vlib.InfraError("%s: %s" % (cfg, r.error))
        ck.tlc_stats(r, label)
        if must and r.violated != must:
            raise vlib.InfraError("%s: the model does not break %s (vacuous)" % (cfg, must))
        if not must and r.violated:
            ck.violation("model:Handover:" + r.violated, "Handover.tla (%s) violates %s" % (cfg, r.violated), {"trace": r.trace[-4:]})
    S = sch.Schemes()
    names = catalogue.lis_background()
    chains = S.bkg_names(port_only=True)
    users = {}
    for nm in names:
        base = nm.split("+")[0]
        for (k, _ua) in chains.get(base, []):
            for e in S.data[k]["edges"]:
                for it in e["items"]:
                    if it[0] == "call":
                        users.setdefault(it[1], set()).add(nm + ":bkg")
    allcfg = [n + ":bkg" for n in names] + DBD_SHARE_CFGS
    # generators with a momentum-direction-lock operation and dbd_gA objects producing complete events: the code they share
    # (rotation helpers) runs on several threads at once
    extra_cfg = ["MDL@Co60:bkg", "MDL@Cs137:bkg", "MDL@Mo100:0:1", "MDL@Bi214+Po214:bkg", "GATEST", "GATEST"]
    pairs = set()
    for prim, us in sorted(users.items()):
        u = sorted(us)
        for i in range(len(u)):
            for d in ((1, max(2, len(u) // 2)) if not thorough else range(1, len(u))):
                j = (i + d) % len(u)
                if j != i:
                    pairs.add((u[i], u[j]))
    for i, a in enumerate(allcfg):
        for d in (1, 7, 29):
            pairs.add((a, allcfg[(i + d) % len(allcfg)]))
    for a in DBD_SHARE_CFGS:
        for b in DBD_SHARE_CFGS:
            if a != b:
                pairs.add((a, b))
    for a in extra_cfg:
        for b in extra_cfg + ["Co60:bkg", "Mo100:0:1"]:
            pairs.add((a, b))
    if thorough:
        for a in allcfg:
            for b in allcfg:
                if a < b:
                    pairs.add((a, b))
    pairs = sorted(pairs)
    exe = vlib.compile_harness("share_sched", ["harness/share_sched.cc"], "plain")
    nsh = PAR_THOROUGH if thorough else PAR

    def shard(i):
        e_ = vlib.harness_env("plain")
        e_["BXDECAY0_DBD_GA_DATA_DIR"] = os.path.join(vlib.repo(), "resources")      # the shipped mock table Test/g0 (version ".")
        return vlib.sh([exe, "--mode", "baton", "--events", "25" if thorough else "12"], input="\n".join("%s %s" % p for p in pairs[i::nsh]) + "\n",
                       timeout=3000, env=e_, drop_stderr=True)
    res = []
    with cf.ThreadPoolExecutor(max_workers=nsh) as ex:
        for i, (rc, out) in enumerate(ex.map(shard, range(nsh))):
            js = [json.loads(l) for l in out.splitlines() if l.startswith("{")]
            res += js
            if rc == 124:
                raise vlib.InfraError("baton schedule shard %d timed out" % i)
            if rc != 0:
                done = len(js)
                nxt = pairs[i::nsh][done] if done < len(pairs[i::nsh]) else None
                ck.violation("sharing:crash", "two generators under the baton schedule: process died rc=%s at pair %s" % (rc, nxt),
                             {"mode": "sharing", "pairs": [list(nxt)] if nxt else []})
    nd = 0
    for j in res:
        ck.add("evaluations")
        ck.add("baton_pairs")
        ck.add("baton_handovers", j["handovers"])
        if not j["alternation_ok"]:
            raise vlib.InfraError("baton harness did not alternate for %s / %s" % (j["a"], j["b"]))
        if j["exc"]:
            raise vlib.InfraError("a sharing configuration was refused: %s / %s" % (j["a"], j["b"]))
        if j["differ"][0] or j["differ"][1]:
            nd += 1
            who = j["a"] if j["differ"][0] else j["b"]
            other = j["b"] if j["differ"][0] else j["a"]
            if nd <= 6:
                ck.violation("sharing:events-differ:%s" % who.split(":")[0],
                             "generator %s: its events (from event #%d on) differ from those of the same generator and deviate stream run alone when a "
                             "second generator (%s) on another thread draws a deviate between each two of its own (baton schedule of Sharing.tla): "
                             "working data shared between instances" % (who, j["first"][0 if j["differ"][0] else 1], other),
                             {"mode": "sharing", "pairs": [[j["a"], j["b"]]]})
    ck.set("baton_pairs_differing", nd)
    ck.sample({"scenario": "baton schedule", "pair": [res[0]["a"], res[0]["b"]] if res else None, "deviates": res[0]["draws"] if res else None,
               "handovers": res[0]["handovers"] if res else None}, cap=12)
    # free-running threads over every configuration, ThreadSanitizer
    exe_t = vlib.compile_harness("share_sched", ["harness/share_sched.cc"], "tsan")
    env = vlib.harness_env("tsan")
    # a generated dataset tree (the repository's own encoder): Mo100, Se82 and Test tables of both kinds, so that gA generators of
    # decay0_generator (inverse transform: the compact c.d.f. loader) initialise at the same moment on all threads
    gad = os.path.join(wd, "ga-share")
    for iso_ in ("Mo100", "Se82", "Test"):
        rcg, outg = vlib.sh(["python3", os.path.join(vlib.ROOT, "tools", "mk_ga_dataset.py"), gad, iso_, "g0"], timeout=120)
        if rcg != 0:
            raise vlib.InfraError("mk_ga_dataset failed: " + outg[-400:])
    env["BXDECAY0_DBD_GA_DATA_DIR"] = gad
    env["VERIF_GA_VERSION"] = "v1.0"
    sync_cfg = ["!Mo100:0:21", "!Se82:0:21", "!Mo100:0:21", "!GATEST", "!Se82:0:21", "!Mo100:0:4", "!Cd106:0:10"]
    rc, out = vlib.sh([exe_t, "--mode", "free", "--threads", "4", "--events", "4" if thorough else "2"],
                      input="\n".join(sync_cfg * (3 if thorough else 2) + extra_cfg * 3 + allcfg + extra_cfg) + "\n", timeout=1500, env=env)
    if rc == 124:
        raise vlib.InfraError("free-running sharing run timed out")
    js = [json.loads(l) for l in out.splitlines() if l.startswith("{")]
    summ = [j for j in js if j.get("phase") == "free"]
    if not summ:
        ck.violation("sharing:crash:free", "free-running threads over every configuration (TSan build) died rc=%s: %s" % (rc, out[-600:]),
                     {"mode": "sharing-free"})
    else:
        ck.add("mt_events_compared_with_sequential_run", summ[-1]["events_compared"])
        if summ[-1]["differ"]:
            d = [j for j in js if "differ" in j and "phase" not in j]
            ck.violation("sharing:free:events-differ", "free-running threads: events differ from the run alone: %s" % d[:3], {"mode": "sharing-free"})
    reps = tsan_reports(out, vlib.repo())
    # the same synchronised initialisations in an application that has installed a global C++ locale of its own (decimal comma):
    # process-wide state a generator must neither depend on in a schedule-dependent way nor leave changed
    env_l = dict(vlib.harness_env("plain"), BXDECAY0_DBD_GA_DATA_DIR=gad, VERIF_GA_VERSION="v1.0", VERIF_APP_LOCALE="comma")
    for rep in range(3 if thorough else 2):
        rc, outl = vlib.sh([exe, "--mode", "free", "--threads", "4", "--events", "2"], input="\n".join(sync_cfg * 2 + ["Co60:bkg", "Mo100:0:1"]) + "\n",
                           timeout=600, env=env_l, drop_stderr=True)
        jl = [json.loads(l) for l in outl.splitlines() if l.startswith("{")]
        sl = [j for j in jl if j.get("phase") == "free"]
        if not sl:
            ck.violation("sharing:crash:app-locale", "free-running threads in an application with its own global locale died rc=%s: %s" % (rc, outl[-400:]),
                         {"mode": "sharing-free"})
            break
        ck.add("mt_events_compared_under_application_locale", sl[-1]["events_compared"])
        if not sl[-1]["app_locale_intact"]:
            ck.violation("sharing:global-state:locale", "after 4 threads initialised and shot their own generators at the same moment the application's "
                         "global C++ locale is no longer the one it had installed: a library call replaced process-wide state and the "
                         "restore of one thread overwrote that of another", {"mode": "sharing-free"})
        if sl[-1]["differ"]:
            d = [j for j in jl if "differ" in j and "phase" not in j]
            ck.violation("sharing:free:events-differ:app-locale", "free-running threads (application with a decimal-comma global locale): an instance "
                         "behaves differently from its run alone: %s" % d[:3], {"mode": "sharing-free"})
    # spec/Handover.tla: every generator initialised, shot (twice) and reset on four different threads, one thread at a time
    ho_cfg = ["Mo100:0:21", "Se82:0:21", "GATEST", "GATEST"] + extra_cfg + DBD_SHARE_CFGS + [n + ":bkg" for n in (names if thorough else names[::3])]
    for variant, exe_h, env_h in (("plain", exe, dict(vlib.harness_env("plain"), BXDECAY0_DBD_GA_DATA_DIR=gad, VERIF_GA_VERSION="v1.0")), ("tsan", exe_t, env)):
        rc, out = vlib.sh([exe_h, "--mode", "handover", "--threads", "4", "--events", "6" if thorough else "3"], input="\n".join(ho_cfg) + "\n",
                          timeout=1500, env=env_h)
        if rc == 124:
            raise vlib.InfraError("handover run timed out")
        js = [json.loads(l) for l in out.splitlines() if l.startswith("{")]
        summ = [j for j in js if j.get("phase") == "handover"]
        if not summ:
            ck.violation("handover:crash", "generators handed over between threads (%s build) died rc=%s: %s" % (variant, rc, out[-600:]),
                         {"mode": "sharing-handover"})
            continue
        ck.add("handover_generators", summ[-1]["configs"])
        ck.add("handover_events_compared", summ[-1]["events_compared"])
        ck.add("evaluations", summ[-1]["configs"])
        for j in js:
            if "differ" in j and "phase" not in j:
                ck.violation("handover:events-differ:%s" % j["differ"].split(":")[0].replace("MDL@", ""),
                             "generator %s initialised on one thread, shot on two others and reset on a fourth (never two threads at a time): from "
                             "event #%d on its events differ from those of the same stages on one thread (got %s): something initialisation "
                             "leaves for the shots does not travel with the object (Handover.tla, Scope # object)" % (j["differ"], j["first"], j["got"][:100]),
                             {"mode": "sharing-handover", "cfg": j["differ"]})
        if variant == "tsan":
            reps += tsan_reports(out, vlib.repo())
    ck.add("tsan_reports", len(reps))
    seen = set()
    for sym, what in reps:
        if sym in seen:
            continue
        seen.add(sym)
        ck.violation("tsan:race:" + sym, "ThreadSanitizer (4 free-running threads, each generating every published background nuclide and %d "
                     "double-beta configurations with its own generator): %s" % (len(DBD_SHARE_CFGS), what), {"mode": "sharing-free"})


MT_CFGS = ["Mo100:0:4:0.5:2.0", "Mo100:0:5", "Cd106:0:4", "Co60:bkg", "Mo100:0:21", "Mo100:0:21", "GAREJ:bkg", "Se82:0:5"]


def run_mt(ck, wd, thorough):
    exe_t = vlib.compile_harness("gsl_sched", ["harness/gsl_sched.cc"], "tsan", libs=["-ldl"])
    exe_p = vlib.compile_harness("gsl_sched", ["harness/gsl_sched.cc"], "plain", libs=["-ldl"])
    gadir = os.path.join(wd, "ga-data")
    os.makedirs(gadir, exist_ok=True)
    cfgargs, cfgargs_plain = [], []
    for c in MT_CFGS:
        cfgargs += ["--cfg", c]
        if not c.endswith(":21") and not c.startswith("GAREJ"):   # the gA configurations only matter for the data-race detector
            cfgargs_plain += ["--cfg", c]
    runs = [("tsan", exe_t, ["--mode", "mt", "--phase", "gen"] + cfgargs + ["--events", "30", "--rounds", "2" if thorough else "1"]),
            ("tsan", exe_t, ["--mode", "mt", "--phase", "api"]),
            ("plain", exe_p, ["--mode", "mt", "--phase", "gen"] + cfgargs_plain + ["--events", "200", "--rounds", "30" if thorough else "4"])]
    seen = {}
    for variant, exe, args in runs:
        env = vlib.harness_env(variant)
        # the shipped mock table Test/g0 (resources/data/dbd_gA/./Test/g0) is the only dataset in reach: the decay0_generator gA
        # configurations fail to initialise (their data-race relevant part is the lookup), the direct rejection shooter works
        env["BXDECAY0_DBD_GA_DATA_DIR"] = os.path.join(vlib.repo(), "resources")
        rc, out = vlib.sh([exe] + args, timeout=600, env=env)
        phase = args[3]
        ck.add("evaluations")
        js = [json.loads(l) for l in out.splitlines() if l.startswith("{")]
        summary = [j for j in js if "phase" in j]
        if rc == 124:
            raise vlib.InfraError("mt run timed out: %s" % " ".join(args))
        if not summary:
            if "Default GSL error handler invoked" in out:
                ck.violation("gauss:gsl-handler:abort", "free-running threads (%s build, configs %s): GSL's default handler was invoked and the "
                             "process aborted" % (variant, MT_CFGS), {"mode": "mt", "variant": variant, "args": args})
            else:
                ck.violation("mt:crash", "free-running threads (%s build): process died rc=%s: %s" % (variant, rc, out[-800:]),
                             {"mode": "mt", "variant": variant, "args": args})
            continue
        s = summary[-1]
        if phase == "gen":
            ck.add("mt_events_compared_with_sequential_run", s["events_compared"])
            ck.add("mt_quadratures", s["quadratures"])
            ck.add("mt_gsl_etol_raised", s["etol"])
            if s["differ"]:
                d = [j for j in js if "differ" in j and "phase" not in j]
                ck.violation("mt:events-differ", "events of a thread differ from the sequential run: %s" % d[:3], {"mode": "mt", "variant": variant, "args": args})
            if s["final_handler"] != "a":
                ck.violation("gauss:gsl-handler:not-restored", "after %d free-running threads (%s) finished, the process-wide GSL error handler is '%s' "
                             "instead of the initial one" % (s["threads"], MT_CFGS, HCLS.get(s["final_handler"])),
                             {"mode": "mt", "variant": variant, "args": args})
            ck.sample({"scenario": "free-running threads (%s)" % variant, "configs": MT_CFGS, "summary": s}, cap=12)
        elif not s.get("same", True):
            ck.violation("mt:api-value-differs", "first use of is_trace()/env_data_base_dir() from several threads returned a wrong value",
                         {"mode": "mt", "variant": variant, "args": args})
        if variant == "tsan":
            reps = tsan_reports(out, vlib.repo())
            ck.add("tsan_reports", len(reps))
            for sym, what in reps:
                key = "tsan:race:" + sym
                if key in seen:
                    continue
                seen[key] = 1
                ck.violation(key, "ThreadSanitizer (%s phase, %s): %s" % (
                    phase, "threads driving decay0_generator instances" if phase == "gen" else "first use of public helper entry points", what),
                             {"mode": "mt", "variant": variant, "args": args})
            if rc not in (0, 97) and not reps:
                raise vlib.InfraError("tsan run failed rc=%s: %s" % (rc, out[-1500:]))


def run_replay(path):
    obj = json.load(open(path))
    rp = obj.get("replay") or {}
    wd = vlib.workdir("c12r")
    print("replaying %s: %s" % (obj.get("key"), rp.get("line") or rp.get("args")))
    if rp.get("mode") in ("gauss", "traces", "real"):
        exe = vlib.compile_harness("gsl_sched", ["harness/gsl_sched.cc"], "plain", libs=["-ldl"])
        res, _ = run_sched(exe, rp["mode"], [rp["line"]], wd, "replay", shards=1, budget=300)
        res.pop("_probe", None)
        for sid, r in res.items():
            print("observed:", json.dumps(r))
            bad = classify_direct(r) if rp["mode"] != "traces" else None
            ck = vlib.Check(PID, "model_checking", "quick")
            f = rp["line"].split()
            if rp["mode"] == "gauss":
                rej = tlc_validate(ck, "TraceGslHandler", [gauss_trace_lines(0, int(f[1]), int(f[2]), r)], wd, "rp", "replay")
            elif rp["mode"] == "traces":
                rej = tlc_validate(ck, "TraceOnceInit", [traces_trace_lines(0, int(f[1]), int(f[2]), r)], wd, "rp", "replay")
            else:
                rej = {}
            if bad or rej:
                print("VIOLATION property=%s replay=%s" % (PID, path))
                print("  what: %s %s" % (bad, rej))
                return 1
        print("OK (not reproduced)")
        return 0
    if rp.get("mode") == "mt":
        exe = vlib.compile_harness("gsl_sched", ["harness/gsl_sched.cc"], rp["variant"], libs=["-ldl"])
        env = vlib.harness_env(rp["variant"])
        env["BXDECAY0_DBD_GA_DATA_DIR"] = wd
        rc, out = vlib.sh([exe] + rp["args"], timeout=600, env=env)
        reps = tsan_reports(out, vlib.repo())
        js = [json.loads(l) for l in out.splitlines() if l.startswith("{") and "phase" in l]
        print("rc=%s tsan reports=%s summary=%s" % (rc, sorted({s for s, _ in reps}), js[-1:] ))
        if reps or rc != 0 or (js and (js[-1].get("differ") or js[-1].get("final_handler", "a") != "a")):
            print("VIOLATION property=%s replay=%s" % (PID, path))
            return 1
        print("OK (not reproduced)")
        return 0
    if rp.get("mode") == "sharing":
        exe = vlib.compile_harness("share_sched", ["harness/share_sched.cc"], "plain")
        rc, out = vlib.sh([exe, "--mode", "baton", "--events", "25"], input="\n".join("%s %s" % tuple(p) for p in rp["pairs"]) + "\n",
                          timeout=600, env=vlib.harness_env("plain"), drop_stderr=True)
        js = [json.loads(l) for l in out.splitlines() if l.startswith("{")]
        print("rc=%s %s" % (rc, js))
        if rc != 0 or any(j["differ"][0] or j["differ"][1] for j in js):
            print("VIOLATION property=%s replay=%s" % (PID, path))
            return 1
        print("OK (not reproduced)")
        return 0
    if rp.get("mode") in ("sharing-free", "sharing-handover"):
        # these cases are whole runs (free-running / handed-over generators over every configuration): run the phase again
        ck = vlib.Check(PID, "model_checking", "quick")
        ck.violations = []
        run_sharing(ck, wd, False, random.Random(ck.seed))
        same = [v for v in ck.violations if v[0] == obj.get("key")] or ck.violations
        if same:
            print("VIOLATION property=%s replay=%s" % (PID, path))
            print("  what: %s" % same[0][1])
            return 1
        print("OK (not reproduced)")
        return 0
    raise vlib.InfraError("replay file has no runnable case")
