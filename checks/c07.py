"""C07 - an event depends only on configuration and deviates, never on history or reuse.

Specification: spec/History.tla - generator slots, event objects and deviate streams; the state records what must not
matter (earlier shots, earlier configuration of the slot, contents of the event object, other instances); the outcome of a
shot is by definition Canon(configuration, stream).  TLC explores the complete graph and exports it.
Binding: harness/history_replay.cc executes every (state, action) pair of the graph on real objects (online cover) and long
seeded walks; after every shot the event must be bit-identical to the one a fresh instance, a fresh event object and the
same stream give.  Run in the plain and in the ASan/UBSan build, with and without a registered post-generation operation."""
import concurrent.futures as cf
import json
import os

import vlib

PID = "C07"


def flatten(g, path):
    acts, alist = {}, []
    sid = {n: i for i, n in enumerate(sorted(g["nodes"]))}
    edges = []
    for (s, n, a, d) in g["edges"]:
        k = (n, tuple(str(x) for x in a))
        if k not in acts:
            acts[k] = len(alist)
            alist.append(k)
        edges.append((sid[s], acts[k], sid[d]))
    with open(path, "w") as f:
        for i, (n, a) in enumerate(alist):
            f.write("A %d %s %s\n" % (i, n, " ".join(a)))
        for e in sorted(set(edges)):
            f.write("E %d %d %d\n" % e)
        f.write("I %d\n" % sid[g["init"][0]])
    return alist


def run_h(exe, args, variant, timeout):
    # the MDL operation prints every momentum to std::cerr: not captured (a crash is re-run with stderr for the report)
    rc, out = vlib.sh([exe] + args, timeout=timeout, env=vlib.harness_env(variant), drop_stderr=True)
    last = [l for l in out.splitlines() if l.startswith("{")]
    if rc != 0 or not last:
        rc2, out2 = vlib.sh([exe] + args, timeout=timeout, env=vlib.harness_env(variant))
        return {"crash": True, "rc": rc, "out": out2[-2500:]}
    return json.loads(last[-1])


def opargs(op):
    # OpModes of History.tla: none / own (every generator gets an operation object of its own) / shared (one object for all)
    return ["--shared-op"] if op == "shared" else ["--pair-op"] if op == "pair" else ["--strict-op"] if op == "strict" else ["--with-op"] if op else []


def optag(op):
    return ",shared-op" if op == "shared" else ",pair-op" if op == "pair" else ",strict-op" if op == "strict" else ",op" if op else ""


def explore(ck, tier, variants_cover, variants_walk, pid_tag, cfg=None, ops=(False, True, "shared", "pair", "strict"), budget=None):
    thorough = tier == "thorough"
    wd = vlib.workdir(pid_tag)
    dump = os.path.join(wd, "history")
    r = vlib.tlc("MCHistory", cfg or ("MCHistory_thorough.cfg" if thorough else "MCHistory.cfg"), workers=8, dump=dump, timeout=900)
    if r.error:
        raise vlib.InfraError(r.error)
    ck.tlc_stats(r, "MCHistory")
    if r.violated:
        ck.violation("model:" + r.violated, "History.tla violates %s" % r.violated, {"trace": r.trace[-3:]})
        return []
    g = vlib.parse_dot(dump + ".dot")
    gpath = dump + ".graph"
    alist = flatten(g, gpath)
    ck.set("model_states", len(g["nodes"]))
    ck.set("model_edges", len(g["edges"]))
    exes = {v: vlib.compile_harness("history_replay", ["harness/history_replay.cc"], v) for v in set(variants_cover + variants_walk)}
    jobs = []
    for v in variants_cover:
        for op in ops:
            jobs.append((v, ["--graph", gpath, "--cover", "--budget", str(budget or (600 if thorough else 100))] + opargs(op),
                         "cover(%s%s%s)" % (v, optag(op), "," + cfg if cfg else "")))
    for v in variants_walk:
        for op in ops:
            jobs.append((v, ["--graph", gpath, "--walks", str(4000 if thorough else 400), "--walklen", "14", "--seed", str(ck.seed + (4 if op == "strict" else 3 if op == "pair" else 2 if op == "shared" else 1 if op else 0)),
                             "--budget", "400" if thorough else "60"] + opargs(op), "walks(%s%s)" % (v, optag(op))))
    results = []
    with cf.ThreadPoolExecutor(max_workers=len(jobs)) as ex:
        futs = [(ex.submit(run_h, exes[v], args, v, 900), tag) for (v, args, tag) in jobs]
        for f, tag in futs:
            rr = f.result()
            rr["phase"] = tag
            results.append(rr)
    return results


def run(tier, replay):
    ck = vlib.Check(PID, "model_checking", tier)
    results = explore(ck, tier, ["plain"], ["plain"], "c07")
    # the same nuclide and mode under different energy-sum windows (what one initialisation leaves for the next)
    results += explore(ck, tier, ["plain"], [], "c07w", cfg="MCHistory_window.cfg", ops=(False,), budget=200 if tier == "thorough" else 40)
    # one mode (0nu4b), the three nuclides that have it: whatever the mode's code keeps is keyed on the nuclide as well
    results += explore(ck, tier, ["plain"], [], "c07f", cfg="MCHistory_four.cfg", ops=(False,), budget=200 if tier == "thorough" else 30)
    # the modes with a per-event majorant scan of the second lepton (5, 13, 8): a stale table bin of the previous event
    results += explore(ck, tier, ["plain"], [], "c07s", cfg="MCHistory_scan.cfg", ops=(False,), budget=200 if tier == "thorough" else 30)
    exhaustive = True
    for rr in results:
        if rr.get("crash"):
            ck.violation("crash:" + rr["phase"], "history replayer died (rc=%s) in %s: %s" % (rr["rc"], rr["phase"], rr["out"][-1200:]), {"phase": rr["phase"]})
            continue
        ck.add("evaluations", rr["sequences"])
        ck.add("steps_executed", rr["steps"])
        ck.add("shots_compared_with_canonical", rr["shoots"])
        ck.add("state_action_pairs_executed", rr["pairs_covered"])
        if rr["phase"].startswith("cover") and not rr["complete"] and "MCHistory_window" not in rr["phase"] and "MCHistory_four" not in rr["phase"]:
            exhaustive = False
        for v in rr["violations"]:
            ck.violation(v["key"], v["what"], {"sequence": v["seq"], "phase": rr["phase"]})
    # ---- argument-collision schedule: a value cached or left behind by one primitive call must not leak into the next call
    #      that shares one argument with it.  For every pair of call sites of the extracted schemes that agree on one
    #      literal argument and differ in another, the decays [B, A, B] are generated back to back in one process with the
    #      same plan and stream for both B: the two B events must be bit-identical (and agree with the reference).
    import c01
    import catalogue
    import schemes as sch
    S = sch.Schemes()
    parents = {chain[0][0]: base for base, chain in S.bkg_names(port_only=True).items()}
    port_only = set(S.tab["chains"].get("port_only", {}))
    pub = {n.split("+")[0]: n for n in catalogue.lis_background()}
    pairs = S.argument_collisions(sorted(parents), per_group=1 if tier != "thorough" else 3)
    rng = __import__("random").Random(ck.seed)
    if tier != "thorough" and len(pairs) > 1500:
        keep = [p_ for p_ in pairs if p_[2].startswith("beta")]
        rest = [p_ for p_ in pairs if not p_[2].startswith("beta")]
        pairs = keep + rng.sample(rest, max(0, 1500 - len(keep)))
    wit = {k: dict(S.witness_paths(k)) for k in parents}
    jobs = []
    for n_, (a_, b_, prim, pos) in enumerate(pairs):
        def job(site, tag, seed):
            k, ei, ij = site
            p_ = wit[k][ei]
            # make the transition primitives take the gamma outcome so that the call sequence is fixed by the plan
            return sch.bjob("c%d.%s" % (n_, tag), pub.get(parents[k], parents[k]), seed, [S.plan(k, p_)])
        sa, sb = 1000 + 2 * n_, 1001 + 2 * n_
        jobs += [job(b_, "B1", sb), job(a_, "A", sa), job(b_, "B2", sb), job(a_, "A2", sa)]
    cexe = c01.cosim_exe()
    rc, out = vlib.sh([cexe], input="\n".join(jobs) + "\n", timeout=1800, env=vlib.harness_env("plain"))
    cres = {}
    for l in out.splitlines():
        if l.startswith("{"):
            try:
                j_ = json.loads(l)
                cres[j_["id"]] = j_
            except ValueError:
                pass
    if rc != 0:
        ck.violation("crash:collision-schedule", "co-simulation harness died in the collision schedule (rc=%s)" % rc, None)
    ncol = 0
    for n_, (a_, b_, prim, pos) in enumerate(pairs):
        for x, y, site, other in (("B1", "B2", b_, a_), ("A", "A2", a_, b_)):
            r1, r2 = cres.get("c%d.%s" % (n_, x)), cres.get("c%d.%s" % (n_, y))
            if not r1 or not r2:
                continue
            ncol += 1
            if r1["fp"] != r2["fp"] or r1["ndraws"] != r2["ndraws"]:
                ck.violation("history-dependent:%s:after:%s" % (prim, prim),
                             "the same %s decay (same plan, same stream) gives a different event when a %s decay with an equal argument #%d of %s was "
                             "generated in between: %s vs %s" % (parents[site[0]], parents[other[0]], pos, prim, r1["sig"][:120], r2["sig"][:120]),
                             {"jobs": [j for j in jobs if j.split()[1].startswith("c%d." % n_)]})
            for r_ in (r1, r2):
                if r_["cls"] == "reference-rejects" and parents[site[0]] in port_only:
                    continue      # no reference for the nuclides that exist only in the port: history independence alone is checked
                if r_["cls"] not in ("agree", "y90-pair-deviation", "knife-edge-excluded"):
                    ck.violation("collision:%s:%s" % (parents[site[0]], r_["cls"]),
                                 "in the collision schedule the %s decay differs from the reference (%s): %s" % (parents[site[0]], r_["cls"], r_["detail"][:200]),
                                 {"jobs": [j for j in jobs if j.split()[1].startswith("c%d." % n_)]})
    # ---- event-object reuse on every steered path: the same decay (same plan, same stream) generated into a brand-new event
    #      object and into one with room for 64 particles must give bit-identical events
    import c02
    rjobs = []
    for (l_, m_) in c02.cascade_jobs(S, rng, 1):
        rjobs += [l_, l_.replace(" " + m_["id"] + " ", " " + m_["id"] + "R ", 1) + " R"]
    for base, chain in S.bkg_names(port_only=True).items():
        k0 = chain[0][0]
        for (_e, p_) in S.witness_paths(k0):
            jid = "%s.w%d" % (base, len(rjobs))
            sd = 5 + len(rjobs)
            rjobs += [sch.bjob(jid, pub.get(base, base), sd, [S.plan(k0, p_)]), sch.bjob(jid + "R", pub.get(base, base), sd, [S.plan(k0, p_)]) + " R"]
    nshr = 6
    rres = {}
    with cf.ThreadPoolExecutor(max_workers=nshr) as ex:
        def rsh(i):
            # keep each (fresh, reserved) pair in the same shard
            lines = []
            for k_ in range(0, len(rjobs), 2):
                if (k_ // 2) % nshr == i:
                    lines += rjobs[k_:k_ + 2]
            return vlib.sh([cexe], input="\n".join(lines) + "\n", timeout=1800, env=vlib.harness_env("plain"))
        for rc_, out_ in ex.map(rsh, range(nshr)):
            if rc_ != 0:
                ck.violation("crash:reuse-schedule", "co-simulation harness died in the event-object reuse schedule (rc=%s): %s" % (rc_, out_[-400:]), None)
            for l in out_.splitlines():
                if l.startswith("{"):
                    try:
                        j_ = json.loads(l)
                        if not j_["id"].endswith(":init"):
                            rres[j_["id"].replace(":0", "")] = j_
                    except ValueError:
                        pass
    nreuse = 0
    for jid, r1 in rres.items():
        if jid.endswith("R") or (jid + "R") not in rres:
            continue
        r2 = rres[jid + "R"]
        nreuse += 1
        if r1["fp"] != r2["fp"]:
            ck.violation("event-object-dependent:%s" % jid.split(".")[0],
                         "the same decay (%s, same plan and stream) differs between a brand-new event object and one with reserved capacity: %s" % (
                             jid, r1["sig"][:160]), {"jobs": [j for j in rjobs if j.split()[1] in (jid, jid + "R")]})
    ck.set("event_object_reuse_pairs", nreuse)
    ck.add("evaluations", len(rjobs))
    ck.set("argument_collision_pairs", len(pairs))
    ck.set("collision_comparisons", ncol)
    ck.add("evaluations", len(jobs))
    ck.set("traces_validated_against_impl", ck.cov.get("evaluations", 0))
    ck.set("distinct_nontrivial", ck.cov.get("state_action_pairs_executed", 0))
    ck.set("exhaustive", exhaustive)
    ck.set("rule", "every (state, action) pair of the History.tla graph executed on live objects, with and without a registered MDL operation, plus "
                   "seeded walks of 14 actions; distinct = (state, action) pairs; non-trivial = the pair is executed after a non-empty history")
    ck.sample("Create(g1,Co60) ; Shoot(g1,e1,s1) ; EventPrefill(e1) ; Create(g2,Mo100.2.1) ; ShootMany(g2,e1) ; ResetReinit(g1,Mo100.2.1) ; Shoot(g1,e1,s2)")
    ck.assumptions += ["configurations with millisecond initialisation only (Co60, Bi207, Mo100/Ge76/Nd150 to a correlated-cascade level, Zr96 4b); "
                       "quadrature-based modes are covered by C02's same-deviate comparison, not here",
                       "streams are re-seeded at every shot; ShootMany = 1000 shots"]
    return ck.finish()
