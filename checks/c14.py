"""C14 - the gA sampler stays in the kinematic domain and inverts its cumulative tables.

Decided by spec/GaCodec.tla (token language of tab_ocdf.data: encoder of mkocdfdata.py and decoder
load_optimized_cdf_array, round trip / monotone / [0,1] / ends at 1 for every short table over values crossing every
run-of-nines boundary) and spec/GaSampler.tla (cell = first index with r <= c[i], for the marginal table and for the
row it selects; inverse of the cumulative table, monotone, inside the tabulated triangle).

Binding: TLC prints every finished behaviour of both models; this check assembles datasets from them (family 1),
lets the REAL Python encoder of the repository write the files, compares the written tokens with the model's line,
and harness/ga_replay.cc lets the REAL decoder / dbd_gA load them: decoded tables must be the model's, every scripted
pair of deviates must land in the model's cell, inside the kinematic domain, monotone, and shoot() must deliver two
electrons with those energies and the sampled angle.  Family 2 runs the whole documented pipeline (3-column joint
p.d.f. -> tab_pdf.data + tab_ocdf.data) on random shapes with long runs of nines (classes up to 15) and compares in
floating point to the encoding precision; the rejection method is run on every tab_pdf.data and on the shipped
Test/g0 table (bounds and event only)."""
import concurrent.futures as cf
import json
import math
import os
import random
import shutil
from decimal import Decimal

import vlib

PID = "C14"
SCALE = 9
ONE = 10 ** SCALE
NPROC = 4

NUCLIDES = ["Se82", "Mo100", "Cd116", "Nd150", "Test"]
PROCESSES = ["g0", "g2", "g22", "g4"]
QBBS = ["2.8135", "2.9951", "3.0344", "3.3714", "3.0000", "1.0000"]
EMINS = ["0.0004", "0.01", "0.05", "0.2"]
SLACKS = ["0.0001", "0.001", "0.05"]


def dec_of(v):
    """model integer (probability * 10^9) -> exact decimal string"""
    if v >= ONE:
        return "1"
    s = "%09d" % v
    return "0." + s


def parse_prints(out, tag):
    """lines TLC printed with PrintT(ToString(<<tag, ...>>)) -> list of python lists"""
    res = []
    head = '"<<\\"%s\\"' % tag
    for line in out.splitlines():
        if line.startswith(head):
            try:
                inner = json.loads(line)
                res.append(json.loads(inner.replace("<<", "[").replace(">>", "]")))
            except ValueError:
                raise vlib.InfraError("cannot parse a line exported by TLC: %r" % line[:300])
    return res


def run_models(ck, thorough):
    sfx = "Thorough" if thorough else ""
    r = vlib.tlc("MCGaCodec", "MCGaCodec%s.cfg" % sfx, workers=NPROC, timeout=900)
    if r.error:
        raise vlib.InfraError(r.error)
    ck.tlc_stats(r, "MCGaCodec%s" % sfx)
    if r.violated:
        ck.violation("model:GaCodec:" + r.violated, "GaCodec.tla violates %s on the model" % r.violated, {"trace": r.trace})
        return None
    cases = {}
    for (_, inp, toks, out) in parse_prints(r.out, "CASE"):
        cases.setdefault(tuple(inp), []).append((tuple(tuple(t) for t in toks), tuple(out)))
    r2 = vlib.tlc("GaSampler", "MCGaSampler%s.cfg" % sfx, workers=NPROC, timeout=900)
    if r2.error:
        raise vlib.InfraError(r2.error)
    ck.tlc_stats(r2, "GaSampler%s" % sfx)
    if r2.violated:
        ck.violation("model:GaSampler:" + r2.violated, "GaSampler.tla violates %s on the model" % r2.violated,
                     {"trace": r2.trace})
        return None
    picks = {}
    for (_, tab, rr, idx) in parse_prints(r2.out, "PICK"):
        picks[(tuple(tab), rr)] = idx
    if not cases or not picks:
        raise vlib.InfraError("TLC exported no behaviours (CASE %d, PICK %d)" % (len(cases), len(picks)))
    return cases, picks


def model_constants(thorough):
    cfg = open(os.path.join(vlib.SPEC, "MCGaSampler%s.cfg" % ("Thorough" if thorough else ""))).read()
    import re
    M = int(re.search(r"\bM = (\d+)", cfg).group(1))
    N = int(re.search(r"\bN = (\d+)", cfg).group(1))
    return M, N


def tri_pdf(rng, n, kind):
    """triangular joint p.d.f. (row i has n - i entries), every row sum positive"""
    rows = []
    a = rng.choice([0.3, 1.0, 2.5, 4.5, 7.0, 9.0])
    b = rng.choice([0.3, 1.0, 3.0, 6.0, 8.0])
    for i in range(n):
        row = []
        for j in range(n - i):
            if kind == "flat":
                v = rng.uniform(0.01, 1.0)
            elif kind == "decay":        # long runs of nines in the conditional and marginal tables
                v = 10.0 ** (-a * j / max(1, n - 1) * 2.0 - b * i / max(1, n - 1) * 2.0) * rng.uniform(0.5, 1.0)
            elif kind == "peak":
                v = rng.choice([1e-6, 1e-3, 0.1, 1.0, 30.0])
            else:                        # "zeros": empty bins, also the first one (cumulative table starts at 0)
                v = rng.choice([0.0, 0.0, 0.2, 1.0])
            row.append(float("%.7e" % v))
        if sum(row) <= 0.0:
            row[rng.randrange(len(row))] = 0.5
        rows.append(row)
    return rows


def build_datasets(ck, cases, picks, thorough, rng):
    M, N = model_constants(thorough)
    maxlen = max(len(k) for k in cases)
    N = min(N, maxlen)
    values = sorted({v for k in cases for v in k})
    # decoded image(s) of every value (two on a decimal tie): from the two-value tables <<v, 1>>
    outs = {v: sorted({o[0] for (_, o) in cases[(v, ONE)]}) for v in values if v < ONE}
    interior = [v for v in values if 0 < v < ONE]
    tables = {}
    for (tab, _r) in picks:
        tables.setdefault(len(tab), set()).add(tab)
    tables = {k: sorted(v) for k, v in tables.items()}
    n1 = 10000 if thorough else 1000
    n2 = 1500 if thorough else 150
    dss = []
    for k in range(n1):
        n = 2 + k % (N - 1)
        while True:
            vs = sorted(rng.sample(interior, M - 1))
            if all(outs[vs[i]][-1] < outs[vs[i + 1]][0] for i in range(len(vs) - 1)) and outs[vs[-1]][-1] < ONE:
                break
        rankmap = [0] + vs + [ONE]
        tab1 = tables[n][(k // (N - 1)) % len(tables[n])]
        rows = [rng.choice(tables[n - i]) for i in range(n)]
        qbb = Decimal(rng.choice(QBBS))
        emin = Decimal(rng.choice(EMINS))
        emax = qbb - emin - Decimal(rng.choice(SLACKS))
        ranks = [list(tab1)] + [list(r) for r in rows]
        dss.append({"id": "m%05d" % k, "family": 1, "version": "m%05d" % k, "nuclide": NUCLIDES[k % 5],
                    "process": PROCESSES[(k // 5) % 4], "n": n, "M": M, "emin": str(emin), "emax": str(emax),
                    "qbb": "%.4f" % qbb, "rankmap": rankmap, "ranks": ranks,
                    "lines": [[dec_of(rankmap[c]) for c in line] for line in ranks],
                    "pdf": tri_pdf(rng, n, rng.choice(["flat", "decay", "peak", "zeros"])),
                    "nevent": 3, "nrej": 40, "nrand": 0, "seed": rng.randrange(1, 2 ** 31)})
    for k in range(n2):
        n = rng.choice([2, 3, 4, 5, 6, 8, 10, 12])
        emin = rng.choice([0.0004, 0.012, 0.05, 0.2])
        step = rng.choice([0.3125, 0.1, 0.2503, 0.02])
        top = emin + (emin + (n - 1) * step)
        qbb = (Decimal(repr(top)) + Decimal(rng.choice(SLACKS))).quantize(Decimal("0.0001"), rounding="ROUND_CEILING")
        dss.append({"id": "p%05d" % k, "family": 2, "version": "p%05d" % k, "nuclide": NUCLIDES[k % 5],
                    "process": PROCESSES[(k // 5) % 4], "n": n, "M": 0, "emin": repr(emin), "step": repr(step),
                    "qbb": "%.4f" % qbb, "pdf": tri_pdf(rng, n, rng.choice(["flat", "decay", "decay", "peak", "zeros"])),
                    "cli": k % 25 == 0, "nevent": 3, "nrej": 40, "nrand": 12, "seed": rng.randrange(1, 2 ** 31)})
    # every class boundary of the encoder's chain (0.9 ... 0.9999999999999999), the double below and the double above
    import math
    for k in range(1, 17):
        th = float("0." + "9" * k)
        lo, hi = math.nextafter(th, 0.0), math.nextafter(th, 2.0)
        w = [lo, th, hi]
        lines = [w + [1.0], w + [1.0], [th, hi, 1.0], [lo, 1.0], [1.0]]
        dss.append({"id": "t%05d" % k, "family": 2, "direct": True, "version": "t%05d" % k, "nuclide": NUCLIDES[k % 5],
                    "process": PROCESSES[k % 4], "n": 4, "M": 0, "emin": "0.05", "emax": "2.9", "qbb": "3.0000",
                    "lines": [[repr(v) for v in line] for line in lines], "pdf": tri_pdf(rng, 4, "flat"),
                    "nevent": 2, "nrej": 10, "nrand": 4, "seed": rng.randrange(1, 2 ** 31)})
    n3 = 1000 if thorough else 100
    for k in range(n3):
        # p.d.f.-only dataset in the documented tab_pdf.data format: the sampling grid is larger than the allowed
        # triangle, the density is zero at every node with E1 + E2 > Qbb (the loader insists on that)
        n = rng.choice([4, 5, 6, 8, 10])
        emin = Decimal(rng.choice(["0.01", "0.05", "0.2"]))
        step = Decimal(rng.choice(["0.3125", "0.1", "0.25"]))
        cut = rng.randrange(1, n - 1)                       # nodes with i + j <= cut are inside
        qbb = 2 * emin + cut * step + Decimal(rng.choice(["0.0001", "0.01"]))
        emax = emin + (n - 1) * step
        pdf = tri_pdf(rng, n, rng.choice(["flat", "peak"]))
        pdf = [[(v if i + j <= cut else 0.0) for j, v in enumerate(row)] for i, row in enumerate(pdf)]
        dss.append({"id": "z%05d" % k, "family": 3, "version": "z%05d" % k, "nuclide": NUCLIDES[k % 5],
                    "process": PROCESSES[(k // 5) % 4], "n": n, "M": 0, "emin": str(emin), "emax": str(emax),
                    "step": str(step), "qbb": "%.4f" % qbb, "pdf": pdf, "nevent": 2, "nrej": 60, "nrand": 0,
                    "seed": rng.randrange(1, 2 ** 31)})
    return dss, M


def write_pdf_only(root, ds):
    d = os.path.join(root, "data", "dbd_gA", ds["version"], ds["nuclide"], ds["process"])
    os.makedirs(d, exist_ok=True)
    with open(os.path.join(d, "tab_pdf.data"), "w") as f:
        f.write("#isotope=%s\n#dbd_ga.mode=%s\n%s   # Maximum energy sum (MeV)\n\n" % (ds["nuclide"], ds["process"], ds["qbb"]))
        f.write("# Probability E_min E_max E_step nb_samples\nProbability %s %s %s %d\n\n" % (ds["emin"], ds["emax"], ds["step"], ds["n"]))
        for row in ds["pdf"]:
            f.write(" ".join("%.7e" % v for v in row) + "\n")
        f.write("\n# end\n")
    ds["emin_x"], ds["emax_x"] = ds["emin"], ds["emax"]


def real_tokens(line):
    toks = []
    for w in line.split():
        if w.startswith("^"):
            toks.append((0, int(w[1:])))
        elif w == "!1":
            toks.append((1,))
        else:
            toks.append((2, Decimal(w)))
    return toks


def model_tokens(toks):
    res = []
    for t in toks:
        if t[0] == 0:
            res.append((0, t[1]))
        elif t[0] == 1:
            res.append((1,))
        else:
            res.append((2, Decimal(t[1]).scaleb(-t[2])))
    return res


def table_lines(path):
    out, seen = [], 0
    for line in open(path):
        w = line.split()
        if not w or w[0].startswith("#"):
            continue
        seen += 1
        if seen > 2:
            out.append(line.rstrip("\n"))
    return out


def nines(v):
    k = 0
    while k < SCALE and v >= ONE - 10 ** (SCALE - k - 1):
        k += 1
    return k


def encode_and_match(ck, dss, cases, root, wd):
    """real encoder writes every dataset; family-1 lines are matched with the model's token lines"""
    pdf_only = [d for d in dss if d["family"] == 3]
    for ds in pdf_only:
        write_pdf_only(root, ds)
    dss = [d for d in dss if d["family"] != 3]
    shards = [dss[i::NPROC] for i in range(NPROC)]
    helper = os.path.join(vlib.ROOT, "tools", "ga_encode.py")

    def enc(i):
        if not shards[i]:
            return {"datasets": {}}
        jp, op = os.path.join(wd, "enc%d.json" % i), os.path.join(wd, "enc%d.out.json" % i)
        json.dump({"repo": vlib.repo(), "root": root, "datasets": shards[i]}, open(jp, "w"))
        rc, out = vlib.sh(["python3", helper, jp, op], timeout=900)
        if rc != 0 or not os.path.exists(op):
            raise vlib.InfraError("ga_encode.py failed (rc=%s): %s" % (rc, out[-3000:]))
        return json.load(open(op))
    with cf.ThreadPoolExecutor(max_workers=NPROC) as ex:
        res = list(ex.map(enc, range(NPROC)))
    info = {}
    for r in res:
        info.update(r["datasets"])
    good = list(pdf_only)
    codec_lists = set()
    ck.add("encoder_lines_not_in_model", 0)
    for ds in dss:
        ii = info.get(ds["id"])
        if ii is None:
            raise vlib.InfraError("no encoder result for dataset %s" % ds["id"])
        if not ii["ok"]:
            ck.violation("codec:encoder-refuses-well-formed-input:family=%d" % ds["family"],
                         "mkocdfdata.py failed on dataset %s: %s" % (ds["id"], ii.get("error")), {"dataset_id": ds["id"], "dataset": ds})
            continue
        ds["emin_x"], ds["emax_x"] = ii["emin"], ii["emax"]
        if ds["family"] == 2:
            ds["expect"] = ii["ncdf"]
            good.append(ds)
            continue
        path = os.path.join(root, "data", "dbd_gA", ds["version"], ds["nuclide"], ds["process"], "tab_ocdf.data")
        lines = table_lines(path)
        if len(lines) != ds["n"] + 1:
            ck.violation("codec:encode-line-count", "dataset %s: %d table lines written for n=%d" % (ds["id"], len(lines), ds["n"]),
                         {"dataset_id": ds["id"], "dataset": ds})
            continue
        expect, rank_out, ok = [], {}, True
        for ln, (text, rk) in enumerate(zip(lines, ds["ranks"])):
            inp = tuple(ds["rankmap"][c] for c in rk)
            alts = cases.get(inp)
            if alts is None:
                raise vlib.InfraError("table %s is not a behaviour the model exported" % (inp,))
            rt = real_tokens(text)
            hit = [a for a in alts if model_tokens(a[0]) == rt]
            ck.add("encoder_lines_compared")
            if not hit:
                # the real encoder wrote another line than EncTok for this table: not a violation by itself (only the
                # round trip is claimed); the dataset is then judged like a family-2 one, against the encoder's input
                ck.add("encoder_lines_not_in_model")
                if "encoder_line_not_in_model" not in ck.cov:
                    ck.set("encoder_line_not_in_model", {"table": [dec_of(v) for v in inp], "written": text,
                                                         "model": " ".join(tok_text(t) for t in alts[0][0])})
                ok = False
                break
            out = hit[0][1]
            expect.append([dec_of(v) for v in out])
            for c, o in zip(rk, out):
                rank_out[c] = o
            if any(t[0] == 2 for t in hit[0][0]):
                codec_lists.add(inp)
        if not ok:
            ds.update({"family": 2, "M": 0, "nrand": 12,
                       "expect": [[dec_of(ds["rankmap"][c]) for c in rk] for rk in ds["ranks"]]})
            good.append(ds)
            continue
        # probability of every rank after the round trip (ranks absent from all lines: any admissible image)
        outs = []
        for c, v in enumerate(ds["rankmap"]):
            if c in rank_out:
                outs.append(rank_out[c])
            elif v >= ONE:
                outs.append(ONE)
            else:
                outs.append(cases[(v, ONE)][0][1][0])
        ds["P"] = [dec_of(v) for v in outs]
        ds["expect"] = expect
        good.append(ds)
    # the E_step word of the header is informative (the grid is E_min .. E_max in nb_samples points): the format example of
    # documentation/gA_process.rst spells it rounded (0.00302 for 3.02/999).  Every third table gets such a header - the step
    # rounded UP to three significant digits, so that a grid built from it would leave [E_min, E_max].
    nround = 0
    for k, ds in enumerate(d for d in good if d["family"] != 3):
        if k % 3 != 1:
            continue
        path = os.path.join(root, "data", "dbd_gA", ds["version"], ds["nuclide"], ds["process"], "tab_ocdf.data")
        txt = open(path).read().split("\n")
        for i, ln in enumerate(txt):
            w = ln.split()
            if len(w) == 5 and w[0] == "CumulativeProbability":
                st = float(w[3])
                q = 10 ** (math.floor(math.log10(st)) - 2)
                w[3] = "%.6g" % (math.ceil(st / q + 0.5) * q)
                txt[i] = " ".join(w)
                nround += 1
                break
        open(path, "w").write("\n".join(txt))
    ck.set("tables_with_rounded_step_in_header", nround)
    return good, codec_lists


def tok_text(t):
    if t[0] == 0:
        return "^%d" % t[1]
    if t[0] == 1:
        return "!1"
    return format(Decimal(t[1]).scaleb(-t[2]).normalize(), "f")


def write_job(path, dss, picks_path):
    with open(path, "w") as f:
        f.write("PICKS %s\n" % picks_path)
        for ds in dss:
            f.write("DS %s %d %s %s %s %d %s %s %s %d %d %d %d %d\n" % (
                ds["id"], ds["family"], ds["version"], ds["nuclide"], ds["process"], ds["n"], ds["emin_x"], ds["emax_x"],
                ds["qbb"], ds["M"], ds["nevent"], ds["nrej"], ds["nrand"], ds["seed"]))
            if ds["family"] == 1:
                f.write("P %s\n" % " ".join(ds["P"]))
                for rk in ds["ranks"]:
                    f.write("T %d %s\n" % (len(rk), " ".join(str(c) for c in rk)))
            for ex in ds.get("expect", []):
                f.write("L %d %s\n" % (len(ex), " ".join(ex)))
            f.write("END\n")


def run_harness(exe, args, env, timeout):
    rc, out = vlib.sh([exe] + args, timeout=timeout, env=env)
    last = [l for l in out.splitlines() if l.startswith("{")]
    if rc == 3 and last:
        raise vlib.InfraError("ga_replay: %s" % json.loads(last[-1]).get("infra_error"))
    if rc != 0 or not last:
        return {"crash": True, "rc": rc, "out": out[-3000:]}
    return json.loads(last[-1])


def run(tier, replay):
    ck = vlib.Check(PID, "model_checking", tier)
    target = None
    if replay:
        obj = json.load(open(replay))
        ck.seed = int(obj.get("seed", ck.seed))
        target = (obj.get("replay") or {}).get("dataset_id")
    thorough = ck.tier == "thorough"
    rng = random.Random(ck.seed)
    wd = vlib.workdir("c14")
    root = os.path.join(wd, "root")
    os.makedirs(root)

    # ---- 1. the models
    models = run_models(ck, thorough)
    if models is None:
        return ck.finish()
    cases, picks = models
    ck.set("codec_behaviours_exported", sum(len(v) for v in cases.values()))
    ck.set("sampler_picks_exported", len(picks))

    # ---- 2. datasets from the models' behaviours, written by the real encoder
    dss, M = build_datasets(ck, cases, picks, thorough, rng)
    if target is not None:
        dss = [d for d in dss if d["id"] == target]
        if not dss and target != "shipped-Test-g0":
            raise vlib.InfraError("replay: dataset %s is not generated for seed %s tier %s" % (target, ck.seed, ck.tier))
    byid = {d["id"]: d for d in dss}
    good, codec_lists = encode_and_match(ck, dss, cases, root, wd)
    picks_path = os.path.join(wd, "picks.txt")
    with open(picks_path, "w") as f:
        for (tab, r), idx in picks.items():
            f.write("%d %s %d %d\n" % (len(tab), " ".join(str(c) for c in tab), r, idx))

    # ---- 3. the real decoder / sampler on every dataset
    exe = vlib.compile_harness("ga_replay", ["harness/ga_replay.cc"], "plain")
    env = dict(vlib.harness_env("plain"))
    env["BXDECAY0_DBD_GA_DATA_DIR"] = root
    shards = [good[i::NPROC] for i in range(NPROC)]
    results = []
    with cf.ThreadPoolExecutor(max_workers=NPROC) as ex:
        futs = []
        for i, sh in enumerate(shards):
            if not sh:
                continue
            jp = os.path.join(wd, "job%d.txt" % i)
            write_job(jp, sh, picks_path)
            futs.append((i, ex.submit(run_harness, exe, ["--job", jp, "--root", root], env, 1500 if thorough else 300)))
        for i, fu in futs:
            rr = fu.result()
            rr["phase"] = "datasets shard %d" % i
            results.append(rr)
    # the shipped mock table (rejection method only)
    if target in (None, "shipped-Test-g0"):
        res_root = os.path.join(vlib.repo(), "resources")
        jp = os.path.join(wd, "job-shipped.txt")
        write_job(jp, [{"id": "shipped-Test-g0", "family": 2, "version": ".", "nuclide": "Test", "process": "g0", "n": 8,
                        "emin_x": "0.2", "emax_x": "2.7", "qbb": "3.0", "M": 0, "nevent": 2,
                        "nrej": 20000 if thorough else 3000, "nrand": 0, "seed": ck.seed % 100000 + 1}], picks_path)
        env2 = dict(env)
        env2["BXDECAY0_DBD_GA_DATA_DIR"] = res_root
        rr = run_harness(exe, ["--job", jp, "--root", res_root, "--no-itm"], env2, 300)
        rr["phase"] = "shipped Test/g0 tab_pdf.data"
        results.append(rr)

    tot = {}
    late_samples = []
    for rr in results:
        if rr.get("crash"):
            ck.violation("crash:" + rr["phase"].split()[0], "ga_replay died (rc=%s) in phase %s: %s" % (
                rr["rc"], rr["phase"], rr["out"][-1500:]), {"phase": rr["phase"], "output": rr["out"]})
            continue
        for k, v in rr.items():
            if isinstance(v, int):
                tot[k] = tot.get(k, 0) + v
        for v in rr["violations"]:
            ck.violation(v["key"], "dataset %s: %s" % (v["ds"], v["what"]),
                         {"dataset_id": v["ds"], "dataset": byid.get(v["ds"]), "occurrences": rr["violation_counts"].get(v["key"])})
        late_samples.extend(rr["samples"][:1])
    for k, v in tot.items():
        ck.set(k, v)

    # ---- 4. evidence
    fam1 = [d for d in good if d["family"] == 1]
    behaviours = set()
    ndev = 2 * M
    for d in fam1:
        t1 = tuple(d["ranks"][0])
        for r1 in range(ndev):
            i = picks[(t1, r1)]
            row = tuple(d["ranks"][i])
            for r2 in range(ndev):
                behaviours.add((t1, r1, row, r2))
    ck.set("codec_behaviours_replayed", ck.cov.get("encoder_lines_compared", 0))
    ck.set("distinct_codec_tables_with_plain_numbers", len(codec_lists))
    ck.set("distinct_sampler_behaviours", len(behaviours))
    ck.set("traces_validated_against_impl", ck.cov.get("encoder_lines_compared", 0) + tot.get("pairs_model_datasets", 0))
    ck.set("evaluations", tot.get("lines_decoded", 0) + tot.get("pairs", 0) + tot.get("rejection_shots", 0)
           + tot.get("events_checked", 0))
    ck.set("distinct_nontrivial", len(codec_lists) + len(behaviours))
    ck.set("rule", "family 1: tables are behaviours of GaCodec.tla (all non-decreasing tables up to the model's MaxLen over its "
                   "value set, ending at 1) arranged into datasets along the tables of GaSampler.tla; distinct = different "
                   "value list (codec; non-trivial = at least one plain-number token) or different (first table, first "
                   "deviate class, selected row, second deviate class) (sampler); every model deviate class is executed "
                   "as the value itself, one ulp above/below and the midpoint; family 2: seeded random joint p.d.f. shapes "
                   "through the whole mkocdfdata.py pipeline, compared in floating point")
    ck.set("exhaustive", False)
    ck.set("models_exhaustive", True)
    ck.set("datasets_family1", len(fam1))
    ck.set("datasets_family2", len([d for d in good if d["family"] == 2]))
    ck.set("datasets_pdf_only_zero_beyond_qbb", len([d for d in good if d["family"] == 3]))
    if fam1:
        d = fam1[0]
        ck.sample({"dataset": d["id"], "n": d["n"], "emin": d["emin"], "emax": d["emax"], "qbb": d["qbb"],
                   "rank_probabilities": d["P"], "tables_as_ranks": d["ranks"],
                   "file": open(os.path.join(root, "data", "dbd_gA", d["version"], d["nuclide"], d["process"],
                                             "tab_ocdf.data")).read().splitlines()})
    fam2 = [d for d in good if d["family"] == 2]
    if fam2:
        d = fam2[0]
        ck.sample({"dataset": d["id"], "n": d["n"], "pdf_rows": d["pdf"][:2],
                   "file": open(os.path.join(root, "data", "dbd_gA", d["version"], d["nuclide"], d["process"],
                                             "tab_ocdf.data")).read().splitlines()[:6]})
    for smp in late_samples[:4]:
        ck.sample(smp)
    ck.assumptions += [
        "TLC explores GaCodec.tla and GaSampler.tla completely for the constants of their cfg files",
        "probabilities are integers times 1e-9 in the models: runs of 10..15 nines are reached only by the floating-point "
        "family-2 datasets, not by TLC",
        "tolerances: 4.5e-16 on decoded values against the model (float noise of bias + digits*10^-(k+1)); half a unit of the "
        "7th significant digit + 7e-16 against the encoder's input; 1e-12 MeV on cell edges, sums and monotonicity; 1e-11 on "
        "kinetic energies recomputed from momenta; 1e-9 on cos(theta12)",
        "the deviate source contract is [0,1): the deviate 0 is served, 1 is not",
        "well-formed dataset: tables non-decreasing ending at 1, E_min + E_max <= Qbb (Qbb with at most 4 decimals, as the "
        "encoder writes it), every p.d.f. row sum positive",
        "rejection method: bounds, termination and event only (random deviates plus the corners of the triangle)"]
    shutil.rmtree(wd, ignore_errors=True)
    return ck.finish()
