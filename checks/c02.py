"""C02 - double-beta events reproduce the Decay0 reference for every isotope / level / mode.

Specifications: spec/BB.tla (control flow of the sampler: modes, table index, window, emissions), spec/Scheme.tla over the
daughter-level (*low) cascades and the alpha-chain routines extracted from the reference text.
Binding: for every (isotope, level, mode) the reference accepts, both programs are initialised and shot with the same
deviates (harness/cosim.cc): initial verdict, e0/window/full-range ratio, primitive-call traces and events must agree; every
cascade path is steered by a model-derived plan; TLC validates the recorded sampler steps (TraceBB) and cascade steps
(TraceScheme) against the specifications."""
import collections
import concurrent.futures as cf
import json
import os
import random
import re

import c01
import schemes as sch
import vlib

PID = "C02"
EMASS = 0.51099906
WINDOW_MODES = {4, 5, 6, 8, 10, 13, 14, 15, 16, 19}


def e0_of(ent, lv, mode):
    q, z = float(ent["Q"]), float(ent["Z"])
    ek = float(lv["EK"])
    el = lv["E"] / 1000.0
    if mode in (9, 10):
        return q - ek - 2 * EMASS - el
    if mode in (11, 12):
        return q - 2 * ek - el
    return q - el - (4 * EMASS if z < 0 else 0.0)


def dline(jid, name, level, mode, win, seed, nev, plans=None, tplan=None, nme=None, bbplan=None, knife=None):
    s = "D %s %s %d %d %s %s %d %d -1 0.5 %d %s" % (
        jid, name, level, mode, "x" if win is None else repr(win[0]), "x" if win is None else repr(win[1]), seed, nev,
        len(plans or []), " ".join(sch.fmt_plan(p) for p in (plans or [])))
    if tplan:
        s += " T " + sch.fmt_plan(tplan)
    if nme:
        s += " N " + " ".join(repr(x) for x in nme)
    if bbplan:
        s += " B " + sch.fmt_plan(bbplan)
    if knife is not None:
        s += " M %r" % knife
    return s


def cascade_jobs(S, rng, modes_per_level=1, suffix="", outcomes=True):
    """one D job per cascade path of every (isotope, level), and one per conversion / pair outcome of every transition: -> [(line, meta)]"""
    seen_tr = set()
    tab = S.tab["table"]
    low = S.tab["low"]
    chains = S.tab["chains"]["dbd"]
    out = []
    n = 0
    for ent in tab:
        nm = ent["name"]
        for il, lv in enumerate(ent["levels"]):
            if nm in chains and len(chains[nm]) > 1:
                keys = [S.by_lower.get(c["call"].lower() + "@0") or S.key_of_call(c["call"]) for c in chains[nm]]
            elif nm in low and (low[nm].lower() + "@%d" % lv["E"]) in S.by_lower:
                keys = [S.by_lower[low[nm].lower() + "@%d" % lv["E"]]]
            else:
                keys = []
            modes = [1, 4] if lv["spin"] == 0 else [7, 8] if lv["spin"] == 2 else [3]
            if float(ent["Z"]) < 0:
                modes = [12] + modes[:1]
            modes = modes[:modes_per_level]
            for ki, key in enumerate(keys):
                if key not in S.data:
                    continue
                paths = S.all_paths(key)
                if len(paths) <= 1 and ki == 0 and len(keys) == 1 and lv["E"] == 0:
                    continue
                for p in paths:
                    for m in modes:
                        n += 1
                        plans = [[] for _ in range(ki)] + [S.plan(key, p)]
                        jid = "%s.%d.%d.p%d" % (nm, il, m, n)
                        line = dline(jid, nm, il, m, None, rng.randrange(1, 2 ** 31), 1, plans=plans) + suffix
                        out.append((line, {"kind": "cascade-path", "iso": nm, "level": il, "mode": m, "sig": S.path_sig(key, p), "id": jid}))
                # every conversion / pair outcome of every transition of the routine (the gamma outcome is what the paths above take
                # most of the time): the outcome deviate is planned, on a witness path through the transition
                if outcomes and ki == len(keys) - 1:
                    wmap = dict(S.witness_paths(key))
                    for (ei, ij, prim, args) in S.transitions(key):
                        outs = S.transition_outcomes(prim, args)
                        if not outs or ei not in wmap or (key, ei, ij) in seen_tr:
                            continue
                        seen_tr.add((key, ei, ij))
                        p = wmap[ei]
                        no = S.transition_ordinal(key, p, ei, ij)
                        for oname, (lo, hi) in outs.items():
                            if oname == "gamma":
                                continue
                            n += 1
                            plans = [[] for _ in range(ki)] + [S.plan(key, p)]
                            jid = "%s.%d.%d.o%d" % (nm, il, modes[0], n)
                            line = dline(jid, nm, il, modes[0], None, rng.randrange(1, 2 ** 31), 1, plans=plans, tplan=[None] * no + [(lo + hi) / 2]) + suffix
                            out.append((line, {"kind": "cascade-outcome-" + oname, "iso": nm, "level": il, "mode": modes[0],
                                               "sig": S.path_sig(key, p) + "#%d.%d=%s" % (ei, ij, oname), "id": jid}))
    return out


def run_shard(exe, lines, wd, i):
    rc, out = vlib.sh([exe, "--sch-trace", os.path.join(wd, "sch%d.ndjson" % i), "--bb-trace", os.path.join(wd, "bb%d.ndjson" % i)],
                      input="\n".join(lines) + "\n", timeout=2400, env=vlib.harness_env("plain"))
    res = []
    for l in out.splitlines():
        if l.startswith("{"):
            try:
                res.append(json.loads(l))
            except ValueError:
                pass
    return rc, res, out[-1500:]


def validate(module, tracefile):
    r = vlib.tlc(module, module + ".cfg", workers=1, env={"TRACE": tracefile}, timeout=1500, xmx="6g")
    m = re.search(r'furthest-line", (\d+), "of", (\d+)', r.out)
    return r, (int(m.group(1)), int(m.group(2))) if m else None


def run(tier, replay):
    ck = vlib.Check(PID, "model_checking", tier)
    thorough = tier == "thorough"
    rng = random.Random(ck.seed)
    S = sch.Schemes()
    exe = c01.cosim_exe()
    if replay:
        obj = json.load(open(replay))
        wd = vlib.workdir("c02r")
        rc, res, tail = run_shard(exe, [obj["replay"]["job"]], wd, 0)
        bad = [r for r in res if r["cls"] not in ("agree", "knife-edge-excluded", "ref-fermi-clamp-excluded")]
        print(json.dumps(bad or res[:3], indent=1))
        return 1 if bad else 0
    # ---- 1. models
    r = vlib.tlc("MCBB", "MCBB.cfg" if thorough else "MCBB_quick.cfg", workers=8, timeout=900)
    if r.error:
        raise vlib.InfraError(r.error)
    ck.tlc_stats(r, "MCBB")
    if r.violated:
        ck.violation("model:BB:" + r.violated, "BB.tla violates %s" % r.violated, {"trace": r.trace[-4:]})
    r = vlib.tlc("MCScheme", "MCScheme.cfg", workers=8, timeout=600)
    if r.error:
        raise vlib.InfraError(r.error)
    ck.tlc_stats(r, "MCScheme")
    if r.violated:
        ck.violation("model:Scheme:" + r.violated, "Scheme.tla violates %s" % r.violated, {"trace": r.trace[-4:]})
    # ---- 2. jobs
    tab = S.tab["table"]
    low = S.tab["low"]
    chains = S.tab["chains"]["dbd"]
    triples = []
    for ent in tab:
        for il, lv in enumerate(ent["levels"]):
            for m in range(1, 21):
                triples.append((ent, il, lv, m))
    nev = 20 if thorough else 6
    if not thorough:
        chain_iso = {"Bi214", "Pb214", "Po218", "Rn222"}
        keep = [t for t in triples if t[0]["name"] in chain_iso]
        rest = [t for t in triples if t[0]["name"] not in chain_iso]
        triples = keep + rng.sample(rest, 700)
    jobs, meta = [], {}

    def add(line, m):
        jid = line.split()[1]
        jobs.append(line)
        meta[jid] = dict(m, job=line)
    n = 0
    for (ent, il, lv, m) in triples:
        n += 1
        jid = "%s.%d.%d.r%d" % (ent["name"], il, m, n)
        nme = None
        if m == 18:
            # NMEs chosen so that the chip_P**2/9 term of the angular coefficient is not swamped: chip_R = rksi*chip_P/6
            e0 = e0_of(ent, lv, m)
            a = float(ent["A"])
            rr = 3.107526e-3 * a ** (1.0 / 3.0)
            rksi = 3.0 / 137.036 * float(ent["Z"]) + rr * (e0 / EMASS + 1.0)
            nme = [1.0, 0.0, 0.0, 0.0, 0.0, 6.0, rksi] if n % 2 else [0.7, 0.3, 1.1, 0.4, 0.2, 0.9, 0.6]
        add(dline(jid, ent["name"], il, m, None, rng.randrange(1, 2 ** 31), nev, nme=nme),
            {"kind": "random", "iso": ent["name"], "level": il, "mode": m})
        if m in WINDOW_MODES and (thorough or n % 7 == 0):
            e0 = e0_of(ent, lv, m)
            if e0 > 0.05:
                for w in ((0.25 * e0, 0.75 * e0), (0.5 * e0, 4.3), (0.0, 0.4 * e0)):
                    n += 1
                    add(dline("%s.%d.%d.w%d" % (ent["name"], il, m, n), ent["name"], il, m, (round(w[0], 6), round(w[1], 6)),
                              rng.randrange(1, 2 ** 31), nev),
                        {"kind": "window", "iso": ent["name"], "level": il, "mode": m})
    # every window-capable mode at least twice with a proper sub-window (the reported full-range/window ratio and the clamped
    # window are compared with the reference at initialisation), whatever the random sample above contains
    byname = {e_["name"]: e_ for e_ in tab}
    for (iso_, il_, modes_) in (("Mo100", 0, (4, 5, 6, 13, 14, 15, 19)), ("Mo100", 1, (8, 16)), ("Nd150", 0, (4, 5, 6, 13, 14, 15, 19)),
                                 ("Nd150", 1, (8, 16)), ("Cd106", 0, (10,)), ("Ru96", 0, (10,))):
        ent_ = byname[iso_]
        lv_ = ent_["levels"][il_]
        for m_ in modes_:
            e0_ = e0_of(ent_, lv_, m_)
            for w_ in ((0.3 * e0_, 0.7 * e0_), (0.55 * e0_, 0.95 * e0_)):
                n += 1
                add(dline("%s.%d.%d.v%d" % (iso_, il_, m_, n), iso_, il_, m_, (round(w_[0], 6), round(w_[1], 6)), rng.randrange(1, 2 ** 31), 2),
                    {"kind": "window-per-mode", "iso": iso_, "level": il_, "mode": m_})
    # every cascade path of every (daughter routine, level), under one or two modes the level's spin allows
    done_paths = set()
    for ent in tab:
        nm = ent["name"]
        for il, lv in enumerate(ent["levels"]):
            if nm in chains and len(chains[nm]) > 1:
                keys = [S.by_lower.get(c["call"].lower() + "@0") or S.key_of_call(c["call"]) for c in chains[nm]]
            elif nm in low:
                keys = ["%s@%d" % (S.by_lower[low[nm].lower() + "@%d" % lv["E"]].split("@")[0], lv["E"])] \
                    if (low[nm].lower() + "@%d" % lv["E"]) in S.by_lower else []
            else:
                keys = []
            if not keys:
                continue
            modes = [1, 4] if lv["spin"] == 0 else [7, 8] if lv["spin"] == 2 else [3]
            if float(ent["Z"]) < 0:
                modes = [12] + modes[:1]
            if not thorough:
                modes = modes[:1]
            for ki, key in enumerate(keys):
                if key not in S.data:
                    continue
                paths = S.all_paths(key)
                if len(paths) <= 1 and ki == 0 and len(keys) == 1 and lv["E"] == 0:
                    continue
                for p in paths:
                    for m in modes:
                        n += 1
                        plans = [[] for _ in range(ki)] + [S.plan(key, p)]
                        add(dline("%s.%d.%d.p%d" % (nm, il, m, n), nm, il, m, None, rng.randrange(1, 2 ** 31), 1, plans=plans),
                            {"kind": "cascade-path", "iso": nm, "level": il, "mode": m, "sig": S.path_sig(key, p)})
                        done_paths.add(S.path_sig(key, p))
    # ... and every conversion / pair outcome of every transition of the daughter routines
    for (l_, m_) in cascade_jobs(S, rng, 1):
        if m_["kind"].startswith("cascade-outcome"):
            add(l_, {"kind": m_["kind"], "iso": m_["iso"], "level": m_["level"], "mode": m_["mode"], "sig": m_["sig"]})
    nshards = 8
    shards = [jobs[i::nshards] for i in range(nshards)]
    # a caller-owned parameter block in use (legacy interface): ONE bbpars block initialised again and again through
    # genbbsub(ISTART_INIT) without being reset - other window, other level, other nuclide, other mode, same mode again.
    # Every initialisation (ratio, clamped window) and every event must still agree with the reference.
    chain = [("Mo100", 0, 4, (2.0, 4.3)), ("Mo100", 0, 4, (2.5, 4.3)), ("Mo100", 0, 4, None), ("Mo100", 2, 4, None), ("Mo100", 2, 4, (0.5, 1.5)),
             ("Se82", 0, 4, None), ("Se82", 0, 4, (1.0, 2.0)), ("Se82", 0, 1, None), ("Mo100", 0, 1, None), ("Mo100", 1, 7, None),
             ("Cd106", 0, 10, (0.3, 0.6)), ("Cd106", 0, 10, None), ("Cd106", 1, 10, None), ("Mo100", 0, 13, (1.5, 2.5)), ("Mo100", 0, 13, None),
             ("Nd150", 0, 13, None), ("Nd150", 0, 20, None), ("Zr96", 0, 20, None), ("Zr96", 0, 5, (1.0, 3.0)), ("Zr96", 0, 5, None),
             ("Mo100", 0, 4, (2.0, 4.3))]
    clines = []
    for ci, (iso_, lev_, mode_, win_) in enumerate(chain * (3 if thorough else 1)):
        jid = "%s.%d.%d.k%d" % (iso_, lev_, mode_, ci)
        line = dline(jid, iso_, lev_, mode_, win_, 4242 + ci, 4) + " K"
        clines.append(line)
        meta[jid] = {"kind": "block-in-use", "iso": iso_, "level": lev_, "mode": mode_, "job": line, "chain": clines[:]}
    shards.append(clines)
    nshards += 1
    wd = vlib.workdir("c02")
    results = []
    with cf.ThreadPoolExecutor(max_workers=nshards) as ex:
        futs = [ex.submit(run_shard, exe, shards[i], wd, i) for i in range(nshards)]
        for i, f in enumerate(futs):
            rc, res, tail = f.result()
            if rc != 0:
                done = {x["id"].split(":")[0] for x in res}
                nxt = [l for l in shards[i] if l.split()[1] not in done]
                ck.violation("cosim-crash", "co-simulation harness died (rc=%s): %s" % (rc, tail[-600:]), {"job": nxt[0] if nxt else None})
                # the trace files of a shard that died end inside an execution: validate what is complete
                for tf_ in (os.path.join(wd, "sch%d.ndjson" % i), os.path.join(wd, "bb%d.ndjson" % i)):
                    c01.trim_trace(tf_)
            results += res
    # ---- 3. classify
    cls_count = collections.Counter()
    accepted = set()
    sigs = set()
    for rj in results:
        jid, part = rj["id"].split(":", 1)
        m = meta[jid]
        cls = rj["cls"]
        if part == "init":
            if rj.get("ier_ref") == 0 and rj.get("ier_port") == 0:
                accepted.add((m["iso"], m["level"], m["mode"]))
            if cls == "init-verdict":
                # named deviation (see DbdRules.tla, FourBetaGroundOnly): the port refuses 4b to excited levels
                if m["mode"] == 20 and m["level"] > 0 and rj["ier_port"] != 0 and rj["ier_ref"] == 0:
                    cls_count["4b-excited-level-refused(named deviation)"] += 1
                    continue
            elif cls == "agree":
                cls_count["init-agree" if rj.get("ier_ref") == 0 else "init-both-refuse"] += 1
                continue
        cls_count[cls] += 1
        if rj.get("sig"):
            sigs.add(rj["sig"])
        if cls in ("agree", "knife-edge-excluded", "ref-fermi-clamp-excluded"):
            continue
        det = rj["detail"]
        site = ""
        if cls == "trace":
            mm = re.search(r"port (\S+?)\(", det)
            m2 = re.search(r"reference (\S+?)\(", det)
            site = "%s/%s" % (mm.group(1) if mm else "-", m2.group(1) if m2 else "-")
        key = "%s.%d:mode%d:%s:%s" % (m["iso"], m["level"], m["mode"], cls, site)
        ck.violation(key, "%s level %d mode %d [%s] %s: %s" % (m["iso"], m["level"], m["mode"], m["kind"], rj["id"], det),
                     {"job": m["job"], "result": rj})
    # ---- 3b. the accept/reject boundary of the first-lepton rejection test (spmax * u <= spthe1[k]): for a grid of trial
    #      energies from the first to the last table bin the port's own boundary r = spthe1[k]/spmax is read from its trace, then
    #      the trial is replayed on port and reference with the ordinate deviate just below and just above r: both programs
    #      take the same decision, i.e. the tabulated first-lepton spectra agree bin by bin (to 3e-6 for the modes without
    #      quadrature, 3e-3 for the quadrature-based window modes - above the co-simulation's knife-edge margins)
    UB = [1e-9, 1e-4, 1e-3, 3e-3, 0.01, 0.03, 0.1, 0.2, 0.35, 0.5, 0.65, 0.8, 0.9, 0.97, 0.99, 0.999, 1 - 1e-6]
    pcfg = []
    for (iso_, il_, modes_) in (("Mo100", 0, (1, 2, 3, 4, 5, 6, 13, 14, 15, 17, 18, 19)), ("Mo100", 1, (3, 7, 8, 16)), ("Cd106", 0, (1, 3, 4, 10)),
                                 ("Nd150", 0, (1, 4, 13)), ("Ca48", 0, (1, 2, 4, 15)), ("Te130", 0, (1, 5, 19)), ("Ru96", 0, (10,)), ("Zn70", 0, (1, 4))):
        for m_ in modes_:
            pcfg.append((iso_, il_, m_))
    if not thorough:
        pcfg = rng.sample(pcfg, 14)
    aj, am = [], {}
    for ci, (iso_, il_, m_) in enumerate(pcfg):
        for ui, u1 in enumerate(UB):
            jid = "%s.%d.%d.bq%d_%d" % (iso_, il_, m_, ci, ui)
            aj.append(dline(jid, iso_, il_, m_, None, 77 + ci, 1, bbplan=[u1, 0.999999, 0.5, 1e-12]))
            am[jid] = (iso_, il_, m_, u1, ci)
    atf = os.path.join(wd, "bb_a.trace")
    na = 8
    with cf.ThreadPoolExecutor(max_workers=na) as ex:
        def ash(i):
            return vlib.sh([exe, "--trace", atf + ".%d" % i], input="\n".join(aj[i::na]) + "\n", timeout=2400, env=vlib.harness_env("plain"))
        for rc_, out_ in ex.map(ash, range(na)):
            if rc_ != 0:
                ck.violation("cosim-crash:bb-probe", "co-simulation harness died on the first-lepton boundary probes (rc=%s): %s" % (rc_, out_[-500:]), None)
    bnd = {}
    for i in range(na):
        cur = None
        if not os.path.exists(atf + ".%d" % i):
            continue
        for l in open(atf + ".%d" % i):
            if '"Reset"' in l:
                cur = json.loads(l)["id"].rsplit(":", 1)[0]
            elif cur and '"bb_trial1"' in l and cur not in bnd:
                a = [float(x) for x in json.loads(l)["a"]]
                bnd[cur] = (a[0], int(a[1]), a[2], a[3])      # e1, k, spmax, spthe1[k]
    bj, bm = [], {}
    for jid, (iso_, il_, m_, u1, ci) in am.items():
        if jid not in bnd:
            continue
        e1_, k_, spmax_, sp_ = bnd[jid]
        if not (spmax_ > 0) or sp_ < 0:
            continue
        r_ = sp_ / spmax_
        dl = 3e-3 if (m_ in (4, 5, 6, 8) or m_ >= 13) and m_ not in (17, 18) else 3e-6
        for tag, u2, then in (("lo", r_ - dl, None), ("hi", r_ + dl, (0.5, 1e-12))):
            if (tag == "lo" and not u2 > 1e-300) or (tag == "hi" and not (u2 < 1.0 and r_ > 0)):
                continue
            j2 = "%s.%s" % (jid, tag)
            line = dline(j2, iso_, il_, m_, None, 77 + ci, 1, bbplan=[u1, u2] + (list(then) if then else []))
            bj.append(line)
            bm[j2] = (iso_, il_, m_, u1, e1_, k_, r_, tag, line)
    bres2 = []
    with cf.ThreadPoolExecutor(max_workers=na) as ex:
        def bsh(i):
            return vlib.sh([exe], input="\n".join(bj[i::na]) + "\n", timeout=2400, env=vlib.harness_env("plain"))
        for rc_, out_ in ex.map(bsh, range(na)):
            if rc_ != 0:
                ck.violation("cosim-crash:bb-probe", "co-simulation harness died on the first-lepton boundary probes (rc=%s): %s" % (rc_, out_[-500:]), None)
            bres2 += [json.loads(l) for l in out_.splitlines() if l.startswith("{")]
    nbp = 0
    for rj in bres2:
        jid = rj["id"].rsplit(":", 1)[0]
        if rj["id"].endswith(":init") or jid not in bm:
            continue
        nbp += 1
        (iso_, il_, m_, u1, e1_, k_, r_, tag, line) = bm[jid]
        if rj["cls"] in ("agree", "knife-edge-excluded", "ref-fermi-clamp-excluded"):
            continue
        ck.violation("%s.%d:mode%d:spectrum-boundary" % (iso_, il_, m_),
                     "%s level %d mode %d: first-lepton trial at e1 = %.9g MeV (table bin %d): the port accepts up to spthe1/spmax = %.12g; with the "
                     "ordinate deviate just %s it, port and reference take different decisions: %s %s" % (
                         iso_, il_, m_, e1_, k_, r_, "below" if tag == "lo" else "above", rj["cls"], rj["detail"][:200]),
                     {"job": line, "result": rj})
    # ---- 3c. the same for the second lepton of the window modes (f2max * u <= fe2(e2)): first lepton accepted at a planned energy,
    #      second-lepton trial at a planned energy, ordinate deviate 1e-5 below / above the port's own boundary fe2/f2max.  fe2 and the
    #      majorant are plain function evaluations (no quadrature): port and reference agree to rounding, so the knife-edge margin of
    #      these jobs is 1e-7.  Windows with a positive lower bound put the maximum of the second-lepton spectrum on an edge.
    p2cfg = []
    for (iso_, il_, modes_) in (("Mo100", 0, (4, 5, 6, 13, 14, 15, 19)), ("Mo100", 1, (8, 16)), ("Nd150", 0, (4, 19))):
        ent_ = byname[iso_]
        lv_ = ent_["levels"][il_]
        for m_ in modes_:
            e0_ = e0_of(ent_, lv_, m_)
            for w_ in ((0.6 * e0_, 0.95 * e0_), (0.3 * e0_, 4.3), None):
                p2cfg.append((iso_, il_, m_, None if w_ is None else (round(w_[0], 6), round(w_[1], 6))))
    if not thorough:
        p2cfg = [c_ for c_ in p2cfg if c_[2] in (4, 19)] + rng.sample([c_ for c_ in p2cfg if c_[2] not in (4, 19)], 8)
    a2, am2 = [], {}
    for ci, (iso_, il_, m_, w_) in enumerate(p2cfg):
        for u1 in (0.05, 0.2, 0.4, 0.6):
            for ue2 in (1e-6, 0.02, 0.3, 0.7, 0.98, 1 - 1e-6):
                jid = "%s.%d.%d.cq%d_%d" % (iso_, il_, m_, ci, len(a2))
                a2.append(dline(jid, iso_, il_, m_, w_, 91 + ci, 1, bbplan=[u1, 1e-12, ue2, 0.999999, 0.5, 1e-12]))
                am2[jid] = (iso_, il_, m_, w_, u1, ue2, ci)
    atf2 = os.path.join(wd, "bb_a2.trace")
    with cf.ThreadPoolExecutor(max_workers=na) as ex:
        def ash2(i):
            return vlib.sh([exe, "--trace", atf2 + ".%d" % i], input="\n".join(a2[i::na]) + "\n", timeout=2400, env=vlib.harness_env("plain"))
        for rc_, out_ in ex.map(ash2, range(na)):
            if rc_ != 0:
                ck.violation("cosim-crash:bb-probe", "co-simulation harness died on the second-lepton boundary probes (rc=%s): %s" % (rc_, out_[-500:]), None)
    bnd2 = {}
    for i in range(na):
        cur = None
        if not os.path.exists(atf2 + ".%d" % i):
            continue
        for l in open(atf2 + ".%d" % i):
            if '"Reset"' in l:
                cur = json.loads(l)["id"].rsplit(":", 1)[0]
            elif cur and '"bb_trial2"' in l and cur not in bnd2:
                a = [float(x) for x in json.loads(l)["a"]]
                bnd2[cur] = (a[0], a[1], a[2])      # e2, fe2, f2max
    b2, bm2 = [], {}
    for jid, (iso_, il_, m_, w_, u1, ue2, ci) in am2.items():
        if jid not in bnd2:
            continue
        e2_, fe2_, f2max_ = bnd2[jid]
        if not (f2max_ > 0) or fe2_ < 0:
            continue
        r_ = fe2_ / f2max_
        for tag, u2, then in (("lo", r_ - 1e-5, None), ("hi", r_ + 1e-5, (0.5, 1e-12))):
            if (tag == "lo" and not u2 > 1e-300) or (tag == "hi" and not (u2 < 1.0 and r_ > 0)):
                continue
            j2 = "%s.%s" % (jid, tag)
            line = dline(j2, iso_, il_, m_, w_, 91 + ci, 1, bbplan=[u1, 1e-12, ue2, u2] + (list(then) if then else []), knife=1e-7)
            b2.append(line)
            bm2[j2] = (iso_, il_, m_, w_, e2_, r_, tag, line)
    bres3 = []
    with cf.ThreadPoolExecutor(max_workers=na) as ex:
        def bsh2(i):
            return vlib.sh([exe], input="\n".join(b2[i::na]) + "\n", timeout=2400, env=vlib.harness_env("plain"))
        for rc_, out_ in ex.map(bsh2, range(na)):
            if rc_ != 0:
                ck.violation("cosim-crash:bb-probe", "co-simulation harness died on the second-lepton boundary probes (rc=%s): %s" % (rc_, out_[-500:]), None)
            bres3 += [json.loads(l) for l in out_.splitlines() if l.startswith("{")]
    nbp2 = 0
    for rj in bres3:
        jid = rj["id"].rsplit(":", 1)[0]
        if rj["id"].endswith(":init") or jid not in bm2:
            continue
        nbp2 += 1
        (iso_, il_, m_, w_, e2_, r_, tag, line) = bm2[jid]
        if rj["cls"] in ("agree", "knife-edge-excluded", "ref-fermi-clamp-excluded"):
            continue
        ck.violation("%s.%d:mode%d:second-lepton-boundary" % (iso_, il_, m_),
                     "%s level %d mode %d window %s: second-lepton trial at e2 = %.9g MeV: the port accepts up to fe2/f2max = %.12g; with the ordinate "
                     "deviate 1e-5 %s it, port and reference take different decisions (their majorants or spectra differ): %s %s" % (
                         iso_, il_, m_, w_, e2_, r_, "below" if tag == "lo" else "above", rj["cls"], rj["detail"][:200]),
                     {"job": line, "result": rj})
    ck.set("second_lepton_boundary_probes", nbp2)
    ck.set("first_lepton_spectra_probed", len(pcfg))
    ck.set("first_lepton_boundary_probes", nbp)
    # ---- 4. TLC trace validation
    lines_total = 0
    with cf.ThreadPoolExecutor(max_workers=4) as ex:
        futs = {}
        for i in range(nshards):
            futs[("MCTraceScheme", i)] = ex.submit(validate, "MCTraceScheme", os.path.join(wd, "sch%d.ndjson" % i))
            futs[("MCTraceBB", i)] = ex.submit(validate, "MCTraceBB", os.path.join(wd, "bb%d.ndjson" % i))
        for (mod, i), f in futs.items():
            rr, fl = f.result()
            if fl is None:
                raise vlib.InfraError("%s: %s" % (mod, rr.error or rr.out[-800:]))
            ck.tlc_stats(rr, None)
            lines_total += fl[1]
            if rr.violated and rr.violated != "postcondition":
                ck.violation("tracespec:%s:%s" % (mod, rr.violated), "%s: invariant %s violated on an observed step (line %d)" % (
                    mod, rr.violated, fl[0]), {"file": os.path.join(wd, ("sch%d" if "Scheme" in mod else "bb%d") % i + ".ndjson")})
            elif fl[0] <= fl[1]:
                tf = os.path.join(wd, ("sch%d" if "Scheme" in mod else "bb%d") % i + ".ndjson")
                ls = open(tf).read().splitlines()
                ln = fl[0]
                start = ln - 1
                while start > 0 and '"Reset"' not in ls[start - 1]:
                    start -= 1
                ctx = ls[max(0, start - 1):ln + 1]
                ent = [json.loads(x) for x in ctx if '"Enter"' in x]
                what = ("mode%s" % ent[0].get("mode")) if ent and "mode" in ent[0] else (ent[0].get("s") if ent else "?")
                bad = json.loads(ls[ln - 1]) if ln - 1 < len(ls) else {}
                # the three missing daughter routines make the cascade trace of those isotopes stop short - already reported
                ck.violation("%s:tracespec:%s:%s" % (mod, what, bad.get("p", bad.get("e", "?"))),
                             "%s rejects the recorded execution at line %d: %s (execution: %s)" % (mod, ln, ls[ln - 1] if ln - 1 < len(ls) else "?",
                                                                                                " ".join(ctx)[:500]), {"trace": ctx})
    ck.set("evaluations", len(results))
    ck.set("traces_validated_against_impl", len([r_ for r_ in results if not r_["id"].endswith(":init")]))
    ck.set("trace_lines_validated_by_tlc", lines_total)
    ck.set("configurations_tried", len(triples))
    ck.set("configurations_accepted_by_both", len(accepted))
    ck.set("cascade_paths_steered", len(done_paths))
    ck.set("distinct_nontrivial", len(accepted) + len(done_paths))
    ck.set("distinct_port_call_signatures", len(sigs))
    ck.set("classes", dict(cls_count))
    ck.set("exhaustive", thorough)
    ck.set("rule", "every (isotope, level, mode) of the reference's table is submitted to both programs (quick: the 4 alpha-chain isotopes "
                   "+ 700 seeded triples); accepted ones are shot %d times with common deviates, window-capable modes also with 3 windows, mode 18 "
                   "with two NME sets; every cascade path of every daughter level is steered once per listed mode; distinct = accepted "
                   "configurations + distinct cascade paths; non-trivial = the reference accepts the configuration" % nev)
    for rj in results[:2] + results[-2:]:
        ck.sample({"job": meta[rj["id"].split(":")[0]]["job"][:140], "id": rj["id"], "class": rj["cls"], "calls": rj.get("sig", "")[:160]})
    ck.assumptions += ["compiled reference = Decay0 2020-04-20 text with REAL widened to 8 bytes; CERNLIB GAUSS/DGMLT/DIVDIF re-implemented in ref/cern.f",
                       "full-range/window ratio compared to 1e-5 (windows in a spectrum tail amplify rounding; 3e-4 for mode 10: two different adaptive quadratures); rejection trials closer "
                       "than 1e-6 (1e-3 for the quadrature-tabulated modes) to their boundary are excluded and counted",
                       "named deviations: Decay0's fermi() raises an energy below 50 eV to 50 eV in place (events with such a lepton excluded); "
                       "the port refuses quadruple-beta decay to excited levels (reference message says g.s. to g.s. but does not enforce it)"]
    return ck.finish()
