"""C08 - no undefined behaviour or memory error on any generation path.

A TLA+ model decides nothing about memory safety; what the specifications contribute is (a) the inputs - the behaviours
of History.tla (event-object reuse patterns, with and without a registered operation), the scheme paths of SchData.tla
(every edge of every scheme), the accepted configurations of DbdRules/BB - executed in the ASan+UBSan build with
uninitialised automatic variables pattern-filled (-ftrivial-auto-var-init=pattern), and (b) one fact the sanitizers cannot
see: the two spectrum tables live in one struct, so an index past the end of the first is invisible to ASan - BB.tla proves
k <= imax + 1 <= 4300 for every tabulated Q (TLC) and TraceBB evaluates the same invariant on the logged (k, imax) of every
trial.  Any sanitizer report in any replay is a violation."""
import concurrent.futures as cf
import json
import os
import random
import re

import c01
import c02
import c07
import catalogue
import schemes as sch
import vlib

PID = "C08"


def report_key(out):
    m = re.search(r"ERROR: AddressSanitizer: ([\w-]+)", out)
    kind = m.group(1) if m else None
    if not kind:
        m = re.search(r"runtime error: ([^\n]{0,80})", out)
        # (addresses and values are not part of the identity of a report)
        kind = "ubsan:" + re.sub(r"[^A-Za-z ]", "", re.sub(r"0x[0-9a-fA-F]+|\d+", "", m.group(1))).strip().replace(" ", "-")[:40] if m else "sanitizer"
    fr = re.findall(r"#\d+ 0x[0-9a-f]+ in ([\w:~<>]+)", out)
    fr = [f for f in fr if not f.startswith(("__", "operator", "std::", "malloc", "free", "vh::"))]
    m2 = re.search(r"(\w+\.(?:cc|cpp|h)):\d+", out[out.find("runtime error") - 200:out.find("runtime error")]) if "runtime error" in out else None
    where = fr[0] if fr else (m2.group(1) if m2 else "?")
    return "%s:%s" % (kind, where)


def run(tier, replay):
    ck = vlib.Check(PID, "exploration", tier)
    thorough = tier == "thorough"
    rng = random.Random(ck.seed)
    S = sch.Schemes()
    wd = vlib.workdir("c08")
    env = vlib.harness_env("asan")
    # ---- the model-level fact: table index bound
    r = vlib.tlc("MCBB", "MCBB.cfg" if thorough else "MCBB_quick.cfg", workers=8, timeout=900)
    if r.error:
        raise vlib.InfraError(r.error)
    ck.tlc_stats(r, "MCBB(IndexInTable)")
    if r.violated:
        ck.violation("model:BB:" + r.violated, "BB.tla violates %s" % r.violated, {"trace": r.trace[-3:]})
    # ---- 1. History behaviours under ASan/UBSan
    results = c07.explore(ck, tier, ["asan"], ["asan"], "c08h")
    for rr in results:
        if rr.get("crash"):
            ck.violation(report_key(rr["out"]), "sanitizer report / crash in %s: %s" % (rr["phase"], rr["out"][-1500:]), {"phase": rr["phase"]})
            continue
        ck.add("evaluations", rr["sequences"])
        ck.add("history_steps_under_sanitizers", rr["steps"])
        for v in rr["violations"]:
            ck.violation("history:" + v["key"], v["what"], {"sequence": v["seq"]})
    # ---- 2. every edge of every scheme, daughters, seeded events, double-beta configurations: co-simulation harness in ASan
    exe = c01.cosim_exe("asan")
    pub = {n.split("+")[0]: n for n in catalogue.lis_background()}
    jobs = []
    n = 0
    for base, chain in S.bkg_names(port_only=True).items():
        k0 = chain[0][0]
        wit = S.witness_paths(k0)
        if not thorough:
            wit = rng.sample(wit, min(len(wit), 25))
        for (_, p) in wit:
            n += 1
            jobs.append(sch.bjob("%s.%d" % (base, n), pub.get(base, base), rng.randrange(1, 2 ** 31), [S.plan(k0, p)]))
            # all nuclear transitions of the path steered at once (all converted / all gammas / alternating): particle indices
            # remembered across two transitions (angular-correlation blocks) are only all defined for some joint outcomes
            for pat, tp in S.joint_outcome_tplans(k0, p).items():
                if thorough or pat in ("all-K", "alt-K-gamma", "alt-gamma-K"):
                    n += 1
                    jobs.append(sch.bjob("%s.%d" % (base, n), pub.get(base, base), rng.randrange(1, 2 ** 31), [S.plan(k0, p)], tplan=tp))
    for name in catalogue.lis_background():
        for _ in range(30 if thorough else 5):
            n += 1
            jobs.append(sch.bjob("%s.%d" % (name.split("+")[0], n), name, rng.randrange(1, 2 ** 31), []))
    tab = S.tab["table"]
    triples = [(ent, il, lv, m) for ent in tab for il, lv in enumerate(ent["levels"]) for m in range(1, 21)]
    for (ent, il, lv, m) in rng.sample(triples, 1500 if thorough else 250):
        n += 1
        win = None
        if m in c02.WINDOW_MODES and rng.random() < 0.5:
            e0 = c02.e0_of(ent, lv, m)
            if e0 > 0.05:
                win = (round(0.9 * e0, 6), 4.3) if rng.random() < 0.5 else (round(0.2 * e0, 6), round(0.6 * e0, 6))
        jobs.append(c02.dline("%s.%d.%d.d%d" % (ent["name"], il, m, n), ent["name"], il, m, win, rng.randrange(1, 2 ** 31), 3))
    # every cascade path of every daughter level, each into a brand-new event object (reallocation while filling)
    jobs += [l_ for (l_, m_) in c02.cascade_jobs(S, rng, 1)]
    # the beta-spectrum samplers at the edges of their energy range: the first beta call of a witness path gets its first trial
    # energy steered to the lowest / highest energies (interpolation tables of the shape factors, Fermi function at 50 eV)
    BETA_ = ("beta", "beta1", "beta2", "beta_1fu")
    seen_b = set()
    for base, chain in S.bkg_names(port_only=True).items():
        k0 = chain[0][0]
        for (_ei, p_) in S.witness_paths(k0):
            first = None
            for e_i in p_:
                for it in S.data[k0]["edges"][e_i]["items"]:
                    if it[0] == "call":
                        first = it
                        break
                if first:
                    break
            if not first or first[1] not in BETA_:
                continue
            sig_ = (first[1],) + tuple(first[2][:2]) + tuple(first[2][5:])
            if sig_ in seen_b:
                continue
            seen_b.add(sig_)
            if not thorough and len(seen_b) > 150:
                break
            for u1_ in (1e-12, 1e-9, 1e-6, 1e-4, 1e-3, 5e-3, 0.02, 0.5, 1 - 1e-6, 1 - 1e-12):
                n += 1
                jobs.append(sch.bjob("%s.b%d" % (base, n), pub.get(base, base), 7000 + n, [S.plan(k0, p_)], betaplan=[u1_, 1e-12, 0.5, 1e-12]))
    # the first-lepton table at its edges: trial energies steered into the first bins (deviates 1e-9 ... 1e-3 of the end point) and the
    # last ones, for every mode that samples from the table; the logged bin of every trial is checked by TraceBB (1 <= k <= 4300)
    for (iso_, il_, modes_) in (("Mo100", 0, (1, 2, 3, 4, 5, 6, 13, 14, 15, 17, 18, 19)), ("Mo100", 1, (7, 8, 16)), ("Cd106", 0, (10,)), ("Ca48", 0, (1, 4))):
        for m_ in modes_:
            for u1_ in (1e-12, 1e-9, 1e-6, 1e-4, 2e-4, 5e-4, 1e-3, 1 - 1e-4, 1 - 1e-9, 1 - 1e-12):
                n += 1
                jobs.append(c02.dline("%s.%d.%d.e%d" % (iso_, il_, m_, n), iso_, il_, m_, None, 4000 + n, 1, bbplan=[u1_, 1e-12, 0.5, 1e-12]))
    nsh = 8

    def shard(i):
        rc, out = vlib.sh([exe, "--bb-trace", os.path.join(wd, "bb%d.ndjson" % i), "--ix-trace", os.path.join(wd, "ix%d.ndjson" % i)],
                          input="\n".join(jobs[i::nsh]) + "\n", timeout=2400, env=env)
        res = [l for l in out.splitlines() if l.startswith("{")]
        return rc, len(res), out
    nres = 0
    with cf.ThreadPoolExecutor(max_workers=nsh) as ex:
        for i, (rc, cnt, out) in enumerate(ex.map(shard, range(nsh))):
            nres += cnt
            if rc == 124:
                # the shard ran into the harness's own time limit: no statement about memory safety (bounded work is C04's)
                raise vlib.InfraError("generation shard %d timed out under ASan (machine too loaded?)" % i)
            if rc != 0:
                ck.violation(report_key(out), "sanitizer report / crash while generating (rc=%s): %s" % (rc, out[-1800:]),
                             {"jobs_done": cnt, "shard": jobs[i::nsh][:3]})
    ck.add("evaluations", nres)
    ck.set("generation_jobs_under_sanitizers", len(jobs))
    # ---- 2b. the table subscripts the code noted (interpolation tables): inside their tables (spec/Index.tla)
    ixl = []
    for i in range(nsh):
        f_ = os.path.join(wd, "ix%d.ndjson" % i)
        if os.path.exists(f_):
            ixl += [l_ for l_ in open(f_).read().splitlines() if l_.strip()]
    if not ixl and not ck.violations:
        # (a generation harness that died under a sanitizer report writes no subscript summary: the report above is the finding)
        raise vlib.InfraError("no table subscript was noted by the library (hook in divdif.cc missing?)")
    if ixl:
        ixf = os.path.join(wd, "ix_all.ndjson")
        open(ixf, "w").write("\n".join(ixl) + "\n")
        ri = vlib.tlc("Index", "Index.cfg", workers=1, env={"TRACE": ixf}, timeout=300)
        if ri.error:
            raise vlib.InfraError("Index: " + ri.error)
        ck.tlc_stats(ri, "Index(noted table subscripts)")
        ck.set("table_subscripts_noted", sum(json.loads(l_)["count"] for l_ in ixl))
        if ri.violated or ri.depth < len(ixl):
            bad = ixl[min(ri.depth, len(ixl) - 1)]
            ck.violation("index:out-of-table:" + "%s:%s" % (json.loads(bad)["base"], json.loads(bad)["n"]),
                         "a table subscript noted by the code lies outside its table (base, size, smallest and largest subscript of the run): %s" % bad,
                         {"line": bad})
    # ---- 3. the logged table index of every first-lepton trial
    for i in range(nsh):
        tf = os.path.join(wd, "bb%d.ndjson" % i)
        if not os.path.exists(tf) or os.path.getsize(tf) == 0:
            continue
        # a shard that died leaves a truncated log: keep the complete executions only
        ls_ = open(tf).read().split("\n")
        while ls_ and not ls_[-1].rstrip().endswith('"Leave"}'):
            ls_.pop()
        if not ls_:
            continue
        open(tf, "w").write("\n".join(ls_) + "\n")
        rr, fl = c02.validate("MCTraceBB", tf)
        if fl is None:
            raise vlib.InfraError("TraceBB: " + (rr.error or rr.out[-500:]))
        ck.tlc_stats(rr, None)
        if rr.violated and rr.violated != "postcondition":
            ck.violation("tracebb:" + rr.violated, "TraceBB: %s violated on a recorded trial" % rr.violated, {"file": tf})
        elif fl[0] <= fl[1]:
            ls = open(tf).read().splitlines()
            ck.violation("tracebb:rejected", "TraceBB rejects a recorded sampler execution at line %d: %s" % (fl[0], ls[fl[0] - 1] if fl[0] - 1 < len(ls) else "?"),
                         {"file": tf, "line": fl[0]})
    # ---- 4. the momentum-direction-lock operation: every case of TLC's graph of MDL.tla (species sequences of length 0..4 x filter x
    #      rank -1..3 x error flag x cone x entry point; a rank equal to / beyond the number of particles is among them), each applied to a
    #      brand-new event object in the ASan build with libstdc++'s container annotations (an access past size() is reported even
    #      when the vector has spare capacity)
    import c10
    dump = os.path.join(wd, "mdl")
    rm = vlib.tlc("MCMDL", "MCMDL.cfg", dump=dump, workers=8, timeout=600)
    if rm.error:
        raise vlib.InfraError(rm.error)
    ck.tlc_stats(rm, "MCMDL (case graph)")
    mcases, _applied = c10.load_cases(dump + ".dot")
    os.remove(dump + ".dot")
    chosen = [mcases[k] for k in sorted(mcases)]
    rng.shuffle(chosen)
    cpath = os.path.join(wd, "mdl_cases.txt")
    with open(cpath, "w") as f:
        for c_ in chosen:
            f.write(c10.case_line(c_) + "\n")
    mexe = vlib.compile_harness("mdl_replay", ["harness/mdl_replay.cc"], "asan")
    nm = 8
    mbudget = 400 if thorough else 45
    done = 0
    with cf.ThreadPoolExecutor(max_workers=nm) as ex:
        futs = [ex.submit(c10.run_harness, mexe, ["--cases", cpath, "--variants", "2" if thorough else "1", "--edge-mod", "4", "--shard", str(i), str(nm),
                                                "--seed", str(ck.seed + 3), "--budget", str(mbudget)], vlib.harness_env("asan"), mbudget + 200)
                for i in range(nm)]
        for i, f_ in enumerate(futs):
            rr_ = f_.result()
            if rr_.get("crash"):
                if rr_["rc"] in (124, 3):
                    raise vlib.InfraError("mdl_replay(asan) shard %d failed (rc=%s): %s" % (i, rr_["rc"], rr_["out"][-800:]))
                ck.violation("mdl:" + report_key(rr_["out"]), "sanitizer report / crash while applying the momentum-direction-lock operation (rc=%s): %s"
                             % (rr_["rc"], rr_["out"][-1800:]), {"mode": "mdl", "shard": i})
            else:
                done += rr_.get("cases_done", 0)
    # ---- 5. the gA sampler and decoder (modes 21-24): the datasets C14 derives from GaCodec.tla / GaSampler.tla (every cell of
    #      every small table, deviates on / one ulp around / between all table values, the deviate 0), through the real
    #      decoder, both shooting methods and one re-used dbd_gA object, in the ASan build
    import c14
    gmodels = c14.run_models(ck, thorough)
    if gmodels is not None:
        gcases, gpicks = gmodels
        groot = os.path.join(wd, "garoot")
        os.makedirs(groot, exist_ok=True)
        gdss, _gm = c14.build_datasets(ck, gcases, gpicks, thorough, rng)
        ggood, _lists = c14.encode_and_match(ck, gdss, gcases, groot, wd)
        if not thorough:
            ggood = ggood[::3]
        gpp = os.path.join(wd, "gpicks.txt")
        with open(gpp, "w") as f:
            for (tab_, r_), idx_ in gpicks.items():
                f.write("%d %s %d %d\n" % (len(tab_), " ".join(str(c_) for c_ in tab_), r_, idx_))
        gexe = vlib.compile_harness("ga_replay", ["harness/ga_replay.cc"], "asan")
        genv = dict(vlib.harness_env("asan"))
        genv["BXDECAY0_DBD_GA_DATA_DIR"] = groot
        ng = 8
        gdone = 0
        with cf.ThreadPoolExecutor(max_workers=ng) as ex:
            gf = []
            for i in range(ng):
                sh_ = ggood[i::ng]
                if not sh_:
                    continue
                jp = os.path.join(wd, "gajob%d.txt" % i)
                c14.write_job(jp, sh_, gpp)
                gf.append((i, len(sh_), ex.submit(c14.run_harness, gexe, ["--job", jp, "--root", groot], genv, 2400 if thorough else 600)))
            for i, nds, fu in gf:
                rr_ = fu.result()
                if rr_.get("crash"):
                    if rr_["rc"] == 124:
                        raise vlib.InfraError("ga_replay(asan) shard %d timed out" % i)
                    ck.violation("ga:" + report_key(rr_["out"]), "sanitizer report / crash in the gA decoder / sampler (rc=%s): %s" % (
                        rr_["rc"], rr_["out"][-1800:]), {"mode": "ga", "shard": i})
                else:
                    gdone += nds
        ck.set("ga_datasets_under_sanitizers", gdone)
        ck.add("evaluations", gdone)
    ck.set("mdl_cases_in_model", len(chosen))
    ck.set("mdl_cases_under_sanitizers", done)
    ck.add("evaluations", done)
    ck.set("traces_validated_against_impl", ck.cov.get("evaluations", 0))
    ck.set("distinct_nontrivial", ck.cov.get("evaluations", 0))
    ck.set("exhaustive", False)
    ck.set("rule", "History.tla behaviours (cover of every (state, action) pair + walks, with and without an MDL operation), one witness path per "
                   "scheme edge of every reference nuclide (quick: 25 per nuclide), seeded events of all published names, seeded double-beta "
                   "configurations incl. windows at the end of the table - all in the ASan+UBSan build; distinct = jobs/sequences; non-trivial = "
                   "at least one event generated")
    ck.sample({"generation_job": jobs[0][:140]})
    ck.sample("Create(g1,Co60) ; Shoot(g1,e1,s1) ; EventPrefill(e1) ; Shoot(g1,e1,s2)")
    ck.assumptions += ["ASan+UBSan (clang 14) and pattern-initialised automatic variables are the oracle; reads of uninitialised heap are not detected (no MSan)",
                       "the reader, loader, driver and Geant4-action replays run under the same sanitizers inside C11, C15, C13 and C17",
                       "ASan build with -D_GLIBCXX_SANITIZE_VECTOR (library and harnesses): accesses beyond a vector's size() are reported"]
    return ck.finish()
