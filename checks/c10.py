"""C10 - momentum-direction lock only re-orients (rigid rotation into the requested cone).

Decided by spec/MDL.tla: the discrete semantics of momentum_direction_lock_event_op (which particles are selected,
which outcome, which indices may change, the target index, the deviate ledger).  TLC checks the code-shaped Apply
action against the declarative statement of the property for every (event shape x configuration) case and exports
the case graph.  harness/mdl_replay.cc instantiates every case with seeded numbers, applies the real operation and
compares with the model (expected values come from TLC's graph); the geometric side-conditions are evaluated in
floating point.  Generator-level runs and events beyond the model bounds are recorded as ndjson traces and decided
by TLC (spec/TraceMDL.tla)."""
import concurrent.futures as cf
import json
import os
import random
import re
import shutil

import vlib

PID = "C10"
NPAR = 4

_node_re = re.compile(r'^(-?\d+) \[label="(.*?)",(?:tooltip|style)')
_F = {k: re.compile(p) for k, p in dict(
    filter=r'filter \|-> (-?\d+)', rank=r'rank \|-> (-?\d+)', err=r'err \|-> (TRUE|FALSE)',
    cone=r'cone \|-> \\"(\w+)\\"', entry=r'entry \|-> \\"(\w+)\\"', species=r'species = <<([^>]*)>>',
    kind=r'kind \|-> \\"(\w+)\\"', target=r'target \|-> (-?\d+)', may=r'may \|-> \{([^}]*)\}',
    inc=r'cone \|-> \{([^}]*)\}', acc=r'acc \|-> (\d+)', last=r'last \|-> (-?\d+)', draws=r'draws = (\d+)').items()}


def _mask(s):
    m = 0
    for t in s.replace(" ", "").split(","):
        if t:
            m |= 1 << int(t)
    return m


def load_cases(dot):
    """TLC's dot dump -> {(entry, filter, rank, err, cone, species tuple): case dict}; every 'applied' state of the
    graph is one (case, k) pair, k = rejected rectangular trials."""
    cases = {}
    applied = 0
    with open(dot) as f:
        for line in f:
            if " -> " in line[:48]:
                continue
            m = _node_re.match(line)
            if not m:
                continue
            lab = m.group(2)
            if 'phase = \\"applied\\"' not in lab:
                continue
            applied += 1
            d = {}
            for k, r in _F.items():
                mm = r.search(lab)
                if not mm:
                    raise vlib.InfraError("cannot parse field %s of TLC state: %s" % (k, lab[:400]))
                d[k] = mm.group(1)
            sp = tuple(int(x) for x in d["species"].replace(" ", "").split(",") if x)
            key = (d["entry"], int(d["filter"]), int(d["rank"]), d["err"] == "TRUE", d["cone"], sp)
            out = (d["kind"], int(d["target"]), _mask(d["may"]), _mask(d["inc"]), int(d["acc"]), int(d["last"]))
            c = cases.get(key)
            if c is None:
                cases[key] = {"key": key, "out": out, "draws": {int(d["draws"])}}
            else:
                if c["out"] != out:
                    raise vlib.InfraError("model is not functional in (conf, event): %s -> %s / %s" % (key, c["out"], out))
                c["draws"].add(int(d["draws"]))
    return cases, applied


def case_line(c):
    (entry, flt, rank, err, cone, sp) = c["key"]
    (kind, target, may, inc, acc, last) = c["out"]
    return "C %s %d %d %d %s %d %s %s %d %d %d %d" % (entry, flt, rank, 1 if err else 0, cone, len(sp),
                                                     " ".join(str(s) for s in sp), kind, target, may, inc, acc)


def run_harness(exe, args, env, timeout):
    rc, out = vlib.sh([exe] + args, timeout=timeout, env=env)
    last = [l for l in out.splitlines() if l.startswith("{")]
    if rc != 0 or not last:
        return {"crash": True, "rc": rc, "out": out[-3000:]}
    try:
        return json.loads(last[-1])
    except ValueError:
        return {"crash": True, "rc": rc, "out": out[-3000:]}


def parse_replay_string(s):
    m = re.match(r"(C .*) \| variant (\d+) edge (\d+)$", s)
    if m:
        return {"mode": "case", "line": m.group(1), "variant": int(m.group(2)), "edge": int(m.group(3))}
    return {"mode": "phase", "detail": s}


def merge(ck, results, seed, force_conv=None):
    """Violations of the harness runs -> ck; the rectangular-window orientation convention is decided over the whole run."""
    tot = {"rect_checks": 0, "rect_fail_A": 0, "rect_fail_B": 0}
    rect = {"A": [], "B": []}
    for res in results:
        if res.get("crash"):
            tag = res["phase"].split()[0]
            if res["rc"] in (124, 3):
                raise vlib.InfraError("harness failed in phase %s (rc=%s): %s" % (res["phase"], res["rc"], res["out"][-1500:]))
            ck.violation("crash:" + tag, "harness died (rc=%s) in phase %s: %s" % (res["rc"], res["phase"], res["out"][-2500:]),
                         {"mode": "phase", "phase": res["phase"], "args": res.get("args"), "output": res["out"]})
            continue
        for k in tot:
            tot[k] += res[k]
        for k, v in res["counters"].items():
            ck.add(k, v)
        rect["A"] += res["rectA"]
        rect["B"] += res["rectB"]
        for v in res["violations"]:
            rp = parse_replay_string(v["replay"])
            rp.update({"seed": seed, "phase": res["phase"], "args": res.get("args")})
            ck.violation(v["key"], v["what"] + " [%d occurrence(s) in this shard]" % v["count"], rp)
    conv = None
    if tot["rect_checks"]:
        conv = force_conv or ("A" if tot["rect_fail_A"] <= tot["rect_fail_B"] else "B")
        if (tot["rect_fail_" + conv] > 0) if force_conv else (min(tot["rect_fail_A"], tot["rect_fail_B"]) > 0):
            for v in rect[conv]:
                rp = parse_replay_string(v["replay"])
                rp.update({"seed": seed, "convention": conv})
                ck.violation(v["key"], v["what"] + " [%d occurrence(s) in this shard; orientation convention %s: first half-angle in the %s plane]"
                             % (v["count"], conv, "meridian" if conv == "A" else "parallel"), rp)
    for k, v in tot.items():
        ck.add(k, v)
    ck.set("rect_window_orientation", {"A": "first half-angle measured in the meridian plane of the axis (code as read)",
                                       "B": "first half-angle measured along the parallel", None: "n/a"}[conv])
    return tot


def validate_traces(ck, path, label, seed, timeout=600):
    """TLC decides the recorded executions; a rejected execution is reported and cut out, then TLC runs again."""
    lines = open(path).read().splitlines()
    # a harness that died while recording (reported as a crash by merge()) leaves a partial last line: keep whole executions only
    def whole(l):
        try:
            json.loads(l)
            return True
        except ValueError:
            return False
    if lines and not whole(lines[-1]):
        lines.pop()
        while lines and not lines[-1].startswith('{"e":"Reset"'):
            lines.pop()
        if lines:
            lines.pop()
    total_exec = sum(1 for l in lines if l.startswith('{"e":"Reset"'))
    accepted = 0
    for attempt in range(6):
        if not lines:
            break
        wd = vlib.workdir("c10-trace")
        p = os.path.join(wd, "trace.ndjson")
        with open(p, "w") as f:
            f.write("\n".join(lines) + "\n")
        r = vlib.tlc("TraceMDL", "TraceMDL.cfg", workers=1, env={"TRACE": p}, timeout=timeout, xmx="6g")
        if r.error:
            raise vlib.InfraError("TraceMDL: " + r.error + " | " + r.out[-2500:])
        ck.tlc_stats(r, "TraceMDL(%s)#%d" % (label, attempt))
        shutil.rmtree(wd, ignore_errors=True)
        if r.violated is None:
            accepted += sum(1 for l in lines if l.startswith('{"e":"Reset"'))
            break
        if r.violated != "postcondition":
            ck.violation("trace:model:" + r.violated, "TraceMDL invariant %s violated on a recorded execution" % r.violated,
                         {"mode": "phase", "phase": label, "trace": r.trace[-2:]})
            break
        bad = max(r.depth, 1) - 1          # 0-based index of the line TLC could not take
        bad = min(bad, len(lines) - 1)
        lo = bad
        while lo > 0 and not lines[lo - 1].startswith('{"e":"Reset"'):
            lo -= 1
        hi = bad
        while hi < len(lines) - 1 and not lines[hi].startswith('{"e":"Reset"'):
            hi += 1
        execu = lines[lo:hi + 1]
        try:
            cfgl = json.loads(execu[0])
            key = "trace-rejected:%s:%s:%s" % (label, cfgl.get("entry"), cfgl.get("cone"))
        except ValueError:
            key = "trace-rejected:%s" % label
        ck.violation(key, "TLC (TraceMDL) rejects a recorded execution of the real operation at its step %d: %s ; configuration %s"
                     % (bad - lo, lines[bad], execu[0]), {"mode": "phase", "phase": label, "seed": seed, "execution": execu,
                                                        "rejected_line": lines[bad]})
        accepted += sum(1 for l in lines[:lo] if l.startswith('{"e":"Reset"'))
        lines = lines[hi + 1:]
    ck.add("trace_executions_accepted_by_tlc", accepted)
    return total_exec, accepted


def run_replay(ck, path):
    obj = json.load(open(path))
    rp = obj.get("replay") or {}
    seed = rp.get("seed", obj.get("seed", ck.seed))
    exe = vlib.compile_harness("mdl_replay", ["harness/mdl_replay.cc"], "plain")
    if rp.get("mode") == "case":
        wd = vlib.workdir("c10-replay")
        cf_ = os.path.join(wd, "case.txt")
        open(cf_, "w").write(rp["line"] + "\n")
        rc, out = vlib.sh([exe, "--cases", cf_, "--only-variant", str(rp["variant"]), "--only-edge", str(rp["edge"]),
                           "--seed", str(seed), "--verbose"], timeout=120, env=vlib.harness_env("plain"))
        print(out[-6000:])
        last = [l for l in out.splitlines() if l.startswith("{")]
        if rc != 0 or not last:
            raise vlib.InfraError("replay harness failed rc=%s" % rc)
        res = json.loads(last[-1])
        res["phase"] = "replay"
        ck.set("states", 1)
        ck.set("transitions", 1)
        merge(ck, [res], seed, force_conv=rp.get("convention"))
        ck.set("evaluations", 1)
        ck.set("traces_validated_against_impl", 1)
        # a single-case replay must not replace the evidence of the last full run
        evp = os.path.join(vlib.EVID, PID + ".json")
        keep = open(evp).read() if os.path.exists(evp) else None
        rc = ck.finish()
        if keep is not None:
            open(evp, "w").write(keep)
        return rc
    print("replay of a whole phase: re-running the check (tier %s, seed %s)" % (obj.get("tier"), seed))
    os.environ["VERIF_SEED"] = str(seed)
    return run(obj.get("tier", "quick"), None)


def run(tier, replay):
    ck = vlib.Check(PID, "model_checking", tier)
    if replay:
        return run_replay(ck, replay)
    thorough = tier == "thorough"
    seed = ck.seed
    wd = vlib.workdir("c10")

    # ---- 1. the model: every (event shape x configuration) case, invariants = the discrete part of the statement
    dump = os.path.join(wd, "mdl")
    r = vlib.tlc("MCMDL", "MCMDL.cfg", dump=dump, workers=NPAR, timeout=600)
    if r.error:
        raise vlib.InfraError(r.error)
    ck.tlc_stats(r, "MCMDL(MaxLen=4, 6 filters, ranks -1..3, 2 cones, 3 entry points, MaxRej=1)")
    if r.violated:
        ck.violation("model:" + r.violated, "MDL.tla violates %s on the model" % r.violated, {"trace": r.trace})
        return ck.finish()
    r2 = vlib.tlc("MCMDL", "MCMDLchain.cfg", workers=2, timeout=600)
    if r2.error:
        raise vlib.InfraError(r2.error)
    ck.tlc_stats(r2, "MCMDLchain(MaxLen=2, Chain=TRUE: the same operation applied to successive events)")
    if r2.violated:
        ck.violation("model:chain:" + r2.violated, "MDL.tla (Chain) violates %s" % r2.violated, {"trace": r2.trace})
        return ck.finish()
    cases, applied = load_cases(dump + ".dot")
    try:
        os.remove(dump + ".dot")
    except OSError:
        pass
    ck.set("model_cases", len(cases))
    ck.set("model_applied_states", applied)
    allc = [cases[k] for k in sorted(cases)]
    nontrivial = [c for c in allc if c["out"][0] in ("RotateAll", "Force")]
    trivial = [c for c in allc if c["out"][0] not in ("RotateAll", "Force")]
    ck.set("model_cases_nontrivial", len(nontrivial))

    # ---- 2. which cases are replayed
    rnd = random.Random(seed)
    if thorough:
        chosen = allc
        variants, edge_mod, budget = 24, 8, 540
        rnd.shuffle(chosen)
    else:
        chosen = rnd.sample(nontrivial, min(4500, len(nontrivial))) + rnd.sample(trivial, min(1500, len(trivial)))
        rnd.shuffle(chosen)
        variants, edge_mod, budget = 4, 4, 40
    cpath = os.path.join(wd, "cases.txt")
    with open(cpath, "w") as f:
        for c in chosen:
            f.write(case_line(c) + "\n")

    # ---- 3. replay on the real operation (NPAR processes; one shard of the quick sample also under ASan/UBSan)
    exe = vlib.compile_harness("mdl_replay", ["harness/mdl_replay.cc"], "plain")
    exe_asan = vlib.compile_harness("mdl_replay", ["harness/mdl_replay.cc"], "asan")
    results = []
    tpath = {m: os.path.join(wd, m + ".ndjson") for m in ("gen", "random")}
    gen_events, gen_confs, nrandom = (3000, 12, 250000) if thorough else (150, 4, 4000)
    with cf.ThreadPoolExecutor(max_workers=NPAR) as ex:
        futs = []
        for i in range(NPAR):
            args = ["--cases", cpath, "--variants", str(variants), "--edge-mod", str(edge_mod), "--shard", str(i), str(NPAR),
                    "--seed", str(seed), "--budget", str(budget)]
            futs.append(("cases shard %d/%d" % (i, NPAR), args, ex.submit(run_harness, exe, args, vlib.harness_env("plain"), budget + 120)))
        for (ph, args, f) in futs:
            rr = f.result()
            rr["phase"], rr["args"] = ph, args
            results.append(rr)
        futs = []
        # ASan/UBSan pass over a slice of the cases (serves C08 too)
        nas = 16 if thorough else 6
        args = ["--cases", cpath, "--variants", "2", "--edge-mod", str(edge_mod), "--shard", "0", str(nas * NPAR), "--seed", str(seed + 1),
                "--budget", str(budget)]
        futs.append(("cases(asan) slice 1/%d" % (nas * NPAR), args, ex.submit(run_harness, exe_asan, args, vlib.harness_env("asan"), budget + 120)))
        args = ["--gen", "--gen-events", str(gen_events), "--gen-confs", str(gen_confs), "--seed", str(seed), "--trace", tpath["gen"]]
        futs.append(("generator level", args, ex.submit(run_harness, exe, args, vlib.harness_env("plain"), 600)))
        args = ["--random", str(nrandom), "--seed", str(seed), "--trace", tpath["random"]]
        futs.append(("random beyond-bounds", args, ex.submit(run_harness, exe, args, vlib.harness_env("plain"), 600)))
        args = ["--gen", "--gen-events", "40", "--gen-confs", "2", "--seed", str(seed + 2)]
        futs.append(("generator(asan)", args, ex.submit(run_harness, exe_asan, args, vlib.harness_env("asan"), 600)))
        for (ph, args, f) in futs:
            rr = f.result()
            rr["phase"], rr["args"] = ph, args
            results.append(rr)
    merge(ck, results, seed)

    # which cases were actually executed (a shard stops at its time budget)
    done_keys = set()
    complete = True
    for i in range(NPAR):
        res = results[i]
        if res.get("crash"):
            complete = False
            continue
        mine = [c for j, c in enumerate(chosen) if j % NPAR == i]
        for c in mine[:res["cases_done"]]:
            done_keys.add(c["key"])
        if not res["complete"]:
            complete = False
    done_nontrivial = sum(1 for k in done_keys if cases[k]["out"][0] in ("RotateAll", "Force"))
    ck.set("cases_replayed", len(done_keys))
    ck.set("cases_replayed_nontrivial", done_nontrivial)

    # ---- 4. recorded executions decided by TLC
    texec = 0
    for m in ("gen", "random"):
        if os.path.exists(tpath[m]) and os.path.getsize(tpath[m]) > 0:
            n, acc = validate_traces(ck, tpath[m], m, seed, timeout=900)
            texec += n
    ck.set("trace_executions_recorded", texec)

    # ---- evidence
    ck.set("evaluations", ck.cov.get("applications", 0))
    ck.set("traces_validated_against_impl", len(done_keys) + ck.cov.get("trace_executions_accepted_by_tlc", 0))
    ck.set("distinct_nontrivial", done_nontrivial)
    ck.set("rule", "cases = states of TLC's graph of MDL.tla: distinct (species sequence of length 0..4 over {gamma,e+,e-,alpha}) x (filter in "
                   "{any,gamma,e+,e-,alpha,neutron}, rank -1..3, error flag, circular/rectangular cone, entry point axis/angles/degrees); "
                   "%s; each replayed with %d seeded numeric instantiations (6 fixed + random axes, apertures {0,0.1,pi/4,pi/2-1e-6,3.0,random}, "
                   "half-angles {0.05,0.3,1.2}^2 + random, degenerate windows on 1/%d of the rectangular cases); non-trivial = the model's outcome is "
                   "RotateAll or Force (at least one particle selected); evaluations = applications of the real operation incl. generator level"
                   % ("all of them" if thorough else "a seeded sample (3/4 non-trivial)", variants, edge_mod))
    ck.set("exhaustive", bool(thorough and complete and len(done_keys) == len(cases)))
    ck.set("variants_per_case", variants)
    for c in (chosen[:5] if chosen else []):
        (entry, flt, rank, err, cone, sp) = c["key"]
        (kind, target, may, inc, acc, last) = c["out"]
        ck.sample({"configuration": {"entry": entry, "filter": flt, "rank": rank, "error_on_missing": err, "cone": cone},
                   "event_species": list(sp),
                   "model": {"outcome": kind, "target": target, "may_change": [i for i in range(8) if (may >> i) & 1],
                             "must_be_in_cone": [i for i in range(8) if (inc >> i) & 1], "accepted_directions": acc,
                             "draws": sorted(c["draws"])}})
    if os.path.exists(tpath["gen"]):
        with open(tpath["gen"]) as f:
            ls = [next(f, "").strip() for _ in range(3)]
        ck.sample({"generator_level_trace_head": ls})
    ck.assumptions += [
        "TLC explores MDL.tla completely for the constants of MCMDL.cfg; longer events / other species only through trace validation of sampled executions",
        "momenta, axes and apertures are sampled (seeded), not enumerated: geometric clauses hold on the instantiations tried, tolerance 1e-12 (angle in rad, |p| and Gram entries relative)",
        "the rectangular window is the pyramid |projected angle| <= half-angle in the frame (e_theta, e_phi) at the cone axis; either assignment of the two half-angles to the two planes is accepted as long as one of them holds on the whole run",
        "entry-point equivalence is compared at 1e-9 relative (another rounding of degree->radian is allowed)",
        "deviate ledger: 2 deviates per accepted direction + 2 per rejected rectangular trial, none when nothing is selected (documented sampling scheme)",
        "zero-momentum particles and axes closer than 5 degrees to a pole with phi != 0 are not generated (direction / window orientation undefined there)",
    ]
    shutil.rmtree(wd, ignore_errors=True)      # replay files are self-contained
    return ck.finish()
