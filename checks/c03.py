"""C03 - every double-beta event closes its energy budget against the Q value and honours the window.

Model level (TLC): Scheme.tla!CascadeClosure - every de-excitation cascade of every tabulated daughter level releases the
level energy (3 keV + 1 keV per transition); BB.tla - the window algebra of the sampler (e1+e2 inside [ebb1, ebb2], = e0 for
the neutrinoless modes).  Observed level: every event produced for the accepted configurations (all isotopes, levels, modes,
with and without windows, plus the BxDecay0-only gA modes on a mounted synthetic dataset) is projected through the public
API only and validated by TLC against Event.tla (ledger never above Q, closure for the neutrinoless modes, leptons inside
the window); chains of nested windows are initialised and the reported ratios validated against Window.tla."""
import collections
import concurrent.futures as cf
import json
import os
import random
import re

import c01
import c02
import schemes as sch
import vlib

PID = "C03"


def validate(module, cfg, tracefile):
    r = vlib.tlc(module, cfg, workers=1, env={"TRACE": tracefile}, timeout=1500, xmx="6g")
    m = re.search(r'furthest-line", (\d+), "of", (\d+)', r.out)
    return r, (int(m.group(1)), int(m.group(2))) if m else None


def locate(tracefile, ln):
    """id and header of the event containing line ln"""
    ls = open(tracefile).read().splitlines()
    i = min(ln, len(ls)) - 1
    while i > 0 and '"Begin"' not in ls[i]:
        i -= 1
    h = json.loads(ls[i]) if ls else {}
    j = i + 1
    while j < len(ls) and '"Begin"' not in ls[j]:
        j += 1
    return h, ls[i:j]


def cut(tracefile, ident):
    """remove the events whose id starts with ident (a configuration)"""
    ls = open(tracefile).read().splitlines()
    out, skip = [], False
    for x in ls:
        if '"Begin"' in x:
            skip = json.loads(x)["id"].rsplit(":", 1)[0] == ident
        if not skip:
            out.append(x)
    open(tracefile, "w").write("\n".join(out) + "\n")


def run(tier, replay):
    ck = vlib.Check(PID, "model_checking", tier)
    thorough = tier == "thorough"
    rng = random.Random(ck.seed)
    S = sch.Schemes()
    wd = vlib.workdir("c03")
    # ---- 1. model level
    r = vlib.tlc("MCScheme", "MCSchemeBudget.cfg", workers=1, cont=True, timeout=600)
    if r.error:
        raise vlib.InfraError(r.error)
    ck.tlc_stats(r, "MCScheme(CascadeClosure, all daughter cascades)")
    for blk in r.out.split("Error: Invariant CascadeClosure is violated.")[1:]:
        m = re.search(r'sch = "([^"]+)"', blk)
        ev = re.findall(r"evis = (\d+)", blk.split("Error:")[1] if "Error:" in blk else blk)
        if m:
            ck.violation("cascade-closure:" + m.group(1), "Scheme.tla!CascadeClosure: a cascade of %s releases %s eV, level is %s keV" % (
                m.group(1), ev[-1] if ev else "?", m.group(1).split("@")[1]), {"scheme": m.group(1)})
    r = vlib.tlc("MCBB", "MCBB.cfg" if thorough else "MCBB_quick.cfg", workers=8, timeout=900)
    if r.error:
        raise vlib.InfraError(r.error)
    ck.tlc_stats(r, "MCBB(window algebra)")
    if r.violated:
        ck.violation("model:BB:" + r.violated, "BB.tla violates %s" % r.violated, {"trace": r.trace[-3:]})
    # ---- 2. events of the accepted configurations (through genbbsub, as C02 does) with and without windows
    exe = c01.cosim_exe()
    tab = S.tab["table"]
    triples = [(ent, il, lv, m) for ent in tab for il, lv in enumerate(ent["levels"]) for m in range(1, 21)]
    if not thorough:
        triples = rng.sample(triples, 900)
    nev = 12 if thorough else 5
    jobs = []
    n = 0
    for (ent, il, lv, m) in triples:
        n += 1
        jobs.append(c02.dline("%s.%d.%d.r%d" % (ent["name"], il, m, n), ent["name"], il, m, None, rng.randrange(1, 2 ** 31), nev))
        if m in c02.WINDOW_MODES:
            e0 = c02.e0_of(ent, lv, m)
            if e0 > 0.05:
                w = rng.choice(((0.25 * e0, 0.75 * e0), (0.5 * e0, 4.3), (0.0, 0.4 * e0), (0.45 * e0, 0.55 * e0)))
                n += 1
                jobs.append(c02.dline("%s.%d.%d.w%d" % (ent["name"], il, m, n), ent["name"], il, m, (round(w[0], 6), round(w[1], 6)),
                                      rng.randrange(1, 2 ** 31), nev))
    # every cascade path of every daughter level (steered): the rare branches close the budget as well
    jobs += [l_ for (l_, m_) in c02.cascade_jobs(S, rng, 2 if thorough else 1)]
    nsh = 8
    shards = [jobs[i::nsh] for i in range(nsh)]
    # the three nuclides of the quadruple-beta mode back to back in ONE process, in both orders: the four electrons carry the
    # energy release of THIS nuclide (and the same for the 2nuKb+ / 2K modes of three capture nuclides)
    seqjobs = []
    for k_, (iso_, il_, m_) in enumerate([("Nd150", 0, 20), ("Zr96", 0, 20), ("Xe136", 0, 20), ("Nd150", 0, 20), ("Xe136", 0, 20), ("Zr96", 0, 20),
                                         ("Cd106", 0, 12), ("Ru96", 0, 12), ("Kr78", 0, 12), ("Cd106", 0, 12), ("Cd106", 0, 9), ("Ru96", 0, 9), ("Cd106", 0, 9),
                                         ("Mo100", 0, 1), ("Se82", 0, 1), ("Mo100", 0, 1)]):
        if any(e_["name"] == iso_ for e_ in tab):
            seqjobs.append(c02.dline("%s.%d.%d.q%d" % (iso_, il_, m_, k_), iso_, il_, m_, None, 9000 + k_, 3))
    shards.append(seqjobs)
    nsh += 1

    def shard(i):
        rc, out = vlib.sh([exe, "--ev-trace", os.path.join(wd, "ev%d.ndjson" % i)], input="\n".join(shards[i]) + "\n", timeout=2400,
                          env=vlib.harness_env("plain"))
        return rc, out
    with cf.ThreadPoolExecutor(max_workers=nsh) as ex:
        for rc, out in ex.map(shard, range(nsh)):
            if rc != 0:
                ck.violation("cosim-crash", "co-simulation harness died (rc=%s): %s" % (rc, out[-500:]), None)
    # ---- 3. BxDecay0-only configurations: gA modes on a synthetic dataset, through decay0_generator
    bexe = vlib.compile_harness("budget_gen", ["harness/budget_gen.cc"], "plain")
    gadir = os.path.join(wd, "gadata")
    qof = {e["name"]: float(e["Q"]) for e in tab}
    glines = []
    for iso in ("Se82", "Mo100", "Cd116", "Nd150"):
        for proc, mode in (("g0", 21), ("g2", 22), ("g22", 23), ("g4", 24)):
            rc, out = vlib.sh(["python3", os.path.join(vlib.ROOT, "tools", "mk_ga_dataset.py"), gadir, iso, proc], timeout=120)
            if rc != 0:
                raise vlib.InfraError("mk_ga_dataset failed: " + out[-500:])
            glines.append("G %s.0.%d %s 0 %d x x %d %d %r" % (iso, mode, iso, mode, rng.randrange(1, 2 ** 31), 40 if thorough else 10, qof[iso]))
    # library layer for a sample of ordinary configurations too (float window truncation lives there)
    for (ent, il, lv, m) in rng.sample(triples, 150 if thorough else 40):
        if m in c02.WINDOW_MODES and c02.e0_of(ent, lv, m) > 0.05:
            e0 = c02.e0_of(ent, lv, m)
            glines.append("G %s.%d.%d.g %s %d %d %r %r %d %d" % (ent["name"], il, m, ent["name"], il, m, round(0.3 * e0, 5), round(0.8 * e0, 5),
                                                              rng.randrange(1, 2 ** 31), 5))
    env = vlib.harness_env("plain")
    env["BXDECAY0_DBD_GA_DATA_DIR"] = gadir
    rc, out = vlib.sh([bexe, "--ev-trace", os.path.join(wd, "ev_g.ndjson")], input="\n".join(glines) + "\n", timeout=1200, env=env)
    gres = [json.loads(l) for l in out.splitlines() if l.startswith("{")]
    if rc != 0 or len(gres) != len(glines):
        ck.violation("budget_gen-crash", "budget_gen died (rc=%s): %s" % (rc, out[-500:]), None)
    ga_ok = 0
    for g in gres:
        mode = int(g["id"].split(".")[2])
        if mode >= 21:
            if g["error"]:
                ck.violation("gA-refused:" + g["id"], "gA configuration %s refused on a mounted dataset: %s" % (g["id"], g["error"]), {"line": g["id"]})
            else:
                ga_ok += 1
    ck.set("gA_configurations_shot", ga_ok)
    # ---- 4. TLC validates every projected event
    files = [os.path.join(wd, "ev%d.ndjson" % i) for i in range(nsh)] + [os.path.join(wd, "ev_g.ndjson")]
    nevents = 0
    # the Q value of the ledger is the one of the table extracted from the reference (DbdTable), not the port's own
    qtab = {e["name"]: e for e in tab}
    for tf in files:
        if not os.path.exists(tf):
            continue
        out_l = []
        for x in open(tf).read().splitlines():
            if '"Begin"' in x:
                h = json.loads(x)
                iso = h["id"].split(".")[0]
                if iso in qtab and h["cat"] == "dbd":
                    e = qtab[iso]
                    q = float(e["Q4"]) if (h["mode"] == 20 and "Q4" in e) else float(e["Q"])
                    h["q"] = int(round(q * 1e8))
                    x = json.dumps(h, separators=(",", ":"))
            out_l.append(x)
        open(tf, "w").write("\n".join(out_l) + "\n")

    def one(tf):
        found = []
        cnt = open(tf).read().count('"Begin"')
        stats = None
        for guard in range(40):
            rr, fl = validate("MCEvent", "MCTraceEvent.cfg", tf)
            if fl is None:
                raise vlib.InfraError("TraceEvent: " + (rr.error or rr.out[-600:]))
            if stats is None:
                stats = rr
            if fl[0] > fl[1]:
                break
            # the state after line fl[0]-1 broke an invariant (or line fl[0] is not a legal continuation)
            h, evl = locate(tf, max(1, fl[0] - 1))
            if "id" not in h:
                raise vlib.InfraError("TraceEvent: cannot locate the rejected event at line %d of %s" % (fl[0], tf))
            cfgid = h.get("id", "?").rsplit(":", 1)[0]
            small = tf + ".one"
            open(small, "w").write("\n".join(evl) + "\n")
            r2, fl2 = validate("MCEvent", "MCTraceEventNamed.cfg", small)
            inv = r2.violated if (r2.violated and r2.violated != "postcondition") else "rejected"
            st = r2.trace[-1] if r2.trace else {}
            found.append((inv, cfgid, h, evl, st))
            cut(tf, cfgid)
        return stats, cnt, found
    with cf.ThreadPoolExecutor(max_workers=4) as ex:
        for stats, cnt, found in ex.map(one, files):
            ck.tlc_stats(stats, None)
            nevents += cnt
            for (inv, cfgid, h, evl, st) in found:
                iso, lvl, mode = (cfgid.split(".") + ["?", "?", "?"])[:3]
                if inv in ("Closure", "NeverAboveQ"):
                    key = "%s:%s:level%s" % (inv.lower(), iso, lvl)
                else:
                    key = "%s:%s.%s:mode%s" % (inv.lower(), iso, lvl, mode)
                ck.violation(key, "Event.tla!%s violated by event %s (Q=%s, mode %s, window %s..%s, visible=%s, lepton sum=%s, bad=%s)" % (
                    inv, h.get("id"), h.get("q"), h.get("mode"), h.get("ebb1"), h.get("ebb2"), st.get("vis"), st.get("lepsum"), st.get("bad")),
                    {"event": evl, "config": cfgid})
    ck.set("events_validated", nevents)
    # ---- 5. nested windows: ratio >= 1, = 1 for the full range, monotone
    wl = []
    cands = [(ent, il, lv, m) for (ent, il, lv, m) in triples if m in c02.WINDOW_MODES and m != 10 and lv["spin"] in (0, 2)]
    acc = []
    for (ent, il, lv, m) in cands:
        e0 = c02.e0_of(ent, lv, m)
        spin_ok = (lv["spin"] == 0 and m in (4, 5, 6, 13, 14, 15, 19)) or (lv["spin"] == 2 and m in (8, 16))
        if e0 > 0.2 and spin_ok and not (float(ent["Z"]) >= 0 and m in (9, 10, 11, 12)):
            acc.append((ent, il, lv, m, e0))
    for (ent, il, lv, m, e0) in rng.sample(acc, min(len(acc), 120 if thorough else 25)):
        c = rng.uniform(0.3, 0.7) * e0
        ws = []
        for f in (1.0, 0.8, 0.55, 0.3, 0.12):
            ws += [round(max(0.0, c - f * c), 6), round(min(e0, c + f * (e0 - c)), 6)]
        wl.append("W %s.%d.%d %s %d %d %d %s" % (ent["name"], il, m, ent["name"], il, m, len(ws) // 2, " ".join(repr(x) for x in ws)))
        # the same chain on ONE caller-owned parameter block of the legacy interface (genbbsub ISTART_INIT again and again)
        wl.append("V %s.%d.%d.plumbing %s %d %d %d %s" % (ent["name"], il, m, ent["name"], il, m, len(ws) // 2, " ".join(repr(x) for x in ws)))
    wtf = os.path.join(wd, "win.ndjson")
    rc, out = vlib.sh([bexe, "--win-trace", wtf], input="\n".join(wl) + "\n", timeout=1800, env=vlib.harness_env("plain"))
    wres = [json.loads(l) for l in out.splitlines() if l.startswith("{")]
    for g in wres:
        if g["error"]:
            ck.violation("window-chain-refused:" + g["id"], "a nested window of %s is refused: %s" % (g["id"], g["error"]), None)
    for guard in range(20):
        rr, fl = validate("TraceWindow", "TraceWindow.cfg", wtf)
        if fl is None:
            raise vlib.InfraError("TraceWindow: " + (rr.error or rr.out[-600:]))
        if guard == 0:
            ck.tlc_stats(rr, None)
        bad = rr.violated if rr.violated and rr.violated not in ("postcondition",) else None
        if not bad and fl[0] > fl[1]:
            break
        ls = open(wtf).read().splitlines()
        ln = max(1, fl[0] - 1)
        i = min(ln, len(ls)) - 1
        while i > 0 and '"Reset"' not in ls[i]:
            i -= 1
        ident = json.loads(ls[i]).get("id", "?")
        j = i + 1
        while j < len(ls) and '"Reset"' not in ls[j]:
            j += 1
        ck.violation("window-ratio:%s" % ident, "Window.tla (ratio >= 1, = 1 for the full range, monotone under narrowing) rejects the nested windows of %s: %s" % (
            ident, " ".join(ls[i:j])[:600]), {"chain": ls[i:j]})
        open(wtf, "w").write("\n".join(ls[:i] + ls[j:]) + "\n")
    # the ratios (and clamped windows) reported by a block in use are those of a fresh generator for the same request
    chains_seen = {}
    cur = None
    for x in open(wtf).read().splitlines():
        o = json.loads(x)
        if o["e"] == "Reset":
            cur = chains_seen.setdefault(o["id"], [])
        elif cur is not None:
            cur.append((o["e"], o.get("lo"), o.get("hi"), o["r"]))
    for cid, seq in chains_seen.items():
        if cid.endswith(".plumbing") or (cid + ".plumbing") not in chains_seen:
            continue
        pl = chains_seen[cid + ".plumbing"]
        for i_, (a_, b_) in enumerate(zip(seq, pl)):
            # decay0_generator stores the window bounds in single precision: bounds agree to 1e-6 relative (a few units of
            # 0.01 eV), the ratio to 1e-3 relative (a window deep in a tail amplifies that rounding)
            def close(u, v, rel, abs_):
                return (u is None and v is None) or (u is not None and v is not None and abs(u - v) <= max(abs_, rel * max(abs(u), abs(v))))
            same = a_[0] == b_[0] and close(a_[1], b_[1], 1e-6, 30) and close(a_[2], b_[2], 1e-6, 30) and close(a_[3], b_[3], 1e-3, 2)
            if not same:
                ck.violation("window-ratio-block-in-use:%s" % cid,
                             "request #%d of the nested-window chain of %s: a parameter block of the legacy interface that is initialised again "
                             "(genbbsub ISTART_INIT, same mode) reports window/ratio %s, a fresh generator reports %s" % (i_, cid, b_, a_),
                             {"chain": [list(t) for t in seq], "block_in_use": [list(t) for t in pl]})
                break
    ck.set("window_chains", len(wl))
    ck.set("evaluations", nevents + len(wl))
    ck.set("traces_validated_against_impl", nevents + len(wl))
    ck.set("configurations", len(triples))
    ck.set("distinct_nontrivial", len(triples) + len(wl) + ga_ok)
    ck.set("exhaustive", thorough)
    ck.set("rule", "events of every (isotope, level, mode) of the table the port accepts (quick: 900 seeded triples), one random window per "
                   "window-capable configuration, 16 gA configurations on a synthetic dataset, chains of 5 nested windows; distinct = "
                   "configurations + window chains; non-trivial = the configuration initialises")
    ck.sample({"job": jobs[0][:120]})
    ck.sample({"window_chain": wl[0] if wl else None})
    ck.sample({"gA": glines[0]})
    ck.assumptions += ["tolerance 3 keV + 1 keV per cascade step (tabulated level energy vs sum of transition energies)",
                       "visible energy = kinetic energies of charged particles + photon energies + 1.022 MeV per positron, from the public API",
                       "ratio monotonicity allows 2e-6 of quadrature noise between two initialisations; ratios are clipped at 2000"]
    return ck.finish()
