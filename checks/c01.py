"""C01 - background/calibration decays reproduce the Decay0 reference, draw for draw.

Specification: spec/Scheme.tla over the graphs extracted from the reference text (tools/f2ts.py -> SchData.tla).
TLC checks every scheme (guards tile, no cycle, capacity) and the graphs yield every scheme-level path.
Binding: each path becomes a deviate plan that steers the real genbbsub() into exactly that branch sequence
(harness/cosim.cc); the recorded scheme-level trace is validated by TLC against the same graphs (TraceScheme.tla)
and the same deviates are fed to the compiled reference, whose primitive-call trace and event must agree."""
import collections
import concurrent.futures as cf
import json
import os
import random

import schemes as sch
import vlib

PID = "C01"
QUICK_FIXED = ["Co60", "Bi207", "Bi214", "K40", "Tl208", "Y90"]


def published_names():
    res = {}
    p = os.path.join(vlib.repo(), "resources/description/background_isotopes.lis")
    for l in open(p):
        w = l.split()
        if w and not w[0].startswith("#"):
            res[w[0].split("+")[0]] = w[0]
    return res


def cosim_exe(variant="plain"):
    refdir = vlib.ref_dir()
    return vlib.compile_harness("cosim", ["harness/cosim.cc"], variant, extra=["-I", os.path.join(vlib.ROOT, "ref")],
                                libs=["-L", refdir, "-ldecay0ref", "-Wl,-rpath," + refdir])


def make_jobs(S, names, pub, tier, rng, nrandom, full_names):
    """-> dict name -> list of (job line, meta)"""
    jobs = collections.OrderedDict()
    for nm in names:
        chain = S.bkg_names()[nm]
        port_name = pub.get(nm, nm)
        lst = []
        jid = [0]

        def add(plans, meta, seed=None, pin=(-1, 0.5), tplan=None):
            jid[0] += 1
            i = "%s.%d" % (nm, jid[0])
            lst.append((sch.bjob(i, port_name, seed if seed is not None else rng.randrange(1, 2 ** 31), plans, pin, tplan),
                        dict(meta, id=i, name=nm)))
        k0 = chain[0][0]
        full = nm in full_names
        # every path of the parent scheme (or one witness per edge when not 'full')
        if full:
            paths = S.all_paths(k0)
            for p in paths:
                add([S.plan(k0, p)], {"kind": "path", "sig": S.path_sig(k0, p)})
        wit = S.witness_paths(k0)
        for (ei, p) in wit:
            if not full:
                add([S.plan(k0, p)], {"kind": "edge", "sig": S.path_sig(k0, p)})
            e = S.data[k0]["edges"][ei]
            if e["site"] is not None and full:
                for side in ("lo", "hi"):
                    add([S.plan(k0, p, (ei, side))], {"kind": "probe-" + side, "sig": S.path_sig(k0, p), "edge": ei})
        # every outcome (gamma / K, L, M conversion / pair) of every nuclear transition of the parent scheme, at the middle
        # of its deviate interval and just inside both ends
        wmap = dict(wit)
        for (ei, ij, prim, args) in S.transitions(k0):
            outs = S.transition_outcomes(prim, args)
            if not outs or ei not in wmap:
                continue
            p = wmap[ei]
            n = S.transition_ordinal(k0, p, ei, ij)
            for oname, (lo, hi) in outs.items():
                w = hi - lo
                for pos, v in (("mid", (lo + hi) / 2), ("lo", lo + min(w / 4, max(2e-6 * lo, 1e-11))), ("hi", hi - min(w / 4, max(2e-6 * hi, 1e-11)))):
                    if pos != "mid" and not full:
                        continue
                    add([S.plan(k0, p)], {"kind": "transition-%s-%s" % (oname, pos), "sig": S.path_sig(k0, p) + "#%d.%d=%s" % (ei, ij, oname)},
                        tplan=[None] * n + [v])
        # ... and all transitions of a path at once (all converted, all gammas, alternating): what a block that looks at two
        # transitions together (angular correlation, remembered particle indices) distinguishes
        for (ei, p) in wit:
            for pat, tp in S.joint_outcome_tplans(k0, p).items():
                if not full and pat not in ("all-K", "alt-K-gamma", "alt-gamma-K"):
                    continue
                add([S.plan(k0, p)], {"kind": "joint-" + pat, "sig": S.path_sig(k0, p) + "#" + pat}, tplan=tp)
        # daughters: every path of each daughter scheme behind a random non-alpha parent path
        for (kd, unless_alpha) in chain[1:]:
            cands = [p for p in (S.all_paths(k0, 200)) if not (unless_alpha and S.first_is_alpha(k0, p))]
            for pd in S.all_paths(kd):
                p0 = rng.choice(cands)
                plans = [S.plan(k0, p0)]
                # position of the daughter in the list of schemes entered
                plans += [[] for _ in range(chain.index((kd, unless_alpha)) - 1)]
                plans.append(S.plan(kd, pd))
                add(plans, {"kind": "daughter-path", "sig": S.path_sig(k0, p0) + "+" + S.path_sig(kd, pd)})
        for _ in range(nrandom):
            add([], {"kind": "random", "sig": ""})
        jobs[nm] = lst
    return jobs


def trim_trace(path):
    """drop a torn last line and the last (unfinished) execution of a trace written by a process that died"""
    if not os.path.exists(path):
        return
    data = open(path).read()
    if not data.endswith("\n"):
        data = data[:data.rfind("\n") + 1]
    ls = data.splitlines()
    k = len(ls)
    while k > 0 and '"Reset"' not in ls[k - 1]:
        k -= 1
    if k > 0:
        ls = ls[:k - 1]
    else:
        # transition traces: Begin .. End blocks
        k = len(ls)
        while k > 0 and '"End"' not in ls[k - 1]:
            k -= 1
        ls = ls[:k]
    open(path, "w").write("".join(x + "\n" for x in ls))


def run_shard(exe, lines, tracefile):
    rc, out = vlib.sh([exe, "--sch-trace", tracefile, "--tr-trace", tracefile + ".tr"], input="\n".join(lines) + "\n", timeout=900,
                      env=vlib.harness_env("plain"))
    res = []
    for l in out.splitlines():
        if l.startswith("{"):
            try:
                res.append(json.loads(l))
            except ValueError:
                pass
    return rc, res, out[-2000:]


def validate_trace(tracefile):
    r = vlib.tlc("MCTraceScheme", "MCTraceScheme.cfg", workers=1, env={"TRACE": tracefile}, timeout=900, xmx="4g")
    furthest = None
    for l in r.out.splitlines():
        if "furthest-line" in l:
            w = l.replace("<<", "").replace(">>", "").split(",")
            furthest = (int(w[1]), int(w[3]))
    return r, furthest


def run(tier, replay):
    ck = vlib.Check(PID, "model_checking", tier)
    thorough = tier == "thorough"
    rng = random.Random(ck.seed)
    S = sch.Schemes()
    pub = published_names()
    allnames = sorted(S.bkg_names())
    exe = cosim_exe()
    if replay:
        obj = json.load(open(replay))
        line = obj["replay"]["job"]
        rc, res, tail = run_shard(exe, [line], os.path.join(vlib.workdir("c01r"), "t.ndjson"))
        print(json.dumps(res, indent=1))
        return 0 if all(r["cls"] in ("agree", "y90-pair-deviation", "knife-edge-excluded") for r in res) else 1
    # ---- 1. the model: every scheme graph explored by TLC
    r = vlib.tlc("MCScheme", "MCScheme.cfg", workers=8, timeout=600)
    if r.error:
        raise vlib.InfraError(r.error)
    ck.tlc_stats(r, "MCScheme(all %d scheme graphs)" % len(S.data))
    if r.violated:
        ck.violation("model:" + r.violated, "Scheme.tla: %s violated on the extracted graphs" % r.violated, {"trace": r.trace[-3:]})
    r = vlib.tlc("MCTransition", "MCTransition.cfg", workers=4, timeout=300)
    if r.error:
        raise vlib.InfraError(r.error)
    ck.tlc_stats(r, "MCTransition(nucltrans*, pair, PbAtShell)")
    if r.violated:
        ck.violation("model:Transition:" + r.violated, "Transition.tla: %s violated" % r.violated, {"trace": r.trace[-3:]})
    # ---- 2. plans
    if thorough:
        names, full, nrandom = allnames, set(allnames), 5000
    else:
        names, full, nrandom = allnames, set(allnames), 150
    jobs = make_jobs(S, names, pub, tier, rng, nrandom, full)
    nshards = 8
    shards = [[] for _ in range(nshards)]
    meta = {}
    for i, (nm, lst) in enumerate(jobs.items()):
        for (line, m) in lst:
            shards[i % nshards].append(line)
            meta[m["id"]] = dict(m, job=line)
    wd = vlib.workdir("c01")
    results = []
    with cf.ThreadPoolExecutor(max_workers=nshards) as ex:
        futs = [ex.submit(run_shard, exe, shards[i], os.path.join(wd, "sch%d.ndjson" % i)) for i in range(nshards)]
        for i, f in enumerate(futs):
            rc, res, tail = f.result()
            if rc != 0 or len(res) != len(shards[i]):
                ck.violation("cosim-crash:shard", "co-simulation harness died (rc=%s) after %d of %d jobs: %s" % (
                    rc, len(res), len(shards[i]), tail[-800:]),
                    {"job": shards[i][len(res)] if len(res) < len(shards[i]) else None})
                # the trace files of a shard that died end inside an execution (possibly inside a line): validate what is complete
                for tf in (os.path.join(wd, "sch%d.ndjson" % i), os.path.join(wd, "sch%d.ndjson.tr" % i)):
                    trim_trace(tf)
            results += res
    # ---- 3. classify
    cls_count = collections.Counter()
    sigs = set()
    paths_done = set()
    per_name = collections.defaultdict(collections.Counter)
    for rj in results:
        m = meta[rj["id"]]
        cls = rj["cls"]
        cls_count[cls] += 1
        per_name[m["name"]][cls] += 1
        if rj["sig"]:
            sigs.add(rj["sig"])
        if m["sig"]:
            paths_done.add(m["sig"])
        if cls in ("agree", "y90-pair-deviation", "knife-edge-excluded"):
            continue
        det = rj["detail"]
        site = ""
        if cls == "trace":
            import re
            mm = re.search(r"port (\S+?)\(", det)
            m2 = re.search(r"reference (\S+?)\(", det)
            site = "%s/%s" % (mm.group(1) if mm else "-", m2.group(1) if m2 else "-")
        key = "%s:%s:%s" % (m["name"], cls, site)
        ck.violation(key, "%s [%s plan %s]: %s" % (m["name"], m["kind"], m["sig"][:80], det),
                     {"job": m["job"], "result": rj, "kind": m["kind"]})
    # ---- 3b. the accept/reject boundary of the beta-spectrum samplers (beta, beta1, beta2, beta_1fu): for the first beta
    #      call of a witness path and a grid of trial energies from the lowest to the end point, the port's own boundary
    #      r = fe(E)/fm is read from its trace; the trial is then replayed on port AND reference with the ordinate deviate
    #      at r -/+ 3e-6: both programs must accept below and reject above, i.e. their normalised spectrum shapes agree
    #      to 3e-6 at that energy - whatever the energy, also where random events almost never go
    BETA = ("beta", "beta1", "beta2", "beta_1fu")
    U1 = [1e-9, 1e-6, 1e-5, 1e-4, 3e-4, 1e-3, 3e-3, 0.01, 0.03, 0.1, 0.2, 0.35, 0.5, 0.65, 0.8, 0.9, 0.97, 0.99, 0.999, 0.9999, 1 - 1e-6, 1 - 1e-9]
    DEL = 3e-6      # absolute offset of the ordinate deviate: above the co-simulation's knife-edge margin (1e-6), far below any real shape difference
    sites = {}
    for nm in allnames:
        chain = S.bkg_names()[nm]
        k0 = chain[0][0]
        for (ei, p_) in S.witness_paths(k0):
            first = None
            for e_i in p_:
                for it in S.data[k0]["edges"][e_i]["items"]:
                    if it[0] == "call" and it[1] in BETA + ("pair", "nucltransK", "nucltransKL", "nucltransKLM", "nucltransKLM_Pb", "alpha", "gamma",
                                                              "electron", "positron", "particle", "PbAtShell"):
                        first = it
                        break
                if first:
                    break
            if first and first[1] in BETA and "?" not in first[2][:2]:
                sig_ = (first[1],) + tuple(first[2][:2]) + tuple(first[2][5:]) if first[1] != "beta" else (first[1],) + tuple(first[2][:2])
                sites.setdefault(sig_, (nm, k0, p_))
    slist = sorted(sites.items())
    if not thorough:
        slist = rng.sample(slist, min(len(slist), 120))
    ck.set("beta_spectra_probed", len(slist))
    ajobs, ameta = [], {}
    for si, (sig_, (nm, k0, p_)) in enumerate(slist):
        for ui, u1 in enumerate(U1):
            jid = "%s.bp%d.%d" % (nm, si, ui)
            ajobs.append(sch.bjob(jid, pub.get(nm, nm), 1000 + si, [S.plan(k0, p_)], betaplan=[u1, 0.5, 0.5, 1e-12]))
            ameta[jid] = (sig_, nm, k0, p_, u1, si)
    atf = os.path.join(wd, "beta_a.trace")
    rca, outa = vlib.sh([exe, "--trace", atf], input="\n".join(ajobs) + "\n", timeout=1800, env=vlib.harness_env("plain"))
    if rca != 0:
        ck.violation("cosim-crash:beta-probe", "co-simulation harness died on the beta boundary probes (rc=%s): %s" % (rca, outa[-600:]), None)
    bound = {}
    cur = None
    if os.path.exists(atf):
        for l in open(atf):
            if '"Reset"' in l:
                cur = json.loads(l)["id"]
            elif cur and '"beta_trial"' in l and cur not in bound:
                a = [float(x) for x in json.loads(l)["a"]]
                bound[cur] = (a[0], a[2], a[3])     # E, fe, fm
    bjobs, bmeta = [], {}
    for jid, (sig_, nm, k0, p_, u1, si) in ameta.items():
        if jid not in bound:
            continue
        E_, fe_, fm_ = bound[jid]
        if not (fm_ > 0) or not (fe_ >= 0):
            ck.violation("%s:beta-spectrum:%s" % (nm, sig_[0]), "%s: spectrum maximum %r / value %r at E=%r MeV of %s%s" % (nm, fm_, fe_, E_, sig_[0], sig_[1:]),
                         {"job": [j for j in ajobs if j.split()[1] == jid]})
            continue
        r_ = fe_ / fm_
        for tag, u2, then in (("lo", r_ - DEL, None), ("hi", r_ + DEL, (0.5, 1e-12))):
            if tag == "lo" and not (u2 > 1e-300):
                continue
            if tag == "hi" and not (u2 < 1.0 and r_ > 0):
                continue
            j2 = "%s.%s" % (jid, tag)
            plan = [u1, u2] + (list(then) if then else [])
            line = sch.bjob(j2, pub.get(nm, nm), 1000 + si, [S.plan(k0, p_)], betaplan=plan)
            bjobs.append(line)
            bmeta[j2] = (sig_, nm, u1, E_, r_, tag, line)
    nbs = 8
    bres = []
    with cf.ThreadPoolExecutor(max_workers=nbs) as ex:
        def bshard(i):
            return vlib.sh([exe], input="\n".join(bjobs[i::nbs]) + "\n", timeout=1800, env=vlib.harness_env("plain"))
        for rc_, out_ in ex.map(bshard, range(nbs)):
            if rc_ != 0:
                ck.violation("cosim-crash:beta-probe", "co-simulation harness died on the beta boundary probes (rc=%s): %s" % (rc_, out_[-600:]), None)
            bres += [json.loads(l) for l in out_.splitlines() if l.startswith("{")]
    nprobe = 0
    for rj in bres:
        if rj["id"] not in bmeta:
            continue
        nprobe += 1
        (sig_, nm, u1, E_, r_, tag, line) = bmeta[rj["id"]]
        if rj["cls"] in ("agree", "y90-pair-deviation", "knife-edge-excluded"):
            continue
        ck.violation("%s:beta-boundary:%s" % (nm, sig_[0]),
                     "%s, %s%s: at trial energy %.9g MeV (E-deviate %r) the port accepts up to fe/fm = %.12g; with the ordinate deviate %s it "
                     "(by 3e-6) port and reference take different decisions: %s %s" % (
                         nm, sig_[0], sig_[1:], E_, u1, r_, "just below" if tag == "lo" else "just above", rj["cls"], rj["detail"][:200]),
                     {"job": line, "result": rj, "kind": "beta-boundary"})
    ck.set("beta_boundary_probes", nprobe)
    # ---- 4. TLC validates the recorded scheme-level traces against the extracted graphs
    lines_total = 0
    with cf.ThreadPoolExecutor(max_workers=4) as ex:
        futs = [ex.submit(validate_trace, os.path.join(wd, "sch%d.ndjson" % i)) for i in range(nshards)]
        for i, f in enumerate(futs):
            rr, furthest = f.result()
            if rr.error and not furthest:
                raise vlib.InfraError("TraceScheme: " + rr.error)
            ck.tlc_stats(rr, None)
            if furthest:
                lines_total += furthest[1]
            if rr.violated or (furthest and furthest[0] <= furthest[1]):
                # locate the offending line
                tf = os.path.join(wd, "sch%d.ndjson" % i)
                ls = open(tf).read().splitlines()
                ln = furthest[0] if furthest else 1
                start = ln - 1
                while start > 0 and '"Reset"' not in ls[start - 1]:
                    start -= 1
                ctx = ls[max(0, start - 1):ln + 1]
                ent = [x for x in ctx if '"Enter"' in x]
                nm = json.loads(ent[0])["s"] if ent else "?"
                bad = json.loads(ls[ln - 1]) if ln - 1 < len(ls) else {}
                key = "%s:tracespec:%s" % (nm, bad.get("p", bad.get("e", "?")))
                ck.violation(key, "scheme-level trace rejected by TraceScheme.tla at line %d: %s (execution: %s)" % (
                    ln, ls[ln - 1] if ln - 1 < len(ls) else "?", " ".join(ctx)[:600]), {"trace": ctx, "file": tf})
    # ---- 5. what every transition primitive / internal pair / atomic cascade emitted, against Transition.tla
    import re as _re
    with cf.ThreadPoolExecutor(max_workers=4) as ex:
        def vt(i):
            tf = os.path.join(wd, "sch%d.ndjson.tr" % i)
            rr = vlib.tlc("TraceTransition", "TraceTransition.cfg", workers=1, env={"TRACE": tf}, timeout=900, xmx="4g")
            m = _re.search(r'furthest-line", (\d+), "of", (\d+)', rr.out)
            return tf, rr, (int(m.group(1)), int(m.group(2))) if m else None
        for tf, rr, fl in ex.map(vt, range(nshards)):
            if fl is None:
                raise vlib.InfraError("TraceTransition: " + (rr.error or rr.out[-600:]))
            ck.tlc_stats(rr, None)
            lines_total += fl[1]
            if fl[0] <= fl[1]:
                ls = open(tf).read().splitlines()
                ln = max(1, fl[0] - 1)
                i0 = min(ln, len(ls)) - 1
                while i0 > 0 and '"Begin"' not in ls[i0]:
                    i0 -= 1
                j0 = i0 + 1
                while j0 < len(ls) and '"Begin"' not in ls[j0]:
                    j0 += 1
                h = json.loads(ls[i0]) if ls else {}
                ck.violation("transition:%s:emission" % h.get("p", "?"),
                             "what a %s call emitted is not a behaviour of Transition.tla (energy conservation / outcome): %s" % (
                                 h.get("p"), " ".join(ls[i0:j0])[:500]), {"trace": ls[i0:j0]})
    ck.set("evaluations", len(results))
    ck.set("traces_validated_against_impl", len(results))
    ck.set("trace_lines_validated_by_tlc", lines_total)
    ck.set("distinct_nontrivial", len(paths_done))
    ck.set("distinct_port_call_signatures", len(sigs))
    ck.set("classes", dict(cls_count))
    ck.set("nuclides", len(names))
    ck.set("nuclides_all_paths", len(full))
    ck.set("model_paths_total", sum(S.data[S.bkg_names()[n][0][0]]["paths"] for n in allnames))
    ck.set("exhaustive", True)
    ck.set("rule", "plans derived from the scheme graphs: every scheme-level path of the 'all paths' nuclides, one witness per edge of "
                   "the others, both threshold probes (t*(1-/+2e-6)) of every guarded edge, every daughter path, plus seeded random events; "
                   "distinct = distinct planned paths (edge sequences); non-trivial = at least one primitive call")
    for rj in results[:3]:
        ck.sample({"job": meta[rj["id"]]["job"][:160], "class": rj["cls"], "calls": rj["sig"][:200]})
    ck.assumptions += ["compiled reference = Decay0 2020-04-20 text with REAL widened to 8 bytes, CERNLIB externals re-implemented in ref/",
                       "comparison tolerances: momenta 5e-7*|p|, times 5e-7 relative, literals 1e-9; rejection trials closer than 1e-6 to "
                       "their boundary are excluded and counted (class knife-edge-excluded)",
                       "documented deviations applied: e+/e- order inside an internal pair, Y90 pair-positron spectrum, absolute times"]
    return ck.finish()
