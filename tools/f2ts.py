#!/usr/bin/env python3
"""f2ts.py - extract explicit transition systems from the decay-scheme subroutines of the Decay0 reference text.

Each scheme subroutine (Co60, Bi214, ..., Ru100low, ...) is a labelled GOTO program whose control flow depends only
on uniform draws compared with decimal literals, on integer flags, and (for *low routines) on the level parameter.
This tool executes such a routine symbolically:

  value    ::= Decimal constant | a*U_site+b (affine in one draw) | opaque
  region   ::= (lo, hi] sub-interval of (0,1] for each live draw

and produces a graph:
  node = a program point where control depends on a draw (fork), identified by (pc, live variables, live regions)
  edge = [src, dst, guard (site, lo, hi) | None, payload]  payload = the straight-line items executed on the way:
           ("draw", site)                      a scheme-level deviate is consumed
           ("call", primitive, [args...])      an emission primitive is called; args are exact decimals or "?"
           ("loop", label)                     an opaque rejection loop (angular correlation): trailing draws are free
Chains of comparisons of one draw are contracted, so every node's outgoing guards tile the region of a single draw.

Usage as a library: extract_all(path_to_for) -> dict name -> scheme dict (JSON-able).
"""
import collections
import json
import re
import sys
from decimal import Decimal, getcontext

getcontext().prec = 50

PRIMS = {'beta', 'beta1', 'beta2', 'beta_1fu', 'gamma', 'electron', 'positron', 'alpha', 'pair', 'particle',
         'nucltransk', 'nucltranskl', 'nucltransklm', 'nucltransklm_pb', 'pbatshell'}
CANON = {'beta': 'beta', 'beta1': 'beta1', 'beta2': 'beta2', 'beta_1fu': 'beta_1fu', 'gamma': 'gamma', 'electron': 'electron',
         'positron': 'positron', 'alpha': 'alpha', 'pair': 'pair', 'particle': 'particle', 'nucltransk': 'nucltransK',
         'nucltranskl': 'nucltransKL', 'nucltransklm': 'nucltransKLM', 'nucltransklm_pb': 'nucltransKLM_Pb',
         'pbatshell': 'PbAtShell'}
# number of trailing output arguments (tdlev / t) that are not inputs
NOUT = {k: 1 for k in PRIMS}
# beta2(Qbeta,Zdtr,tcnuc,thnuc,tdnuc,kf,c1..c4): the output sits in the middle
OUTPOS = {'beta': [4], 'beta1': [4], 'beta2': [4], 'beta_1fu': [4]}


class Unsupported(Exception):
    pass


# ------------------------------------------------------------------ source -> routines

def read_routines(path):
    text = open(path, encoding='latin-1').read().replace('\r', '')
    lines = [re.sub(r'^\t\+', '     +', l) for l in text.split('\n')]
    stmts = []
    for ln, l in enumerate(lines, 1):
        if not l.strip():
            continue
        if l[0] in 'cC*!':
            continue
        if l[0] in 'dD' and len(l) > 1 and l[1] in ' \t':
            continue
        if re.match(r'^     [^ 0]', l):
            stmts[-1][1] += ' ' + strip_comment(l[6:]).strip()
            continue
        s = strip_comment(l).rstrip()
        if not s.strip():
            continue
        stmts.append([ln, s])
    routines = collections.OrderedDict()
    cur = None
    for ln, s in stmts:
        t = s.strip()
        m = re.match(r'(?i)^(subroutine|function|real function|double precision function|block data|program)\s*(\w*)\s*(\(([^)]*)\))?', t)
        if m and not re.match(r'^\d', t):
            cur = m.group(2) or 'blockdata'
            if cur.lower().endswith('low') and cur[0].islower():
                cur = cur[0].upper() + cur[1:]      # 'pt192low' is declared in lower case and called as Pt192low
            routines[cur.lower()] = {'name': cur, 'params': [p.strip().lower() for p in (m.group(4) or '').split(',') if p.strip()],
                                     'body': [], 'line': ln}
            continue
        if cur:
            routines[cur.lower()]['body'].append((ln, t))
    return routines


def strip_comment(s):
    out = ''
    inq = False
    for ch in s:
        if ch == "'":
            inq = not inq
        if ch == '!' and not inq:
            break
        out += ch
    return out


# ------------------------------------------------------------------ statements

def split_args(s):
    args, depth, cur = [], 0, ''
    for ch in s:
        if ch == '(':
            depth += 1
        if ch == ')':
            depth -= 1
        if ch == ',' and depth == 0:
            args.append(cur)
            cur = ''
        else:
            cur += ch
    if cur:
        args.append(cur)
    return args


def split_if(tl):
    assert tl.startswith('if(')
    depth = 0
    for i, ch in enumerate(tl):
        if ch == '(':
            depth += 1
        if ch == ')':
            depth -= 1
            if depth == 0:
                return tl[3:i], tl[i + 1:]
    raise Unsupported('if parse ' + tl)


DECLS = ('common', 'dimension', 'save', 'external', 'data', 'character', 'real', 'integer', 'doubleprecision', 'logical',
         'complex', 'implicit', 'parameter', 'equivalence')


def parse_stmt(t, ln):
    """-> (label, kind, payload)"""
    lab = None
    m = re.match(r'^(\d+)\s+(.*)$', t)
    if m:
        lab = int(m.group(1))
        t = m.group(2)
    tl = re.sub(r'\s+', '', t.lower())
    if tl.startswith(DECLS) and not re.match(r'^(real|integer|data|save|common|parameter)\w*=', tl):
        return (lab, 'nop', None)
    if tl in ('return', 'end'):
        return (lab, 'return', None)
    if tl == 'continue':
        return (lab, 'nop', None)
    m = re.match(r'^goto(\d+)$', tl)
    if m:
        return (lab, 'goto', int(m.group(1)))
    m = re.match(r'^call(\w+)\((.*)\)$', tl)
    if m:
        return (lab, 'call', (m.group(1), split_args(m.group(2))))
    if tl.startswith('if('):
        cond, rest = split_if(tl)
        if rest == 'then':
            return (lab, 'ifthen', cond)
        sub = parse_stmt(rest, ln)
        return (lab, 'lif', (cond, sub))
    if tl.startswith('elseif('):
        cond, rest = split_if(tl[4:])
        return (lab, 'elseif', cond)
    if tl == 'else':
        return (lab, 'else', None)
    if tl == 'endif':
        return (lab, 'endif', None)
    if tl.startswith('print') or tl.startswith('write'):
        return (lab, 'nop', None)
    m = re.match(r'^([a-z]\w*)(\((.*?)\))?=(.*)$', tl)
    if m and not tl.startswith('do'):
        return (lab, 'assign', (m.group(1), m.group(3), m.group(4)))
    return (lab, 'unsupported', tl)


# ------------------------------------------------------------------ expressions

NUM = re.compile(r'(\d+\.?\d*([ed][+-]?\d+)?|\.\d+([ed][+-]?\d+)?)')
RELOP = re.compile(r'\.(le|lt|ge|gt|eq|ne|and|or|not)\.')


def tokenize(e):
    toks = []
    i = 0
    while i < len(e):
        m = RELOP.match(e, i)
        if m:
            toks.append(('op', m.group(0)))
            i = m.end()
            continue
        m = NUM.match(e, i)
        if m and (e[i].isdigit() or e[i] == '.'):
            txt = m.group(0)
            m3 = re.match(r'(\d+)\.(le|lt|ge|gt|eq|ne|and|or)\.', e[i:])
            if m3:
                txt = m3.group(1)
            toks.append(('num', Decimal(txt.replace('d', 'e'))))
            i += len(txt)
            continue
        m = re.match(r'[a-z_]\w*', e[i:])
        if m:
            toks.append(('id', m.group(0)))
            i += len(m.group(0))
            continue
        if e[i:i + 2] == '**':
            toks.append(('op', '**'))
            i += 2
            continue
        if e[i] in '+-*/(),':
            toks.append(('op', e[i]))
            i += 1
            continue
        raise Unsupported('tokenize ' + e[i:])
    return toks


OPAQUE = ('opaque',)


def is_draw(v):
    return isinstance(v, tuple) and v[0] == 'u'


class P:
    """expression evaluator: Decimal | ('u', a, b, site) | OPAQUE"""

    def __init__(self, toks, env, fresh):
        self.t, self.i, self.env, self.fresh = toks, 0, env, fresh

    def peek(self):
        return self.t[self.i] if self.i < len(self.t) else (None, None)

    def eat(self):
        x = self.t[self.i]
        self.i += 1
        return x

    def expr(self):
        v = self.term()
        while self.peek() in (('op', '+'), ('op', '-')):
            op = self.eat()[1]
            w = self.term()
            v = lin(v, w, op)
        return v

    def term(self):
        v = self.factor()
        while self.peek() in (('op', '*'), ('op', '/')):
            op = self.eat()[1]
            w = self.factor()
            v = mul(v, w, op)
        return v

    def factor(self):
        k, x = self.peek()
        if (k, x) == ('op', '-'):
            self.eat()
            return mul(Decimal(-1), self.factor(), '*')
        if (k, x) == ('op', '+'):
            self.eat()
            return self.factor()
        v = self.atom()
        if self.peek() == ('op', '**'):
            self.eat()
            w = self.factor()
            if isinstance(v, Decimal) and isinstance(w, Decimal) and w == int(w):
                return v ** int(w)
            return OPAQUE
        return v

    def atom(self):
        k, x = self.eat()
        if k == 'num':
            return x
        if (k, x) == ('op', '('):
            v = self.expr()
            assert self.eat() == ('op', ')')
            return v
        if k == 'id':
            if self.peek() == ('op', '('):
                self.eat()
                args = []
                if self.peek() != ('op', ')'):
                    args.append(self.expr())
                    while self.peek() == ('op', ','):
                        self.eat()
                        args.append(self.expr())
                assert self.eat() == ('op', ')')
                if x in ('rnd1', 'rndm'):
                    return ('u', Decimal(1), Decimal(0), self.fresh())
                if x == 'abs' and len(args) == 1 and isinstance(args[0], Decimal):
                    return abs(args[0])
                return OPAQUE
            if x in self.env:
                return self.env[x]
            return OPAQUE
        raise Unsupported('atom %s %s' % (k, x))


def lin(v, w, op):
    s = Decimal(1) if op == '+' else Decimal(-1)
    if isinstance(v, Decimal) and isinstance(w, Decimal):
        return v + s * w
    if is_draw(v) and isinstance(w, Decimal):
        return ('u', v[1], v[2] + s * w, v[3])
    if is_draw(w) and isinstance(v, Decimal):
        return ('u', s * w[1], v + s * w[2], w[3])
    return OPAQUE


def mul(v, w, op):
    if isinstance(v, Decimal) and isinstance(w, Decimal):
        if op == '/' and w == 0:
            return OPAQUE
        return v * w if op == '*' else v / w
    if op == '*':
        if is_draw(v) and isinstance(w, Decimal):
            return ('u', v[1] * w, v[2] * w, v[3])
        if is_draw(w) and isinstance(v, Decimal):
            return ('u', w[1] * v, w[2] * v, w[3])
    if op == '/' and is_draw(v) and isinstance(w, Decimal) and w != 0:
        return ('u', v[1] / w, v[2] / w, v[3])
    return OPAQUE


def idents(expr):
    return set(m.group(0) for m in re.finditer(r'[a-z_]\w*', RELOP.sub(' ', re.sub(r'\d+\.?\d*[ed][+-]?\d+', ' ', expr))))


def balanced(s):
    d = 0
    for ch in s:
        if ch == '(':
            d += 1
        if ch == ')':
            d -= 1
            if d < 0:
                return False
    return d == 0


def cmp(a, op, b):
    return {'le': a <= b, 'lt': a < b, 'ge': a >= b, 'gt': a > b, 'eq': a == b, 'ne': a != b}[op]


def cond_atoms(cond, env, fresh):
    parts = re.split(r'(\.and\.|\.or\.)', cond)
    atoms, comb = [], []
    for p in parts:
        if p in ('.and.', '.or.'):
            comb.append(p)
            continue
        p = p.strip()
        while p.startswith('(') and p.endswith(')') and balanced(p[1:-1]):
            p = p[1:-1]
        m = re.match(r'^(.*?)\.(le|lt|ge|gt|eq|ne)\.(.*)$', p)
        if not m:
            raise Unsupported('cond atom ' + p)
        l = P(tokenize(m.group(1)), env, fresh).expr()
        r = P(tokenize(m.group(3)), env, fresh).expr()
        atoms.append((l, m.group(2), r))
    return atoms, comb


def combine(vals, comb):
    groups = [[vals[0]]]
    for c, v in zip(comb, vals[1:]):
        if c == '.and.':
            groups[-1].append(v)
        else:
            groups.append([v])
    return any(all(g) for g in groups)


class OpaqueCond(Exception):
    pass


def eval_cond(cond, env, fresh, ureg):
    """-> (site | None, [(truth, lo, hi)])"""
    atoms, comb = cond_atoms(cond, env, fresh)
    sites = set()
    for l, op, r in atoms:
        for v in (l, r):
            if v is OPAQUE or v == OPAQUE:
                raise OpaqueCond(cond)
            if is_draw(v):
                sites.add(v[3])
    if not sites:
        vals = [cmp(l, op, r) for l, op, r in atoms]
        return None, [(combine(vals, comb), None, None)]
    if len(sites) > 1:
        raise Unsupported('two draws in condition ' + cond)
    k = sites.pop()
    lo, hi = ureg.get(k, (Decimal(0), Decimal(1)))
    cuts = set()
    for l, op, r in atoms:
        if is_draw(l) and isinstance(r, Decimal):
            a, b, c = l[1], l[2], r
        elif is_draw(r) and isinstance(l, Decimal):
            a, b, c = r[1], r[2], l
        else:
            raise Unsupported('condition shape ' + cond)
        if a == 0:
            raise Unsupported('a=0 in ' + cond)
        t = (c - b) / a
        if lo < t < hi:
            cuts.add(t)
    pts = [lo] + sorted(cuts) + [hi]
    alts = []
    for i in range(len(pts) - 1):
        mid = (pts[i] + pts[i + 1]) / 2
        vals = []
        for l, op, r in atoms:
            lv = l if isinstance(l, Decimal) else l[1] * mid + l[2]
            rv = r if isinstance(r, Decimal) else r[1] * mid + r[2]
            vals.append(cmp(lv, op, rv))
        truth = combine(vals, comb)
        if alts and alts[-1][0] == truth and alts[-1][2] == pts[i]:
            alts[-1] = (truth, alts[-1][1], pts[i + 1])
        else:
            alts.append((truth, pts[i], pts[i + 1]))
    return k, alts


# ------------------------------------------------------------------ routine preparation (CFG + liveness)

class Prog:
    def __init__(self, routine):
        self.name = routine['name']
        self.stmts = []
        for ln, t in routine['body']:
            lab, kind, payload = parse_stmt(t, ln)
            cond = payload[0] if kind == 'lif' else payload if kind in ('ifthen', 'elseif') else None
            if cond is not None and re.search(r'\brnd[1m]\(d\)', cond):
                # a draw made inside a condition: bind it to a variable first, so that it is an ordinary draw
                var = 'zzr%d' % ln
                ncond = re.sub(r'\brnd[1m]\(d\)', var, cond, count=1)
                if re.search(r'\brnd[1m]\(d\)', ncond):
                    raise Unsupported('two draws in one condition: ' + cond)
                self.stmts.append((lab, 'assign', (var, None, 'rnd1(d)'), ln))
                lab = None
                payload = (ncond, payload[1]) if kind == 'lif' else ncond
            self.stmts.append((lab, kind, payload, ln))
        self.labels = {lab: i for i, (lab, k, p, ln) in enumerate(self.stmts) if lab is not None}
        self.match = {}
        stack = []
        for i, (lab, k, p, ln) in enumerate(self.stmts):
            if k == 'ifthen':
                stack.append([i])
            elif k in ('elseif', 'else'):
                stack[-1].append(i)
            elif k == 'endif':
                chain = stack.pop() + [i]
                for j, idx in enumerate(chain[:-1]):
                    self.match[idx] = (chain[j + 1], chain[-1])
        self.compute_liveness()

    def uses_defs(self, i):
        lab, k, p, ln = self.stmts[i]
        if k == 'assign':
            var, idx, rhs = p
            u = idents(rhs) | (idents(idx) if idx else set())
            return u, (set() if idx else {var})
        if k == 'call':
            u = set()
            for a in p[1]:
                u |= idents(a)
            return u, set()
        if k in ('ifthen', 'elseif'):
            return idents(p), set()
        if k == 'lif':
            cond, sub = p
            u = idents(cond)
            sl, sk, sp = sub
            if sk == 'assign':
                u |= idents(sp[2])
            elif sk == 'call':
                for a in sp[1]:
                    u |= idents(a)
            return u, set()
        return set(), set()

    def succs(self, i):
        lab, k, p, ln = self.stmts[i]
        n = len(self.stmts)
        if k == 'return':
            return []
        if k == 'goto':
            return [self.labels[p]] if p in self.labels else []
        if k == 'lif':
            out = [i + 1] if i + 1 < n else []
            sl, sk, sp = p[1]
            if sk == 'goto' and sp in self.labels:
                out.append(self.labels[sp])
            return out
        if k in ('ifthen', 'elseif'):
            nxt = self.match[i][0]
            tgt = nxt + 1 if self.stmts[nxt][1] == 'else' else nxt
            return [i + 1, tgt]
        if k == 'else':
            return [self.match[i][1]] if i in self.match else [i + 1]
        return [i + 1] if i + 1 < n else []

    def compute_liveness(self):
        n = len(self.stmts)
        ud = [self.uses_defs(i) for i in range(n)]
        live = [set() for _ in range(n + 1)]
        changed = True
        # an 'elseif'/'else' reached by falling out of a taken branch jumps to endif: successors handled in run()
        while changed:
            changed = False
            for i in range(n - 1, -1, -1):
                out = set()
                for s in self.succs(i):
                    if s <= n:
                        out |= live[s] if s < n else set()
                # falling into an elseif/else from above means "skip to endif"
                new = ud[i][0] | (out - ud[i][1])
                if new != live[i]:
                    live[i] = new
                    changed = True
        self.live = live


# ------------------------------------------------------------------ symbolic execution

def canon(v):
    if isinstance(v, Decimal):
        return ('c', str(v.normalize()))
    if is_draw(v):
        return ('u', str(v[1].normalize()), str(v[2].normalize()), v[3])
    return ('o',)


def dec_str(d):
    d = d.normalize()
    s = format(d, 'f') if -12 < d.adjusted() < 15 else format(d, 'E')
    return s


class Extractor:
    def __init__(self, routines, name, init_env=None):
        self.prog = Prog(routines[name.lower()])
        self.routines = routines
        self.name = routines[name.lower()]['name']
        self.init_env = dict(init_env or {})
        self.init_env.setdefault('npfull', Decimal(1))   # positive after any emission; only tested against 0
        self.nodes = {}      # key -> id
        self.node_info = {}  # id -> dict
        self.edges = []
        self.warnings = []

    def node(self, pc, env, ureg):
        live = self.prog.live[pc] if pc < len(self.prog.live) else set()
        items = tuple(sorted((v, canon(env[v])) for v in live if v in env))
        sites = set(c[3] for (_, c) in items if c[0] == 'u')
        regs = tuple(sorted((s, str(ureg[s][0]), str(ureg[s][1])) for s in sites if s in ureg))
        key = (pc, items, regs)
        if key not in self.nodes:
            nid = len(self.nodes) + 1
            self.nodes[key] = nid
            lab, k, p, ln = self.prog.stmts[pc]
            self.node_info[nid] = {'id': nid, 'line': ln, 'pc': pc, 'state': (pc, dict(env), dict(ureg))}
            return nid, True
        return self.nodes[key], False

    def advance(self, pc, env, ureg, payload, steps=0):
        """run straight-line code; returns ('ret', payload) or ('fork', pc, env, ureg, payload)"""
        prog = self.prog
        st = prog.stmts
        seg_sites = []      # sites drawn in this segment, with the pc where drawn (for loop detection)

        def fresh_at(pc_):
            cnt = [0]

            def f():
                cnt[0] += 1
                site = '%d.%d' % (st[pc_][3], cnt[0])
                payload.append(('draw', site))
                seg_sites.append((site, pc_))
                return site
            return f
        while True:
            steps += 1
            if steps > 20000:
                raise Unsupported('step budget (loop?) in ' + self.name)
            if pc >= len(st):
                return ('ret', payload)
            lab, k, p, ln = st[pc]
            if k == 'nop':
                pc += 1
                continue
            if k == 'return':
                return ('ret', payload)
            if k == 'goto':
                if p not in prog.labels:
                    raise Unsupported('goto unknown label %s' % p)
                pc = prog.labels[p]
                continue
            if k == 'goto_idx':
                pc = p
                continue
            if k == 'assign':
                var, idx, rhs = p
                if idx is not None:
                    # array element (pmoment(..)=...): evaluated for its draws only
                    try:
                        P(tokenize(rhs), env, fresh_at(pc)).expr()
                    except Unsupported:
                        pass
                    pc += 1
                    continue
                v = P(tokenize(rhs), env, fresh_at(pc)).expr()
                env = dict(env)
                env[var] = v
                pc += 1
                continue
            if k == 'call':
                self.do_call(p, env, payload, fresh_at(pc))
                pc += 1
                continue
            if k == 'lif':
                cond, sub = p
                npay = len(payload)
                try:
                    site, alts = eval_cond(cond, env, fresh_at(pc), ureg)
                except OpaqueCond:
                    sl, sk, sp = sub
                    if sk == 'goto' and sp in prog.labels and prog.labels[sp] <= pc:
                        # opaque rejection loop (angular correlation): trial draws are free, count unknown
                        payload.append(('loop', sp))
                        pc += 1
                        continue
                    raise Unsupported('opaque condition: ' + cond)
                if site is None:
                    truth = alts[0][0]
                    if not truth:
                        pc += 1
                        continue
                    r = self.do_sub(sub, pc, env, payload, fresh_at(pc))
                    if r is None:
                        return ('ret', payload)
                    pc, env = r
                    continue
                del payload[npay:]
                return ('fork', pc, env, ureg, payload)
            if k in ('ifthen', 'elseif'):
                npay = len(payload)
                try:
                    site, alts = eval_cond(p, env, fresh_at(pc), ureg)
                except OpaqueCond:
                    raise Unsupported('opaque block condition: ' + p)
                if site is None:
                    truth = alts[0][0]
                    pc = self.block_target(pc, truth)
                    continue
                del payload[npay:]
                return ('fork', pc, env, ureg, payload)
            if k == 'else':
                pc = prog.match[pc][1] + 1
                continue
            if k == 'endif':
                pc += 1
                continue
            raise Unsupported('statement: %s' % (p,))

    def block_target(self, pc, truth):
        prog = self.prog
        if truth:
            return pc + 1
        nxt = prog.match[pc][0]
        k = prog.stmts[nxt][1]
        if k == 'else':
            return nxt + 1
        if k == 'endif':
            return nxt + 1
        return nxt  # elseif: evaluate it

    def do_sub(self, sub, pc, env, payload, fresh):
        sl, sk, sp = sub
        if sk == 'goto':
            if sp not in self.prog.labels:
                raise Unsupported('goto unknown label %s' % sp)
            return self.prog.labels[sp], env
        if sk == 'return':
            return None
        if sk == 'call':
            self.do_call(sp, env, payload, fresh)
            return pc + 1, env
        if sk == 'assign':
            var, idx, rhs = sp
            v = P(tokenize(rhs), env, fresh).expr()
            env = dict(env)
            if idx is None:
                env[var] = v
            return pc + 1, env
        if sk == 'nop':
            return pc + 1, env
        raise Unsupported('logical-if body ' + sk)

    def do_call(self, p, env, payload, fresh):
        cname, cargs = p
        low = cname.lower()
        vals = []
        for a in cargs:
            try:
                v = P(tokenize(a), env, fresh).expr()
            except Unsupported:
                v = OPAQUE
            vals.append(v)
        if low not in PRIMS:
            self.warnings.append('call to non-primitive %s' % cname)
        outs = OUTPOS.get(low, [len(vals) - 1])
        args = []
        for i, v in enumerate(vals):
            if i in outs:
                continue
            if isinstance(v, Decimal):
                args.append(dec_str(v))
            else:
                args.append('?')
        payload.append(('call', CANON.get(low, cname), args))

    def explore(self):
        prog = self.prog
        # mark elseif reached by fallthrough: insert implicit gotos - do it by rewriting: the statement before each
        # elseif/else (at the same nesting) jumps to endif.  Implemented in advance(): when pc lands on an 'elseif' by
        # sequential flow we need to know whether it is fallthrough.  We track that by rewriting here:
        self.rewrite_fallthrough()
        res = self.advance(0, dict(self.init_env), {}, [])
        entry = 0
        self.node_info[0] = {'id': 0, 'line': self.routines[self.name.lower()]['line'], 'pc': -1}
        work = []
        if res[0] == 'ret':
            self.edges.append({'src': 0, 'dst': -1, 'guard': None, 'payload': res[1]})
        else:
            _, pc, env, ureg, payload = res
            nid, new = self.node(pc, env, ureg)
            self.edges.append({'src': 0, 'dst': nid, 'guard': None, 'payload': payload})
            work.append(nid)
        while work:
            nid = work.pop()
            pc, env, ureg = self.node_info[nid]['state']
            lab, k, p, ln = prog.stmts[pc]
            cond = p[0] if k == 'lif' else p
            scratch = []

            def nofresh():
                raise Unsupported('draw inside a branching condition: ' + cond)
            site, alts = eval_cond(cond, env, nofresh, ureg)
            assert site is not None
            for truth, lo, hi in alts:
                nreg = dict(ureg)
                nreg[site] = (lo, hi)
                payload = []
                if k == 'lif':
                    if truth:
                        r = self.do_sub(p[1], pc, env, payload, nofresh)
                        if r is None:
                            self.edges.append({'src': nid, 'dst': -1, 'guard': (site, lo, hi), 'payload': payload})
                            continue
                        npc, nenv = r
                    else:
                        npc, nenv = pc + 1, env
                else:
                    npc, nenv = self.block_target(pc, truth), env
                res = self.advance(npc, nenv, nreg, payload)
                if res[0] == 'ret':
                    self.edges.append({'src': nid, 'dst': -1, 'guard': (site, lo, hi), 'payload': res[1]})
                else:
                    _, pc2, env2, ureg2, pay2 = res
                    n2, new = self.node(pc2, env2, ureg2)
                    self.edges.append({'src': nid, 'dst': n2, 'guard': (site, lo, hi), 'payload': pay2})
                    if new:
                        work.append(n2)
        self.contract()
        return self.result()

    def rewrite_fallthrough(self):
        """Insert an explicit jump to the matching endif before each elseif/else of a block IF, so that sequential
        flow out of a taken branch never evaluates the next elseif."""
        prog = self.prog
        st = prog.stmts
        new = []
        idxmap = {}
        pending_labels = {}
        # compute for each elseif/else its endif index
        endif_of = {}
        for i, (lab, k, p, ln) in enumerate(st):
            if k in ('elseif', 'else'):
                # find chain head containing i
                for h, (nxt, end) in prog.match.items():
                    if nxt == i:
                        endif_of[i] = end
        for i, s in enumerate(st):
            if s[1] in ('elseif', 'else') and i in endif_of:
                new.append((None, 'jump_endif', endif_of[i], s[3]))
            idxmap[i] = len(new)
            new.append(s)
        # remap
        out = []
        for (lab, k, p, ln) in new:
            if k == 'jump_endif':
                out.append((lab, 'goto_idx', idxmap[p] + 1, ln))
            else:
                out.append((lab, k, p, ln))
        prog.stmts = out
        prog.labels = {lab: i for i, (lab, k, p, ln) in enumerate(out) if lab is not None}
        prog.match = {idxmap[a]: (idxmap[b], idxmap[c]) for a, (b, c) in prog.match.items()}
        # liveness on the rewritten program
        old_succs = prog.succs

        def succs(i):
            lab, k, p, ln = prog.stmts[i]
            if k == 'goto_idx':
                return [p] if p < len(prog.stmts) else []
            return old_succs(i)
        prog.succs = succs
        prog.compute_liveness()

    def contract(self):
        """Merge silent refinement chains: an edge with empty payload into a fork node that refines the same draw is
        replaced by that node's outgoing edges (their guards are sub-regions already)."""
        changed = True
        while changed:
            changed = False
            out = collections.defaultdict(list)
            for e in self.edges:
                out[e['src']].append(e)
            for e in list(self.edges):
                if e['payload'] or e['dst'] <= 0 or e['guard'] is None:
                    continue
                succ = out.get(e['dst'], [])
                if succ and all(s['guard'] is not None and s['guard'][0] == e['guard'][0] for s in succ):
                    self.edges.remove(e)
                    for s in succ:
                        self.edges.append({'src': e['src'], 'dst': s['dst'], 'guard': s['guard'], 'payload': list(s['payload'])})
                    changed = True
                    break
        # drop unreachable nodes
        reach = {0}
        stack = [0]
        out = collections.defaultdict(list)
        for e in self.edges:
            out[e['src']].append(e)
        while stack:
            u = stack.pop()
            for e in out[u]:
                if e['dst'] not in reach:
                    reach.add(e['dst'])
                    stack.append(e['dst'])
        self.edges = [e for e in self.edges if e['src'] in reach]

    def result(self):
        ids = sorted({e['src'] for e in self.edges} | {e['dst'] for e in self.edges if e['dst'] > 0})
        remap = {old: i for i, old in enumerate(ids)}
        remap[-1] = -1
        edges = []
        for e in self.edges:
            g = e['guard']
            edges.append({'src': remap[e['src']], 'dst': remap[e['dst']],
                          'site': g[0] if g else None,
                          'lo': str(g[1]) if g else None, 'hi': str(g[2]) if g else None,
                          'items': [list(it) if it[0] != 'call' else ['call', it[1], it[2]] for it in e['payload']]})
        edges.sort(key=lambda e: (e['src'], Decimal(e['lo']) if e['lo'] is not None else Decimal(-1)))
        nodes = [{'id': remap[i], 'line': self.node_info[i]['line']} for i in ids]
        return {'name': self.name, 'nodes': nodes, 'edges': edges, 'warnings': self.warnings}


def extract(routines, name, init_env=None):
    ex = Extractor(routines, name, init_env)
    return ex.explore()


def has_cycle(sch):
    out = collections.defaultdict(list)
    for e in sch['edges']:
        out[e['src']].append(e['dst'])
    colour = {}
    for start in list(out):
        if colour.get(start):
            continue
        stack = [(start, iter(out[start]))]
        colour[start] = 1
        while stack:
            n, it = stack[-1]
            for d in it:
                if d == -1:
                    continue
                if colour.get(d) == 1:
                    return True
                if not colour.get(d):
                    colour[d] = 1
                    stack.append((d, iter(out[d])))
                    break
            else:
                colour[n] = 2
                stack.pop()
    return False


def count_paths(sch):
    """number of entry ~> Return paths; -1 when the graph has a cycle (unboundedly many)"""
    if has_cycle(sch):
        return -1
    out = collections.defaultdict(list)
    for e in sch['edges']:
        out[e['src']].append(e)
    memo = {}

    def f(n):
        if n == -1:
            return 1
        if n in memo:
            return memo[n]
        memo[n] = sum(f(e['dst']) for e in out[n])
        return memo[n]
    return f(0)


if __name__ == '__main__':
    src = sys.argv[1]
    routines = read_routines(src)
    names = sys.argv[2:]
    if not names:
        names = [r['name'] for r in routines.values() if r['params'][:1] == ['tcnuc']]
    tot = 0
    for n in names:
        try:
            env = {}
            if routines[n.lower()]['params'] == ['levelkev']:
                env = {'levelkev': Decimal(sys.argv[3])}
                names = names[:1]
            sch = extract(routines, n, env)
            np_ = count_paths(sch)
            tot += np_
            print('%-10s nodes=%-4d edges=%-5d paths=%-7d %s' % (n, len(sch['nodes']), len(sch['edges']), np_, sch['warnings'][:3]))
        except Unsupported as e:
            print('%-10s UNSUPPORTED %s' % (n, e))
    print('total paths', tot)
