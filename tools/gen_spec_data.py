#!/usr/bin/env python3
"""gen_spec_data.py <repo> <outdir>

Generates, from the Decay0 reference text shipped in the repository (resources/code/decay0/decay0_2020-04-20.for):
  <outdir>/schemes.json      every background scheme and every (daughter *low routine, level) cascade as a graph
  <outdir>/dbdtable.json     the double-beta isotope table of GENBBsub (Q, Z, A, EK, levels: energy keV + 0/2 spin flag),
                             the isotope -> *low routine map, the daughter chains of GENBBsub (both categories)
  <outdir>/SchData.tla   (copied to /verif/spec/gen for /repo) the same graphs as a TLA+ constant (consumed by Scheme.tla / TraceScheme.tla)
  <outdir>/DbdTable.tla  the isotope table as a TLA+ constant (consumed by DbdRules.tla)
The generated files are keyed by the hash of the reference text and regenerated when it changes."""
import hashlib
import json
import os
import re
import sys
from decimal import Decimal

sys.path.insert(0, os.path.dirname(os.path.abspath(__file__)))
import f2ts
import c2f  # noqa: E402

ROOT = os.path.dirname(os.path.dirname(os.path.abspath(__file__)))


def fort_cond_to_py(c):
    c = c.lower()
    for a, b in (('.eq.', '=='), ('.ne.', '!='), ('.lt.', '<'), ('.le.', '<='), ('.gt.', '>'), ('.ge.', '>='),
                 ('.or.', ' or '), ('.and.', ' and ')):
        c = c.replace(a, b)
    return c


def extract_dbd_table(routines):
    body = routines['genbbsub']['body']
    text = [t for (ln, t) in body]
    # locate the dbd table: from 'if(i2bbs.eq.1) then' to the 'unknown double beta nuclide' else
    i0 = next(i for i, t in enumerate(text) if re.sub(r'\s', '', t.lower()) == 'if(i2bbs.eq.1)then')
    i1 = next(i for i, t in enumerate(text) if 'unknown double beta nuclide' in t)
    blocks = []
    cur = None
    for t in text[i0:i1]:
        tl = re.sub(r'\s+', '', t)
        m = re.match(r"(?i)^chnuclide='(\w+)'$", tl)
        if m:
            cur = {'name': m.group(1), 'lines': []}
            blocks.append(cur)
            continue
        if cur is not None:
            cur['lines'].append(tl)
    table = []
    for b in blocks:
        ent = {'name': b['name'], 'levels': []}
        legal = None
        lev_rules, spin_rules, ek_rules = [], [], []
        in4 = False
        for l in b['lines']:
            ll = l.lower()
            if ll == 'if(modebb.eq.20)then':
                in4 = True       # quadruple beta: other Q value and daughter, level forced to 0 by the reference
                continue
            if in4 and ll == 'endif':
                in4 = False
                continue
            m = re.match(r'^(qbb|zdbb|adbb|ek)=([-+0-9.e]+)$', ll)
            if m:
                ent[{'qbb': 'Q', 'zdbb': 'Z', 'adbb': 'A', 'ek': 'EK'}[m.group(1)] + ('4' if in4 else '')] = str(Decimal(m.group(2)))
                continue
            if in4:
                continue
            m = re.match(r'^if\((ilevel.*)\)then$', ll)
            if m and legal is None:
                legal = fort_cond_to_py(m.group(1))   # condition for ILLEGAL level
                continue
            m = re.match(r'^if\((ilevel.*?)\)levele=(\d+)$', ll)
            if m:
                lev_rules.append((fort_cond_to_py(m.group(1)), int(m.group(2))))
                continue
            m = re.match(r'^levele=(\d+)$', ll)
            if m:
                lev_rules.append(('True', int(m.group(1))))
                continue
            m = re.match(r'^if\((ilevel.*?)\)itrans02=(\d)$', ll)
            if m:
                spin_rules.append((fort_cond_to_py(m.group(1)), int(m.group(2))))
                continue
            m = re.match(r'^itrans02=(\d)$', ll)
            if m:
                spin_rules.append(('True', int(m.group(1))))
                continue
            m = re.match(r'^if\((ilevel.*?)\)ek=([-+0-9.e]+)$', ll)
            if m:
                ek_rules.append((fort_cond_to_py(m.group(1)), str(Decimal(m.group(2)))))
                continue
        for il in range(0, 30):
            if legal is not None and eval(legal, {'ilevel': il}):
                continue
            if legal is None:
                break
            e = None
            for c, v in lev_rules:
                if eval(c, {'ilevel': il}):
                    e = v
            s = None
            for c, v in spin_rules:
                if eval(c, {'ilevel': il}):
                    s = v
            if e is None:
                raise SystemExit('table extraction: %s level %d has no energy' % (b['name'], il))
            ek = ent.get('EK')
            for c, v in ek_rules:
                if eval(c, {'ilevel': il}):
                    ek = v
            # spin None: the reference text assigns no 0+/2+ flag to this level (neither 0+ nor 2+ in the level scheme);
            # the flag is then whatever was left from an earlier call: the spin/mode rule is unspecified there
            ent['levels'].append({'E': e, 'spin': s if s is not None else -1, 'EK': ek})
        # levels must be 0..n-1 contiguous
        table.append(ent)
    # isotope -> low routine, chains (generate section)
    low = {}
    for t in text:
        tl = re.sub(r'\s+', '', t)
        m = re.match(r"(?i)^if\(chnuclide\.eq\.'(\w+)'\)call(\w+low)\(levelE\)$", tl)
        if m:
            low[m.group(1)] = m.group(2)
    # chains written out by hand from the four 'then' blocks and the background ones (checked against the text below)
    return table, low


def chains_from_text(routines):
    """GENBBsub's generate section: name -> list of scheme calls, in order, with the 'unless first particle is alpha' rule."""
    body = [re.sub(r'\s+', '', t) for (ln, t) in routines['genbbsub']['body']]
    res = {'dbd': {}, 'bkg': {}}
    sect = None
    i = 0
    # the generate part starts after 'call bb(' hmm: identify by i2bbs tests after label 1000 region: take the LAST two
    idx1 = [k for k, t in enumerate(body) if t.lower() == 'if(i2bbs.eq.1)then']
    idx2 = [k for k, t in enumerate(body) if t.lower() == 'if(i2bbs.eq.2)then']
    start_d, start_b = idx1[-1], idx2[-1]
    for (start, cat) in ((start_d, 'dbd'), (start_b, 'bkg')):
        k = start + 1
        depth = 1
        cur = None
        while k < len(body) and depth > 0:
            t = body[k]
            tl = t.lower()
            m = re.match(r"^if\(chnuclide\.eq\.'([\w+-]+)'\)then$", tl)
            m1 = re.match(r"^if\(chnuclide\.eq\.'([\w+-]+)'\)call(\w+)\((.*)\)$", tl)
            if m1:
                nm = re.match(r"(?i)^if\(chnuclide\.eq\.'([\w+-]+)'\)", t).group(1)
                res[cat][nm] = [{'call': m1.group(2), 'unless_alpha_first': False}]
            elif m:
                nm = re.match(r"(?i)^if\(chnuclide\.eq\.'([\w+-]+)'\)", t).group(1)
                cur = []
                res[cat][nm] = cur
                depth += 1
            elif tl.startswith('if(') and tl.endswith('then'):
                depth += 1
                if cur is not None and 'npgeant(1).ne.47' in tl:
                    cur.append('GUARD')
            elif tl in ('endif', 'endif'):
                depth -= 1
                if depth == 1:
                    cur = None
                elif cur is not None and depth == 2:
                    cur.append('ENDGUARD')
            elif cur is not None:
                mc = re.match(r'^call(\w+)\((.*)\)$', tl)
                if mc:
                    cur.append({'call': mc.group(1)})
            k += 1
    # normalise guards
    out = {'dbd': {}, 'bkg': {}}
    for cat in res:
        for nm, lst in res[cat].items():
            o = []
            guard = False
            for it in lst:
                if it == 'GUARD':
                    guard = True
                elif it == 'ENDGUARD':
                    guard = False
                else:
                    o.append({'call': it['call'], 'unless_alpha_first': guard})
            out[cat][nm] = o
    return out


def apply_documented_deviations(schemes):
    """Named, documented differences between BxDecay0 and the reference, written by hand.
    Y90 (BxDecay0 1.0.8): the internal-pair branch no longer calls pair(0.739): it draws the common direction (2
    deviates), samples the positron energy by rejection (2 deviates per trial) and emits e- then e+ itself."""
    y = schemes.get('Y90')
    if y:
        n = 0
        for e in y['edges']:
            for j, it in enumerate(e['items']):
                if it[0] == 'call' and it[1] == 'pair' and it[2][0] in ('0.739', '0.7390'):
                    tclev, thlev = it[2][1], it[2][2]
                    e['items'][j:j + 1] = [['draw', 'Y90dev.phi'], ['draw', 'Y90dev.ctet'], ['draw', 'Y90dev.E'], ['draw', 'Y90dev.f'],
                                           ['loop', 2],
                                           ['call', 'particle', ['3', '?', '?', '?', '?', '?', '?', tclev, thlev]],
                                           ['call', 'particle', ['2', '?', '?', '?', '?', '?', '?', '0', '0']]]
                    n += 1
                    break
        if n != 1:
            raise SystemExit('Y90 deviation: expected exactly one pair(0.739) call in the reference graph, found %d' % n)


def canon_lit(s):
    if s == '?':
        return '?'
    return '%.12g' % float(Decimal(s))


def pair12(d):
    """Decimal in [0,1] -> <<a,b>> with value = a*1e-6 + b*1e-12 (rounded to 1e-12)"""
    n = int((Decimal(d) * Decimal(10) ** 12).to_integral_value())
    return n // 1000000, n % 1000000


def tla_str(s):
    return '"' + s.replace('\\', '\\\\').replace('"', '\\"') + '"'


def visible_ev(prim, args):
    """visible energy (eV) released by a primitive call whose first argument is a literal; -1 when it is not fixed
    (beta spectra, non-literal arguments)"""
    if prim in ('beta', 'beta1', 'beta2', 'beta_1fu', 'particle') or not args or args[0] == '?':
        return -1
    e = Decimal(args[0])
    if prim == 'pair':
        e += Decimal('1.022')          # kinetic energy of the pair + the annihilation quanta of the positron
    if prim == 'positron':
        e += Decimal('1.022')
    if prim == 'PbAtShell':
        e = e / 1000                   # hole energy in keV
    return int((e * 1000000).to_integral_value())


def transition_shells(prim, args):
    """internal-conversion outcomes of a transition primitive whose arguments are literals:
    <<transition energy, threshold (shell binding energy, or 2 m_e for the pair), 1 if the outcome has a non-zero coefficient>>,
    energies in units of 0.01 eV"""
    n = {'nucltransK': 1, 'nucltransKL': 2, 'nucltransKLM': 3, 'nucltransKLM_Pb': 3}.get(prim)
    if n is None or len(args) < 2 * n + 2 or any(a == '?' for a in args[:2 * n + 2]):
        return ''
    def u(x):
        return int((Decimal(x) * Decimal(10) ** 8).to_integral_value())
    e = u(args[0])
    out = ['<<%d, %d, %d>>' % (e, u(args[1 + 2 * i]), 1 if Decimal(args[2 + 2 * i]) > 0 else 0) for i in range(n)]
    out.append('<<%d, %d, %d>>' % (e, 102199812, 1 if Decimal(args[1 + 2 * n]) > 0 else 0))
    return ', '.join(out)


def scheme_to_tla(key, sch):
    es = []
    for e in sch['edges']:
        items = []
        for it in e['items']:
            if it[0] == 'draw':
                items.append('[k |-> "draw", s |-> %s, p |-> "", a |-> <<>>, ev |-> 0, tr |-> <<>>]' % tla_str(it[1]))
            elif it[0] == 'loop':
                # p = number of deviates per trial of the opaque rejection loop (5 in the angular-correlation blocks)
                items.append('[k |-> "loop", s |-> "", p |-> "%s", a |-> <<>>, ev |-> 0, tr |-> <<>>]' % ('2' if it[1] == 2 else '5'))
            else:
                items.append('[k |-> "call", s |-> "", p |-> %s, a |-> <<%s>>, ev |-> %d, tr |-> <<%s>>]' % (
                    tla_str(it[1]), ', '.join(tla_str(canon_lit(a)) for a in it[2]), visible_ev(it[1], it[2]),
                    transition_shells(it[1], it[2])))
        if e['site'] is None:
            lo, hi, site = (0, 0), (1000000, 0), ''
        else:
            lo, hi, site = pair12(e['lo']), pair12(e['hi']), e['site']
        es.append('  [s |-> %d, d |-> %d, site |-> %s, lo |-> <<%d, %d>>, hi |-> <<%d, %d>>,\n    items |-> <<%s>>]' % (
            e['src'], e['dst'], tla_str(site), lo[0], lo[1], hi[0], hi[1], ',\n      '.join(items)))
    return '%s :> <<\n%s\n>>' % (tla_str(key), ',\n'.join(es))


def main():
    repo = sys.argv[1]
    outdir = sys.argv[2]
    src = os.path.join(repo, 'resources/code/decay0/decay0_2020-04-20.for')
    h = hashlib.md5(open(src, 'rb').read() + open(__file__, 'rb').read() + open(os.path.join(repo, 'README.rst'), 'rb').read()
                    + open(os.path.join(repo, 'resources/description/dbd_modes.lis'), 'rb').read()
                    + open(os.path.join(repo, 'resources/description/dbd_isotopes.lis'), 'rb').read()
                    + open(os.path.join(os.path.dirname(__file__), 'f2ts.py'), 'rb').read()
                    + open(os.path.join(os.path.dirname(__file__), 'c2f.py'), 'rb').read()
                    + b''.join(open(os.path.join(repo, 'bxdecay0', n + '.cc'), 'rb').read() for n in c2f.PORT_ONLY
                               if os.path.exists(os.path.join(repo, 'bxdecay0', n + '.cc')))).hexdigest()
    os.makedirs(outdir, exist_ok=True)
    gdir = outdir   # TLC finds the generated modules through -DTLA-Library=<outdir>
    os.makedirs(gdir, exist_ok=True)
    stamp = os.path.join(outdir, '.stamp')
    need = [os.path.join(outdir, 'schemes.json'), os.path.join(outdir, 'dbdtable.json'), os.path.join(gdir, 'SchData.tla'),
            os.path.join(gdir, 'DbdTable.tla')]
    if os.path.exists(stamp) and open(stamp).read() == h and all(os.path.exists(p) for p in need):
        return
    routines = f2ts.read_routines(src)
    table, low = extract_dbd_table(routines)
    chains = chains_from_text(routines)
    schemes = {}
    problems = []
    for r in routines.values():
        if r['params'][:1] == ['tcnuc']:
            try:
                schemes[r['name']] = f2ts.extract(routines, r['name'])
            except f2ts.Unsupported as e:
                problems.append('%s: %s' % (r['name'], e))
    lowlevels = {}
    for ent in table:
        lr = low.get(ent['name'])
        if not lr:
            continue
        for lv in ent['levels']:
            lowlevels.setdefault(lr, set()).add(lv['E'])
    # the four alpha-chain entries call <X>low(0)
    for t in ('At214low', 'Po214low', 'Rn218low', 'Ra222low'):
        lowlevels.setdefault(t, set()).add(0)
    for lr, levs in sorted(lowlevels.items()):
        if lr.lower() not in routines:
            problems.append('low routine %s not in the reference text' % lr)
            continue
        for lv in sorted(levs):
            try:
                s = f2ts.extract(routines, lr, {'levelkev': Decimal(lv)})
                s['level'] = lv
                schemes['%s@%d' % (routines[lr.lower()]['name'], lv)] = s
            except f2ts.Unsupported as e:
                problems.append('%s@%d: %s' % (lr, lv, e))
    # the scheme routines that exist only in the port (no reference text): same extraction on a rewriting of the C++ text
    chains['port_only'] = {}
    ptxt = []
    for n in c2f.PORT_ONLY:
        try:
            ptxt.append(c2f.convert(os.path.join(repo, 'bxdecay0', n + '.cc'), n))
        except (ValueError, OSError) as e:
            problems.append('port-only %s: %s' % (n, e))
    pfor = os.path.join(outdir, 'portonly.for')
    open(pfor, 'w').write('\n'.join(ptxt) + '\n')
    pr = f2ts.read_routines(pfor)
    for r in pr.values():
        try:
            sch = f2ts.extract(pr, r['name'])
            sch['port_only'] = True
            schemes[r['name']] = sch
            chains['port_only'][r['name']] = [{'call': r['name'], 'unless_alpha_first': False}]
        except f2ts.Unsupported as e:
            problems.append('port-only %s: %s' % (r['name'], e))
    apply_documented_deviations(schemes)
    for k, s in schemes.items():
        s['paths'] = f2ts.count_paths(s)
        if s['paths'] < 0:
            s['cyclic'] = True
            s['paths'] = 0
            problems.append('%s: the extracted graph has a cycle' % k)
    json.dump({'schemes': schemes, 'problems': problems}, open(need[0], 'w'))
    json.dump({'table': table, 'low': low, 'chains': chains}, open(need[1], 'w'), indent=1)
    # ---- TLA+ data
    with open(need[2], 'w') as f:
        f.write('------------------------------ MODULE SchData ------------------------------\n')
        f.write('(* GENERATED by tools/gen_spec_data.py from the Decay0 2020-04-20 reference text - do not edit. *)\n')
        f.write('(* Scheme graphs: edge = [s, d, site, lo, hi, items]; d = -1 is Return; lo/hi are <<a,b>> = a*1e-6 + b*1e-12; *)\n')
        f.write('(* item = [k in {"draw","call","loop"}, s = draw site, p = primitive, a = literal arguments ("?" = not a literal), *)\n')
        f.write('(*         ev = visible energy released by the call in eV (-1: not fixed),                                         *)\n')
        f.write('(*         tr = for a transition primitive <<E, threshold, 1 if possible>> per conversion shell + pair (0.01 eV)]. *)\n')
        f.write('EXTENDS Integers, Sequences, TLC\n\n')
        f.write('SchEdges ==\n  ')
        f.write('\n  @@ '.join(scheme_to_tla(k, s) for k, s in sorted(schemes.items())))
        f.write('\n\nSchNames == DOMAIN SchEdges\n')
        f.write('LowNames == {%s}\n' % ', '.join(tla_str(k) for k in sorted(schemes) if '@' in k))
        f.write('LowLevelKeV == %s\n' % ('\n  @@ '.join('%s :> %d' % (tla_str(k), s['level']) for k, s in sorted(schemes.items()) if '@' in k)))
        f.write('=============================================================================\n')
    with open(need[3], 'w') as f:
        f.write('------------------------------ MODULE DbdTable ------------------------------\n')
        f.write('(* GENERATED by tools/gen_spec_data.py from GENBBsub in the Decay0 2020-04-20 reference text - do not edit. *)\n')
        f.write('(* q4, z4: Q value and daughter charge of the quadruple-beta mode (0 when the text has none). *)\n')
        f.write('(* Energies in keV; Q, EK in keV (3 decimals in the text); spin flag 0 = 0+, 2 = 2+, -1 = not assigned by the text. *)\n')
        f.write('EXTENDS Integers, Sequences, TLC\n\n')
        f.write('DbdIso ==\n  ')
        ents = []
        for ent in table:
            lv = ', '.join('[e |-> %d, spin |-> %d, ek |-> %d]' % (l['E'], l['spin'], int(Decimal(l['EK']) * 1000)) for l in ent['levels'])
            ents.append('%s :> [q |-> %d, z |-> %d, a |-> %d, ek |-> %d, q4 |-> %d, z4 |-> %d, low |-> %s, levels |-> <<%s>>]' % (
                tla_str(ent['name']), int(Decimal(ent['Q']) * 1000), int(Decimal(ent['Z'])), int(Decimal(ent['A'])),
                int(Decimal(ent['EK']) * 1000), int(Decimal(ent.get('Q4', '0')) * 1000), int(Decimal(ent.get('Z4', '0'))),
                tla_str(low.get(ent['name'], '')), lv))
        f.write('\n  @@ '.join(ents))
        f.write('\n\nDbdNames == DOMAIN DbdIso\n')
        # the published mode tables (resources/description/dbd_modes.lis and README Appendix 1)
        sys.path.insert(0, os.path.join(ROOT, 'lib'))
        os.environ.setdefault('VERIF_REPO', repo)
        import catalogue
        lm = catalogue.lis_modes()
        rm = catalogue.readme_modes()
        f.write('\nLisModes == {%s}\n' % ', '.join('[id |-> %d, label |-> %s, legacy |-> %d]' % (i, tla_str(l), g) for (i, l, g, d) in lm))
        f.write('ReadmeModes == {%s}\n' % ', '.join('[id |-> %d, label |-> %s, legacy |-> %d]' % (i, tla_str(l), -1 if g is None else g) for (i, l, g) in rm))
        f.write('ReadmeDbdNames == {%s}\n' % ', '.join(tla_str(x) for x in catalogue.readme_dbd()))
        f.write('LisDbdNames == {%s}\n' % ', '.join(tla_str(x) for x in catalogue.lis_dbd()))
        rl = catalogue.readme_levels()
        ents = []
        for iso, levs in sorted(rl.items()):
            ents.append('%s :> <<%s>>' % (tla_str(iso), ', '.join('[e |-> %d, spin |-> %d]' % (
                round(float(e) * 1000), {'0+': 0, '2+': 2}.get(sp, -1)) for (i, sp, e) in levs)))
        f.write('ReadmeLevels ==\n  ' + '\n  @@ '.join(ents) + '\n')
        f.write('=============================================================================\n')
    open(stamp, 'w').write(h)
    if os.path.abspath(repo) == '/repo':
        # keep a readable copy of the generated modules next to the hand-written specifications
        import shutil
        os.makedirs(os.path.join(ROOT, 'spec', 'gen'), exist_ok=True)
        for fn in ('SchData.tla', 'DbdTable.tla'):
            shutil.copy(os.path.join(gdir, fn), os.path.join(ROOT, 'spec', 'gen', fn))
    sys.stderr.write('gen_spec_data: %d schemes (%d paths), %d isotopes, problems: %s\n' % (
        len(schemes), sum(s['paths'] for s in schemes.values()), len(table), problems))


main()
