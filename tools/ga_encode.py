#!/usr/bin/env python3
"""Write gA datasets with the REAL encoder of the repository under test.

usage: ga_encode.py <job.json> <out.json>

job = {"repo": "/repo", "root": "<dataset root>", "datasets": [ds, ...]}
  every ds: id, family, version, nuclide, process, n, qbb (decimal string with <= 4 decimals)
  family 1 (tables given by the model): emin, emax (decimal strings), lines = [e1 table, row 1 .. row n] as decimal
            strings, pdf = triangular rows of floats (for tab_pdf.data)
            -> mkocdfdata.save_tab_ncdf / save_tab_pdf (hence save_tab_cdf) of the repository write the files
  family 2 with direct = true: as family 1, the tables being arbitrary floats (repr strings)
  family 2 (whole pipeline): emin, step (floats), pdf = triangular rows; a 3-column "E1 E2 P" file is written and
            load_tab_pdf / fill_tab_cdf / fill_tab_ncdf / save_* of the repository produce both files; with cli = true the
            documented command line `python3 mkocdfdata.py <file> <isotope> <mode> <Qbb>` is run instead (and must
            give the same bytes)
The files go to <root>/data/dbd_gA/<version>/<nuclide>/<process>/tab_{ocdf,pdf}.data.
out = {"datasets": {id: {"ok": bool, "error": str, "emin": hex, "emax": hex, "ncdf": [[hex, ...], ...]}}}
"""
import importlib.util
import io
import json
import os
import shutil
import subprocess
import sys
import contextlib


def load_encoder(repo):
    path = os.path.join(repo, "resources", "data", "dbd_gA", "tools", "mkocdfdata.py")
    spec = importlib.util.spec_from_file_location("mkocdfdata_under_test", path)
    mod = importlib.util.module_from_spec(spec)
    spec.loader.exec_module(mod)
    return mod, path


def target_dir(root, ds):
    d = os.path.join(root, "data", "dbd_gA", ds["version"], ds["nuclide"], ds["process"])
    os.makedirs(d, exist_ok=True)
    return d


def write_family1(mk, root, ds):
    d = target_dir(root, ds)
    n = ds["n"]
    app = mk.mkocdfdata("(tables from the model)", ds["nuclide"], ds["process"], float(ds["qbb"]))
    app.e1min = float(ds["emin"])
    app.e1max = float(ds["emax"])
    app.ne1 = n
    app.ne2 = n
    app.estep = (app.e1max - app.e1min) / (n - 1)
    lines = [[float(v) for v in line] for line in ds["lines"]]
    app.tab_ncdf = [(lines[0][i], lines[1 + i]) for i in range(n)]
    app.ncdf_filename = os.path.join(d, "tab_ocdf.data")
    app.save_tab_ncdf(1, False)
    app.tab_pdf = ds["pdf"]
    app.opdf_filename = os.path.join(d, "tab_pdf.data")
    app.save_tab_pdf(False)
    res = {"ok": True, "emin": app.e1min.hex(), "emax": app.e1max.hex()}
    if ds["family"] == 2:      # tables given as floats (not model values): the expected tables are these floats
        res["ncdf"] = [[v.hex() for v in line] for line in lines]
    return res


def write_family2(mk, mkpath, root, ds, scratch):
    d = target_dir(root, ds)
    n = ds["n"]
    emin, step = float(ds["emin"]), float(ds["step"])
    infile = os.path.join(scratch, "pdf_%s.dat" % ds["id"])
    with open(infile, "w") as f:
        for i in range(n):
            for j in range(n - i):
                f.write("%r %r %r\n" % (emin + i * step, emin + j * step, ds["pdf"][i][j]))
    app = mk.mkocdfdata(infile, ds["nuclide"], ds["process"], float(ds["qbb"]), False)
    app.load_tab_pdf()
    app.fill_tab_cdf()
    app.fill_tab_ncdf()
    app.opdf_filename = os.path.join(d, "tab_pdf.data")
    app.ncdf_filename = os.path.join(d, "tab_ocdf.data")
    app.save_tab_pdf(False)
    app.save_tab_ncdf(1, False)
    if ds.get("cli"):
        cwd = os.path.join(scratch, "cli_%s" % ds["id"])
        os.makedirs(cwd, exist_ok=True)
        p = subprocess.run([sys.executable, mkpath, infile, ds["nuclide"], ds["process"], ds["qbb"]], cwd=cwd,
                           stdout=subprocess.DEVNULL, stderr=subprocess.PIPE, timeout=60, text=True)
        if p.returncode != 0:
            return {"ok": False, "error": "mkocdfdata.py command line failed (%d): %s" % (p.returncode, p.stderr[-500:])}
        for name in ("tab_pdf.data", "tab_ocdf.data"):
            a = open(os.path.join(cwd, name), "rb").read()
            b = open(os.path.join(d, name), "rb").read()
            if a != b:
                return {"ok": False, "error": "command line and class API wrote different %s" % name}
            shutil.copyfile(os.path.join(cwd, name), os.path.join(d, name))
        shutil.rmtree(cwd, ignore_errors=True)
    os.unlink(infile)
    ncdf = [[p.hex() for (p, _) in app.tab_ncdf]] + [[v.hex() for v in row] for (_, row) in app.tab_ncdf]
    return {"ok": True, "emin": float(app.e1min).hex(), "emax": float(app.e1max).hex(), "ncdf": ncdf}


def main():
    job = json.load(open(sys.argv[1]))
    mk, mkpath = load_encoder(job["repo"])
    root = job["root"]
    scratch = os.path.join(root, "_scratch_%d" % os.getpid())
    os.makedirs(scratch, exist_ok=True)
    out = {}
    sink = io.StringIO()
    for ds in job["datasets"]:
        try:
            with contextlib.redirect_stderr(sink):
                if ds["family"] == 1 or ds.get("direct"):
                    out[ds["id"]] = write_family1(mk, root, ds)
                else:
                    out[ds["id"]] = write_family2(mk, mkpath, root, ds, scratch)
        except Exception as e:  # the encoder refused a well-formed input: reported, not hidden
            out[ds["id"]] = {"ok": False, "error": "%s: %s" % (type(e).__name__, e)}
        sink.seek(0)
        sink.truncate()
    shutil.rmtree(scratch, ignore_errors=True)
    with open(sys.argv[2], "w") as f:
        json.dump({"datasets": out}, f)
    return 0


if __name__ == "__main__":
    sys.exit(main())
