#!/usr/bin/env python3
"""mk_ga_dataset.py <outdir> <nuclide> <process>

Writes a small valid synthetic gA dataset (tab_pdf.data and tab_ocdf.data) into
    <outdir>/data/dbd_gA/v1.0/<nuclide>/<process>/
with the repository's own encoder (resources/data/dbd_gA/tools/mkocdfdata.py of $VERIF_REPO, default /repo), from an
8 x 8 triangular joint p.d.f. shaped like the shipped Test/g0 table and scaled to the nuclide's Q value.
Use it with  BXDECAY0_DBD_GA_DATA_DIR=<outdir> : bxdecay0::dbd_gA (both shooting methods) and decay0_generator in
the gA modes (DBDMODE_2NUBB_GA_G0 = 21 ... G4 = 24) then initialise and shoot for that nuclide / process.

nuclide: Se82 | Mo100 | Cd116 | Nd150 | Test      process: g0 | g2 | g22 | g4
"""
import contextlib
import importlib.util
import io
import os
import sys

QBB = {"Se82": "2.9951", "Mo100": "3.0344", "Cd116": "2.8135", "Nd150": "3.3714", "Test": "3.0000"}

SHAPE = [
    [0.05, 0.20, 0.30, 0.30, 0.20, 0.05, 0.01, 0.001],
    [0.20, 0.35, 0.35, 0.25, 0.12, 0.01, 0.001],
    [0.30, 0.35, 0.30, 0.12, 0.01, 0.001],
    [0.30, 0.25, 0.12, 0.01, 0.001],
    [0.20, 0.12, 0.01, 0.001],
    [0.05, 0.01, 0.001],
    [0.01, 0.001],
    [0.001],
]


def main():
    if len(sys.argv) != 4:
        sys.stderr.write(__doc__)
        return 2
    outdir, nuclide, process = sys.argv[1:4]
    if nuclide not in QBB or process not in ("g0", "g2", "g22", "g4"):
        sys.stderr.write("unsupported nuclide or process\n" + __doc__)
        return 2
    repo = os.environ.get("VERIF_REPO", "/repo")
    path = os.path.join(repo, "resources", "data", "dbd_gA", "tools", "mkocdfdata.py")
    spec = importlib.util.spec_from_file_location("mkocdfdata", path)
    mk = importlib.util.module_from_spec(spec)
    spec.loader.exec_module(mk)
    d = os.path.join(os.path.abspath(outdir), "data", "dbd_gA", "v1.0", nuclide, process)
    os.makedirs(d, exist_ok=True)
    n = len(SHAPE)
    qbb = float(QBB[nuclide])
    emin = 0.05
    emax = round(qbb - 0.1 - emin, 4)          # E_min + E_max = Qbb - 0.1 MeV: the whole tabulated triangle is allowed
    step = (emax - emin) / (n - 1)
    infile = os.path.join(d, "joint_pdf.3col")
    with open(infile, "w") as f:
        for i in range(n):
            for j in range(n - i):
                f.write("%r %r %r\n" % (emin + i * step, emin + j * step, SHAPE[i][j]))
    with contextlib.redirect_stderr(io.StringIO()):
        app = mk.mkocdfdata(infile, nuclide, process, qbb, False)
        app.load_tab_pdf()
        app.fill_tab_cdf()
        app.fill_tab_ncdf()
        app.opdf_filename = os.path.join(d, "tab_pdf.data")
        app.ncdf_filename = os.path.join(d, "tab_ocdf.data")
        app.save_tab_pdf(False)
        app.save_tab_ncdf(1, False)
    os.unlink(infile)
    print(d)
    return 0


if __name__ == "__main__":
    sys.exit(main())
