#!/usr/bin/env python3
"""mkref.py <decay0.for> <out.f>

Turns the Decay0 reference program text shipped in the repository into a library source:
* CR stripped, TAB-'+' continuation lines normalised, D-lines treated as comments by the compiler flags;
* the main program (program DECAY0 ... end) removed: only GENBBsub and what it calls are kept;
* a `call vtr...` statement inserted as first executable statement of every emission primitive and every
  decay-scheme routine so that the reference emits the same event vocabulary as the instrumented port
  (the vtr* routines are C functions in ref/refshim.c).
Nothing else of the program text is touched."""
import re
import sys

DECL = re.compile(r'^(common|dimension|external|real|integer|double\s*precision|character|save|parameter|data|logical|'
                  r'complex|implicit|equivalence|intrinsic)\b', re.I)

PRIMS = {
    'particle': 'call vtrpart(np,E1,E2,teta1,teta2,phi1,phi2,tclev,thlev)',
    'gamma': 'call vtrgam(E,tclev,thlev)',
    'electron': 'call vtrele(E,tclev,thlev)',
    'positron': 'call vtrpos(E,tclev,thlev)',
    'alpha': 'call vtralp(E,tclev,thlev)',
    'pair': 'call vtrpair(Epair,tclev,thlev)',
    'beta': 'call vtrbeta(Qbeta,Zdtr,tcnuc,thnuc)',
    'beta1': 'call vtrbeta1(Qbeta,Zdtr,tcnuc,thnuc,c1,c2,c3,c4)',
    'beta2': 'call vtrbeta2(Qbeta,Zdtr,tcnuc,thnuc,kf,c1,c2,c3,c4)',
    'beta_1fu': 'call vtrbeta1fu(Qbeta,Zdtr,tcnuc,thnuc,c1,c2,c3,c4)',
    'nucltransk': 'call vtrntk(Egamma,Ebinde,conve,convp,tclev,thlev)',
    'nucltranskl': 'call vtrntkl(Egamma,EbindeK,conveK,EbindeL,conveL,convp,tclev,thlev)',
    'nucltransklm': 'call vtrntklm(Egamma,EbindeK,conveK,EbindeL,conveL,EbindeM,conveM,convp,tclev,thlev)',
    'nucltransklm_pb': 'call vtrntklmpb(Egamma,EbindeK,conveK,EbindeL,conveL,EbindeM,conveM,convp,tclev,thlev)',
    'pbatshell': 'call vtrpbat(KLMenergy,tclev,thlev)',
    'bb': 'call vtrbb(modebb,istartbb,Qbb,Edlevel,EK,Zdbb,Adbb)',
}


def main():
    src, out = sys.argv[1], sys.argv[2]
    text = open(src, encoding='latin-1').read().replace('\r', '')
    lines = text.split('\n')
    lines = [re.sub(r'^\t\+', '     +', l) for l in lines]
    # --- drop the main program
    res = []
    i = 0
    n = len(lines)
    in_main = False
    dropped = 0
    while i < n:
        l = lines[i]
        code = l.split('!')[0]
        if not in_main and re.match(r'^\s+program\s+\w+', code, re.I) and l[:1] not in 'cC*!':
            in_main = True
        if in_main:
            dropped += 1
            if re.match(r'^\s+end\s*$', code, re.I) and l[:1] not in 'cC*!dD':
                in_main = False
            i += 1
            continue
        res.append(l)
        i += 1
    lines = res
    # --- insert trace calls
    out_lines = []
    pending = None          # statement to insert before the first executable statement
    header_open = False     # inside a (possibly continued) subroutine header
    nsch = 0
    for idx, l in enumerate(lines):
        is_comment = l[:1] in 'cC*!' or (l[:1] in 'dD' and l[1:2] in ' \t') or not l.strip()
        is_cont = bool(re.match(r'^     [^ 0]', l))
        if pending is not None and not is_comment and not is_cont:
            code = l.split('!')[0]
            m = re.match(r'^(\d*)\s+(.*)$', code)
            stmt = m.group(2).strip() if m else code.strip()
            if header_open:
                header_open = False
            if not DECL.match(stmt) or m.group(1):
                out_lines.append('\t' + pending)
                pending = None
        if not is_comment and not is_cont:
            code = l.split('!')[0]
            m = re.match(r'^\s+subroutine\s+(\w+)\s*\(([^)]*)', code, re.I)
            if m:
                name = m.group(1)
                low = name.lower()
                params = [p.strip().lower() for p in m.group(2).split(',')]
                if low in PRIMS:
                    pending = PRIMS[low]
                elif params[:1] == ['tcnuc'] and low not in PRIMS:
                    pending = "call vtrsch('%s',tcnuc)" % name
                    nsch += 1
                elif params == ['levelkev']:
                    name = name[0].upper() + name[1:]     # 'pt192low' is declared in lower case and called as Pt192low
                    pending = "call vtrlow('%s',levelkev)" % name
                    nsch += 1
                header_open = True
        out_lines.append(l)
    open(out, 'w').write('\n'.join(out_lines) + '\n')
    sys.stderr.write('mkref: dropped %d lines of main program, instrumented %d primitives + %d scheme routines\n' % (
        dropped, len(PRIMS), nsch))


main()
