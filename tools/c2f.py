#!/usr/bin/env python3
"""c2f.py - the decay-scheme routines that exist only in BxDecay0 (no counterpart in the Decay0 reference text: Pa231, Po210,
Po218, Ra226, Rn222, Th230, U234, U238) are written in the same restricted shape as the ported ones (uniform draws compared
with decimal literals, labelled blocks, gotos, calls of the emission primitives).  This tool rewrites such a C++ function
into the fixed-form text that tools/f2ts.py reads, so that the same symbolic extraction yields their transition systems.

Supported statements: declarations with or without initialiser, assignments, if / else if / else with braces, labels,
goto, return, calls decay0_<primitive>(prng_, event_, ...); `if (debug) {...}` blocks and comments are dropped.
Anything else raises ValueError (the caller reports it as a problem instead of guessing).
"""
import re
import sys

PORT_ONLY = ['Pa231', 'Po210', 'Po218', 'Ra226', 'Rn222', 'Th230', 'U234', 'U238']


def strip_comments(s):
    s = re.sub(r'/\*.*?\*/', ' ', s, flags=re.S)
    s = re.sub(r'//[^\n]*', '', s)
    return s


def match_brace(s, i):
    """s[i] == '{' -> index of the matching '}'"""
    depth = 0
    for j in range(i, len(s)):
        if s[j] == '{':
            depth += 1
        elif s[j] == '}':
            depth -= 1
            if depth == 0:
                return j
    raise ValueError('unbalanced braces')


def match_paren(s, i):
    depth = 0
    for j in range(i, len(s)):
        if s[j] == '(':
            depth += 1
        elif s[j] == ')':
            depth -= 1
            if depth == 0:
                return j
    raise ValueError('unbalanced parentheses')


def expr(e):
    e = re.sub(r'\s+', '', e)
    e = e.replace('prng_()', 'rnd1(d)').replace('std::log(', 'alog(').replace('std::exp(', 'exp(').replace('std::sqrt(', 'sqrt(')
    e = e.replace('<=', '.le.').replace('>=', '.ge.').replace('==', '.eq.').replace('!=', '.ne.')
    e = e.replace('<', '.lt.').replace('>', '.gt.').replace('&&', '.and.').replace('||', '.or.')
    e = re.sub(r'\b(\w+)_\b', r'\1', e)      # tcnuc_ -> tcnuc
    if '::' in e or '[' in e or '"' in e:
        raise ValueError('unsupported expression: ' + e)
    return e


class Conv:
    def __init__(self):
        self.labels = {}
        self.out = []
        self.pending_label = None

    def lab(self, name):
        if name not in self.labels:
            m = re.search(r'(\d+)$', name)
            n = int(m.group(1)) if m else 0
            n = n % 90000 + 1 if n >= 99999 else n + 1
            while n in self.labels.values():
                n += 1
            self.labels[name] = n
        return self.labels[name]

    def emit(self, text):
        if self.pending_label is not None:
            self.out.append('%-5d %s' % (self.pending_label, text))
            self.pending_label = None
        else:
            self.out.append('\t' + text)

    def block(self, s):
        i = 0
        n = len(s)
        while i < n:
            if s[i].isspace() or s[i] == ';':
                i += 1
                continue
            m = re.match(r'(\w+)\s*:(?!:)', s[i:])
            if m and m.group(1) not in ('default',):
                if self.pending_label is not None:
                    self.emit('continue')
                self.pending_label = self.lab(m.group(1))
                i += m.end()
                continue
            m = re.match(r'if\s*\(', s[i:])
            if m:
                i = self.if_chain(s, i)
                continue
            # simple statement up to ';'
            j = i
            depth = 0
            while j < n and not (s[j] == ';' and depth == 0):
                if s[j] in '({':
                    depth += 1
                elif s[j] in ')}':
                    depth -= 1
                j += 1
            st = s[i:j].strip()
            i = j + 1
            self.stmt(st)

    def if_chain(self, s, i):
        """s[i:] starts with 'if (' -> index after the whole if / else if / else construct"""
        first = True
        while True:
            p0 = s.index('(', i)
            p1 = match_paren(s, p0)
            cond = s[p0 + 1:p1]
            j = p1 + 1
            while s[j].isspace():
                j += 1
            if s[j] != '{':
                raise ValueError('if without braces near: ' + s[i:i + 60])
            b1 = match_brace(s, j)
            if first and re.sub(r'\s+', '', cond) == 'debug':
                return b1 + 1
            self.emit(('if(%s) then' if first else 'else if(%s) then') % expr(cond))
            self.block(s[j + 1:b1])
            i = b1 + 1
            first = False
            m2 = re.match(r'\s*else\s+if\b', s[i:])
            if m2:
                i += m2.end()
                continue
            m3 = re.match(r'\s*else\s*\{', s[i:])
            if m3:
                j = i + m3.end() - 1
                b1 = match_brace(s, j)
                self.emit('else')
                self.block(s[j + 1:b1])
                i = b1 + 1
            self.emit('endif')
            return i

    def stmt(self, st):
        if not st:
            return
        if 'BXDECAY0_VERIF' in st:
            return
        m = re.match(r'goto\s+(\w+)$', st)
        if m:
            self.emit('goto %d' % self.lab(m.group(1)))
            return
        if st == 'return':
            self.emit('return')
            return
        m = re.match(r'decay0_(\w+)\s*\((.*)\)$', st, re.S)
        if m:
            args = [a.strip() for a in split_args(m.group(2))]
            if args[:2] != ['prng_', 'event_']:
                raise ValueError('unexpected call: ' + st)
            self.emit('call %s(%s)' % (m.group(1), ','.join(expr(a) for a in args[2:])))
            return
        m = re.match(r'(?:const\s+)?(?:double|int|bool)\s+(.*)$', st, re.S)
        if m:
            for d in split_args(m.group(1)):
                if '=' in d:
                    v, e = d.split('=', 1)
                    if v.strip() == 'debug':
                        continue
                    self.emit('%s=%s' % (expr(v), expr(e)))
            return
        m = re.match(r'(\w+)\s*=(?!=)(.*)$', st, re.S)
        if m:
            self.emit('%s=%s' % (expr(m.group(1)), expr(m.group(2))))
            return
        raise ValueError('unsupported statement: ' + st[:80])


def split_args(s):
    out, depth, cur = [], 0, ''
    for ch in s:
        if ch in '(':
            depth += 1
        elif ch == ')':
            depth -= 1
        if ch == ',' and depth == 0:
            out.append(cur)
            cur = ''
        else:
            cur += ch
    if cur.strip():
        out.append(cur)
    return out


def convert(path, name):
    s = strip_comments(open(path, encoding='latin-1').read())
    m = re.search(r'void\s+%s\s*\(\s*i_random\s*&\s*prng_\s*,\s*event\s*&\s*event_\s*,\s*const\s+double\s+tcnuc_\s*,\s*double\s*&\s*tdnuc_\s*\)\s*\{' % name, s)
    if not m:
        raise ValueError('no scheme function %s in %s' % (name, path))
    b0 = m.end() - 1
    b1 = match_brace(s, b0)
    c = Conv()
    c.block(s[b0 + 1:b1])
    if c.pending_label is not None:
        c.emit('continue')
    lines = ['\tsubroutine %s(tcnuc,thnuc,tdnuc)' % name] + c.out + ['\treturn', '\tend', '']
    return '\n'.join(lines)


if __name__ == '__main__':
    repo = sys.argv[1]
    for n in (sys.argv[2:] or PORT_ONLY):
        print(convert('%s/bxdecay0/%s.cc' % (repo, n), n))
