import sys,json,collections,time,random; sys.path.insert(0,'/verif/lib'); sys.path.insert(0,'/verif/checks')
import vlib, c01
exe=c01.cosim_exe()
tab=json.load(open(vlib.gen_dir()+'/dbdtable.json'))['table']
N=int(sys.argv[1]); modes=[int(x) for x in sys.argv[2].split(',')]; isos=sys.argv[3].split(',') if len(sys.argv)>3 else None
jobs=[]
for ent in tab:
    if isos and ent['name'] not in isos: continue
    for il,lv in enumerate(ent['levels']):
        for m in modes:
            jobs.append("D %s.%d.%d %s %d %d x x %d %d -1 0.5 0%s"%(ent["name"],il,m,ent["name"],il,m,777,N," N 0.7 0.3 1.1 0.4 0.2 0.9 0.6" if m==18 else ""))
t=time.time()
rc,out=vlib.sh([exe],input="\n".join(jobs)+"\n",timeout=3000,env=vlib.harness_env('plain'))
print(rc,len(jobs),round(time.time()-t,1))
res=collections.defaultdict(collections.Counter); first={}
for l in out.splitlines():
    if not l.startswith('{'): continue
    j=json.loads(l); n=j['id'].rsplit(':',1)[0]; 
    c=j['cls'] if not j['id'].endswith(':init') else 'init:'+j['cls']+(':ier%s/%s'%(j.get('ier_port'),j.get('ier_ref')))
    res[n][c]+=1
    if j['cls'] not in('agree',) and (n,c) not in first: first[(n,c)]=j['id']+' '+j['detail']
tot=collections.Counter()
for n in res:
    for c,v in res[n].items(): tot[c]+=v
    bad={c:v for c,v in res[n].items() if not (c=='agree' or c.startswith('init:agree'))}
    if bad: print(n, bad, [v[:200] for k,v in first.items() if k[0]==n][:2])
print(dict(tot))
