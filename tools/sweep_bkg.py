import sys,subprocess,json,collections,time; sys.path.insert(0,'/verif/lib')
import vlib
rc,out=vlib.sh(['/verif/bin/build_ref'],timeout=300); refdir=out.strip().splitlines()[-1]
exe=vlib.compile_harness('cosim',['harness/cosim.cc'],'plain',extra=['-I',vlib.ROOT+'/ref'],libs=['-L',refdir,'-ldecay0ref','-Wl,-rpath,'+refdir])
names=[l.split()[0] for l in open(vlib.repo()+'/resources/description/background_isotopes.lis') if l.strip() and not l.startswith('#')]
N=int(sys.argv[1]) if len(sys.argv)>1 else 300
jobs=[]
for n in names:
    for i in range(N):
        jobs.append("B %s.%d %s %d -1 0.5 0"%(n,i,n,1000+i))
t=time.time()
rc,out=vlib.sh([exe],input="\n".join(jobs)+"\n",timeout=1200,env=vlib.harness_env('plain'))
print(rc, time.time()-t)
res=collections.defaultdict(collections.Counter); first={}
for l in out.splitlines():
    if not l.startswith('{'): continue
    j=json.loads(l); n=j['id'].split('.')[0]; res[n][j['cls']]+=1
    if j['cls']!='agree' and (n,j['cls']) not in first: first[(n,j['cls'])]=j['id']+' '+j['detail']
for n in names:
    if set(res[n])-{'agree'}: print(n, dict(res[n]), [ (k[1],v[:220]) for k,v in first.items() if k[0]==n][:3])
if rc: print(out[-800:])
