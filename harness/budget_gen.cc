// Events and full-range/window ratios through decay0_generator (library layer) for C03: BxDecay0-only configurations
// (gA modes on a mounted dataset) and chains of nested energy windows.
//   G <id> <iso> <level> <mode> <lo|x> <hi|x> <seed> <nev>     events -> --ev-trace (Event.tla projection)
//   W <id> <iso> <level> <mode> <k> lo1 hi1 .. lok hik            nested windows, widest first -> --win-trace (Window.tla)
#include <cstdlib>

#include <bxdecay0/decay0_generator.h>
#include <bxdecay0/genbbsub.h>
#include <bxdecay0/bb.h>

#include "common/evtrace.h"
#include "common/vh.h"

int main(int argc, char ** argv)
{
  FILE * ev_out = nullptr, * win_out = nullptr;
  for (int i = 1; i < argc; i++) {
    if (std::string(argv[i]) == "--ev-trace" && i + 1 < argc) ev_out = std::fopen(argv[++i], "w");
    if (std::string(argv[i]) == "--win-trace" && i + 1 < argc) win_out = std::fopen(argv[++i], "w");
  }
  std::string line;
  while (std::getline(std::cin, line)) {
    std::istringstream ls(line);
    std::string k, id, iso;
    int level, mode;
    ls >> k >> id >> iso >> level >> mode;
    if (k == "G") {
      std::string lo, hi;
      uint64_t seed;
      int nev;
      ls >> lo >> hi >> seed >> nev;
      double qgiven = -1.0;
      ls >> qgiven; // optional: the isotope's Q value, for the modes that do not fill the parameter block
      bxdecay0::decay0_generator g;
      vh::stream prng(seed);
      std::string err;
      try {
        g.set_decay_category(bxdecay0::decay0_generator::DECAY_CATEGORY_DBD);
        g.set_decay_isotope(iso);
        g.set_decay_dbd_level(level);
        g.set_decay_dbd_mode((bxdecay0::dbd_mode_type)mode);
        if (lo != "x") g.set_decay_dbd_esum_range(std::atof(lo.c_str()), std::atof(hi.c_str()));
        g.initialize(prng);
        bxdecay0::event ev;
        for (int i = 0; i < nev; i++) {
          g.shoot(prng, ev);
          const auto & bp = g.get_bb_params();
          // gA modes do not go through the parameter block: Q is the isotope's, taken from a plain mode-4 initialisation by the caller
          double q = (qgiven > 0) ? qgiven : bp.Qbb;
          vh::dump_ev_trace(ev_out, id + ":" + std::to_string(i), ev, iso, true, mode, q, mode <= 20 ? bp.ebb1 : 0.0, mode <= 20 ? bp.ebb2 : 0.0, lo != "x" && mode <= 20, 0);
        }
      } catch (std::exception & e) {
        err = e.what();
      }
      std::printf("{\"id\":\"%s\",\"error\":\"%s\",\"ratio\":\"%.9g\"}\n", id.c_str(), vh::json_escape(err).c_str(), err.empty() ? g.get_to_all_events() : -1.0);
    } else if (k == "W") {
      int n;
      ls >> n;
      if (win_out) std::fprintf(win_out, "{\"e\":\"Reset\",\"id\":\"%s\"}\n", id.c_str());
      std::string err;
      for (int w = -1; w < n && err.empty(); w++) {
        double lo = 0, hi = 0;
        if (w >= 0) ls >> lo >> hi;
        bxdecay0::decay0_generator g;
        vh::stream prng(1);
        try {
          g.set_decay_category(bxdecay0::decay0_generator::DECAY_CATEGORY_DBD);
          g.set_decay_isotope(iso);
          g.set_decay_dbd_level(level);
          g.set_decay_dbd_mode((bxdecay0::dbd_mode_type)mode);
          if (w >= 0) g.set_decay_dbd_esum_range(lo, hi);
          g.initialize(prng);
          double r = g.get_to_all_events();
          double rc = std::isfinite(r) ? std::min(r, 2000.0) : -1.0;
          if (win_out) {
            if (w < 0) std::fprintf(win_out, "{\"e\":\"Full\",\"r\":%lld}\n", std::llround(rc * 1e6));
            else std::fprintf(win_out, "{\"e\":\"Narrow\",\"lo\":%lld,\"hi\":%lld,\"r\":%lld}\n", vh::ev_i8(g.get_bb_params().ebb1), vh::ev_i8(g.get_bb_params().ebb2), std::llround(rc * 1e6));
          }
        } catch (std::exception & e) {
          err = e.what();
        }
      }
      std::printf("{\"id\":\"%s\",\"error\":\"%s\"}\n", id.c_str(), vh::json_escape(err).c_str());
    } else if (k == "V") {
      // the same chain through the legacy interface: ONE caller-owned bbpars block, initialised again for every window
      // (genbbsub ISTART_INIT, no reset of the block in between); the chain starts with the full range
      int n;
      ls >> n;
      if (win_out) std::fprintf(win_out, "{\"e\":\"Reset\",\"id\":\"%s\"}\n", id.c_str());
      std::string err;
      bxdecay0::bbpars pars;
      for (int w = -1; w < n && err.empty(); w++) {
        double lo = 0.0, hi = 4.3;
        if (w >= 0) ls >> lo >> hi;
        vh::stream prng(1);
        bxdecay0::event ev;
        int ier = 0;
        try {
          pars.ebb1 = lo;
          pars.ebb2 = hi;
          bxdecay0::genbbsub(prng, ev, bxdecay0::GENBBSUB_I2BBS_DBD, iso, level, mode, bxdecay0::GENBBSUB_ISTART_INIT, ier, pars);
          if (ier != 0) {
            err = "genbbsub refuses (ier=" + std::to_string(ier) + ")";
            break;
          }
          double r  = pars.toallevents;
          double rc = std::isfinite(r) ? std::min(r, 2000.0) : -1.0;
          if (win_out) {
            if (w < 0) std::fprintf(win_out, "{\"e\":\"Full\",\"r\":%lld}\n", std::llround(rc * 1e6));
            else std::fprintf(win_out, "{\"e\":\"Narrow\",\"lo\":%lld,\"hi\":%lld,\"r\":%lld}\n", vh::ev_i8(pars.ebb1), vh::ev_i8(pars.ebb2), std::llround(rc * 1e6));
          }
        } catch (std::exception & e) {
          err = e.what();
        }
      }
      std::printf("{\"id\":\"%s\",\"error\":\"%s\"}\n", id.c_str(), vh::json_escape(err).c_str());
    }
    std::fflush(stdout);
  }
  if (ev_out) std::fclose(ev_out);
  if (win_out) std::fclose(win_out);
  return 0;
}
