// Independent generator instances on different threads (property C12, spec/Sharing.tla).
//   --mode baton  stdin: one pair "cfgA cfgB" per line.  Both configurations are first run alone (their own generator,
//                 their own seeded deviate source), then on two threads under the Baton schedule of Sharing.tla: after every
//                 deviate the baton goes to the other thread, so the two decays are interleaved segment by segment and only
//                 one thread runs at a time (deterministic).  Each thread's events must equal those of its run alone.
//   --mode free   stdin: one configuration per line.  N free-running threads, each generating every configuration in a
//                 rotated order with its own generator and source (for ThreadSanitizer); events compared with a run alone.
//   --mode handover stdin: one configuration per line.  spec/Handover.tla: every generator is initialised, shot and reset by
//                 different threads (one at a time); events compared with the same stages on one thread.
// cfg = <name>:bkg | <isotope>:<level>:<mode>[:<emin>:<emax>]
#include <atomic>
#include <condition_variable>
#include <mutex>
#include <thread>

#include <bxdecay0/dbd_gA.h>
#include <bxdecay0/decay0_generator.h>
#include <bxdecay0/mdl_event_op.h>
#include <locale>
#include <memory>

#include "common/vh.h"

struct GenCfg
{
  std::string txt, iso;
  int level = 0, mode = 1;
  double emin = -1, emax = -1;
  bool bkg = false;
};

static GenCfg parse_cfg(const std::string & s)
{
  GenCfg c;
  c.txt = s;
  std::vector<std::string> f;
  std::string cur;
  for (char ch : s) {
    if (ch == ':') {
      f.push_back(cur);
      cur.clear();
    } else {
      cur += ch;
    }
  }
  f.push_back(cur);
  c.iso = f.at(0);
  if (f.size() > 1 && f[1] == "bkg") {
    c.bkg = true;
    return c;
  }
  if (f.size() > 1) c.level = std::atoi(f[1].c_str());
  if (f.size() > 2) c.mode = std::atoi(f[2].c_str());
  if (f.size() > 4) {
    c.emin = std::atof(f[3].c_str());
    c.emax = std::atof(f[4].c_str());
  }
  return c;
}

static void configure(bxdecay0::decay0_generator & g, const GenCfg & c)
{
  if (c.bkg) {
    g.set_decay_category(bxdecay0::decay0_generator::DECAY_CATEGORY_BACKGROUND);
    g.set_decay_isotope(c.iso);
    return;
  }
  g.set_decay_category(bxdecay0::decay0_generator::DECAY_CATEGORY_DBD);
  g.set_decay_isotope(c.iso);
  g.set_decay_dbd_level(c.level);
  g.set_decay_dbd_mode(static_cast<bxdecay0::dbd_mode_type>(c.mode));
  if (c.emin >= 0) g.set_decay_dbd_esum_range(c.emin, c.emax);
}

// "GATEST": a dbd_gA object (rejection shooter, shipped mock table Test/g0) generating complete events (the two electrons are
// rotated by the shared helper rotate_zyz); "MDL@<cfg>": the configuration with a momentum-direction-lock operation installed
static std::vector<std::string> ga_test_events(bxdecay0::i_random & prng, int nev)
{
  std::vector<std::string> out;
  try {
    bxdecay0::dbd_gA g;
    const char * ver = std::getenv("VERIF_GA_VERSION");   // "." = the shipped mock table; a generated tree uses v1.0
    g.set_dataset_version(ver ? ver : ".");
    g.set_nuclide("Test");
    g.set_process(bxdecay0::dbd_gA::PROCESS_G0);
    g.set_shooting(bxdecay0::dbd_gA::SHOOTING_REJECTION);
    g.initialize();
    for (int i = 0; i < nev * 10; i++) {
      bxdecay0::event ev;
      g.shoot(prng, ev);
      out.push_back(vh::fingerprint(ev));
    }
  } catch (std::exception & e) {
    out.push_back(std::string("EXCEPTION ") + e.what());
  }
  return out;
}

static std::vector<std::string> init_and_shoot(const GenCfg & c0, bxdecay0::i_random & prng, int nev)
{
  if (c0.txt == "GATEST") return ga_test_events(prng, nev);
  std::vector<std::string> out;
  GenCfg c = c0;
  bool mdl = c0.txt.compare(0, 4, "MDL@") == 0;
  if (mdl) c = parse_cfg(c0.txt.substr(4));
  try {
    bxdecay0::decay0_generator g;
    configure(g, c);
    if (mdl) {
      auto op = std::make_shared<bxdecay0::momentum_direction_lock_event_op>();
      op->set(bxdecay0::INVALID_PARTICLE, (c.txt.size() % 2) ? 0 : -1, 0.3, -0.4, 0.8, 0.6, false);
      g.add_operation(op);
    }
    g.initialize(prng);
    for (int i = 0; i < nev; i++) {
      bxdecay0::event ev;
      g.shoot(prng, ev);
      out.push_back(vh::fingerprint(ev));
    }
    g.reset();
  } catch (std::exception & e) {
    out.push_back(std::string("EXCEPTION ") + e.what());
  }
  return out;
}

// ------------------------------------------------------------------------------------------------ baton
struct Baton
{
  std::mutex m;
  std::condition_variable cv;
  int turn      = 0;
  bool alive[2] = {true, true};
  long handovers = 0;
  bool alternation_ok = true;
  int last = -1;
  void acquire(int me)
  {
    std::unique_lock<std::mutex> l(m);
    cv.wait(l, [&] { return turn == me; });
  }
  // called by `me` after it has drawn a deviate
  void pass(int me)
  {
    std::unique_lock<std::mutex> l(m);
    if (last == me && alive[1 - me]) alternation_ok = false;   // two draws in a row while the other thread was alive
    last = me;
    if (!alive[1 - me]) return;
    turn = 1 - me;
    handovers++;
    cv.notify_all();
    cv.wait(l, [&] { return turn == me; });
  }
  void finish(int me)
  {
    std::unique_lock<std::mutex> l(m);
    alive[me] = false;
    turn      = 1 - me;
    cv.notify_all();
  }
};

struct BatonSource : public bxdecay0::i_random
{
  vh::stream s;
  Baton & b;
  int me;
  BatonSource(uint64_t seed, Baton & b_, int me_) : s(seed), b(b_), me(me_) {}
  double operator()() override
  {
    double u = s();
    b.pass(me);
    return u;
  }
};

static int run_baton(int nev)
{
  std::string line;
  long npairs = 0;
  while (std::getline(std::cin, line)) {
    std::istringstream ls(line);
    std::string ca, cb;
    if (!(ls >> ca >> cb)) continue;
    GenCfg c[2] = {parse_cfg(ca), parse_cfg(cb)};
    uint64_t seed[2] = {1000003ULL * (uint64_t)(npairs + 1) + 11, 1000033ULL * (uint64_t)(npairs + 1) + 29};
    std::vector<std::string> alone[2], conc[2];
    uint64_t draws[2];
    for (int t = 0; t < 2; t++) {
      vh::stream s(seed[t]);
      alone[t] = init_and_shoot(c[t], s, nev);
      draws[t] = s.served;
    }
    Baton b;
    std::thread th[2];
    for (int t = 0; t < 2; t++) {
      th[t] = std::thread([&, t] {
        b.acquire(t);
        BatonSource src(seed[t], b, t);
        conc[t] = init_and_shoot(c[t], src, nev);
        b.finish(t);
      });
    }
    th[0].join();
    th[1].join();
    bool d0 = alone[0] != conc[0], d1 = alone[1] != conc[1];
    int first[2] = {-1, -1};
    for (int t = 0; t < 2; t++)
      for (size_t i = 0; i < alone[t].size() && i < conc[t].size(); i++)
        if (alone[t][i] != conc[t][i]) {
          first[t] = (int)i;
          break;
        }
    printf("{\"a\":\"%s\",\"b\":\"%s\",\"draws\":[%llu,%llu],\"handovers\":%ld,\"alternation_ok\":%s,\"differ\":[%s,%s],\"first\":[%d,%d],"
           "\"exc\":%s}\n",
           ca.c_str(), cb.c_str(), (unsigned long long)draws[0], (unsigned long long)draws[1], b.handovers, b.alternation_ok ? "true" : "false",
           d0 ? "true" : "false", d1 ? "true" : "false", first[0], first[1],
           ((!alone[0].empty() && alone[0].back().compare(0, 9, "EXCEPTION") == 0) || (!alone[1].empty() && alone[1].back().compare(0, 9, "EXCEPTION") == 0))
             ? "true"
             : "false");
    fflush(stdout);
    npairs++;
  }
  return 0;
}

// VERIF_APP_LOCALE=comma: the application has installed a global C++ locale of its own (decimal comma, grouping by dots) before
// it uses the library - process-wide state the library has to leave alone
struct comma_numpunct : std::numpunct<char>
{
  char do_decimal_point() const override { return ','; }
  char do_thousands_sep() const override { return '.'; }
  std::string do_grouping() const override { return "\3"; }
};
static bool g_app_locale = false;
static bool app_locale_intact()
{
  if (!g_app_locale) return true;
  return std::use_facet<std::numpunct<char>>(std::locale()).decimal_point() == ',';
}

// ------------------------------------------------------------------------------------------------ free-running threads
static int run_free(int nthreads, int nev)
{
  std::vector<GenCfg> cfgs;
  std::string line;
  while (std::getline(std::cin, line)) {
    std::istringstream ls(line);
    std::string c;
    if (ls >> c) cfgs.push_back(parse_cfg(c));
  }
  // configurations marked with a leading '!' are run by ALL threads at the same time (a barrier before each): their
  // initialisations (table loaders, catalogue look-ups) overlap; the others are run in a rotated order
  std::vector<GenCfg> together;
  {
    std::vector<GenCfg> rest;
    for (auto & c : cfgs) {
      if (!c.txt.empty() && c.txt[0] == '!') together.push_back(parse_cfg(c.txt.substr(1)));
      else rest.push_back(c);
    }
    cfgs.swap(rest);
  }
  size_t n = cfgs.size();
  std::vector<std::vector<std::vector<std::string>>> conc(nthreads, std::vector<std::vector<std::string>>(n));
  std::vector<std::vector<std::vector<std::string>>> conc2(nthreads, std::vector<std::vector<std::string>>(together.size()));
  std::atomic<int> ready{0};
  std::atomic<bool> go{false};
  std::vector<std::atomic<int>> arrived(together.size() + 1);
  for (auto & a : arrived) a = 0;
  std::vector<std::thread> th;
  for (int t = 0; t < nthreads; t++) {
    th.emplace_back([&, t] {
      ready++;
      while (!go.load()) {
      }
      for (size_t k = 0; k < together.size(); k++) {
        arrived[k]++;
        while (arrived[k].load() < nthreads) {
        }
        vh::stream s(555 + 7 * t + 31 * k);
        conc2[t][k] = init_and_shoot(together[k], s, nev);
      }
      for (size_t k = 0; k < n; k++) {
        size_t i = (k + (size_t)t * n / (size_t)nthreads) % n;
        vh::stream s(777 + 13 * t + 101 * i);
        conc[t][i] = init_and_shoot(cfgs[i], s, nev);
      }
    });
  }
  while (ready.load() < nthreads) {
  }
  go = true;
  for (auto & x : th) x.join();
  bool locale_after_threads = app_locale_intact();
  long differ = 0, compared = 0;
  for (int t = 0; t < nthreads; t++)
    for (size_t i = 0; i < n; i++) {
      vh::stream s(777 + 13 * t + 101 * i);
      auto alone = init_and_shoot(cfgs[i], s, nev);
      compared += (long)alone.size();
      if (alone != conc[t][i]) {
        differ++;
        printf("{\"differ\":\"%s\",\"thread\":%d}\n", cfgs[i].txt.c_str(), t);
      }
    }
  for (int t = 0; t < nthreads; t++)
    for (size_t k = 0; k < together.size(); k++) {
      vh::stream s(555 + 7 * t + 31 * k);
      auto alone = init_and_shoot(together[k], s, nev);
      compared += (long)alone.size();
      if (alone != conc2[t][k]) {
        differ++;
        printf("{\"differ\":\"!%s\",\"thread\":%d,\"got\":\"%s\"}\n", together[k].txt.c_str(), t,
               vh::json_escape(conc2[t][k].empty() ? std::string("-") : conc2[t][k].back().substr(0, 120)).c_str());
      }
    }
  printf("{\"phase\":\"free\",\"threads\":%d,\"configs\":%zu,\"events_compared\":%ld,\"differ\":%ld,\"app_locale_intact\":%s}\n", nthreads,
         n + together.size(), compared, differ, locale_after_threads ? "true" : "false");
  return 0;
}

// ------------------------------------------------------------------------------------------------ handover (spec/Handover.tla)
// A prepared generator: configuration, deviate source and the library object(s); the three stages may run on different threads.
struct Prepared
{
  GenCfg c;
  bool mdl = false, gatest = false;
  std::unique_ptr<vh::stream> src;
  std::unique_ptr<bxdecay0::decay0_generator> g;
  std::unique_ptr<bxdecay0::dbd_gA> ga;
  std::vector<std::string> out;
  bool failed = false;
  void fail(const std::exception & e)
  {
    failed = true;
    out.push_back(std::string("EXCEPTION ") + e.what());
  }
  void initialise(const GenCfg & c0, uint64_t seed)
  {
    c      = c0;
    gatest = c0.txt == "GATEST";
    mdl    = c0.txt.compare(0, 4, "MDL@") == 0;
    if (mdl) c = parse_cfg(c0.txt.substr(4));
    src.reset(new vh::stream(seed));
    try {
      if (gatest) {
        ga.reset(new bxdecay0::dbd_gA);
        const char * ver = std::getenv("VERIF_GA_VERSION");
        ga->set_dataset_version(ver ? ver : ".");
        ga->set_nuclide("Test");
        ga->set_process(bxdecay0::dbd_gA::PROCESS_G0);
        ga->set_shooting(bxdecay0::dbd_gA::SHOOTING_REJECTION);
        ga->initialize();
      } else {
        g.reset(new bxdecay0::decay0_generator);
        configure(*g, c);
        if (mdl) {
          auto op = std::make_shared<bxdecay0::momentum_direction_lock_event_op>();
          op->set(bxdecay0::INVALID_PARTICLE, (c.txt.size() % 2) ? 0 : -1, 0.3, -0.4, 0.8, 0.6, false);
          g->add_operation(op);
        }
        g->initialize(*src);
      }
    } catch (std::exception & e) {
      fail(e);
    }
  }
  void shoot(int nev)
  {
    if (failed) return;
    try {
      for (int i = 0; i < nev; i++) {
        bxdecay0::event ev;
        if (gatest) ga->shoot(*src, ev);
        else g->shoot(*src, ev);
        out.push_back(vh::fingerprint(ev));
      }
    } catch (std::exception & e) {
      fail(e);
    }
  }
  void reset()
  {
    try {
      if (g) g->reset();
      if (ga) ga->reset();
    } catch (std::exception & e) {
      fail(e);
    }
    g.reset();
    ga.reset();
  }
};

static void spin_barrier(std::atomic<int> & a, int n)
{
  a.fetch_add(1, std::memory_order_acq_rel);
  while (a.load(std::memory_order_acquire) < n) {
  }
}

// every configuration i: initialised by thread i % N, first half of its events shot by thread (i+1) % N, second half by
// thread (i+2) % N, reset by thread (i+3) % N; compared with the same stages run on one thread
static int run_handover(int nthreads, int nev)
{
  std::vector<GenCfg> cfgs;
  std::string line;
  while (std::getline(std::cin, line)) {
    std::istringstream ls(line);
    std::string c;
    if (ls >> c) cfgs.push_back(parse_cfg(c));
  }
  size_t n = cfgs.size();
  std::vector<Prepared> moved(n), home(n);
  std::atomic<int> b[4];
  for (auto & x : b) x = 0;
  std::vector<std::thread> th;
  for (int t = 0; t < nthreads; t++) {
    th.emplace_back([&, t] {
      for (int stage = 0; stage < 4; stage++) {
        for (size_t i = 0; i < n; i++) {
          if ((int)((i + (size_t)stage) % (size_t)nthreads) != t) continue;
          if (stage == 0) moved[i].initialise(cfgs[i], 4242 + 17 * i);
          else if (stage == 1 || stage == 2) moved[i].shoot(nev);
          else moved[i].reset();
        }
        spin_barrier(b[stage], nthreads);
      }
    });
  }
  for (auto & x : th) x.join();
  long differ = 0, compared = 0, handed = 0;
  for (size_t i = 0; i < n; i++) {
    home[i].initialise(cfgs[i], 4242 + 17 * i);
    home[i].shoot(nev);
    home[i].shoot(nev);
    home[i].reset();
    compared += (long)home[i].out.size();
    handed += 3;
    if (home[i].out != moved[i].out) {
      differ++;
      size_t k = 0;
      while (k < home[i].out.size() && k < moved[i].out.size() && home[i].out[k] == moved[i].out[k]) k++;
      printf("{\"differ\":\"%s\",\"first\":%zu,\"got\":\"%s\"}\n", cfgs[i].txt.c_str(), k,
             vh::json_escape(k < moved[i].out.size() ? moved[i].out[k].substr(0, 120) : std::string("-")).c_str());
    }
  }
  printf("{\"phase\":\"handover\",\"threads\":%d,\"configs\":%zu,\"events_compared\":%ld,\"handovers\":%ld,\"differ\":%ld}\n", nthreads, n, compared,
         handed, differ);
  return 0;
}

int main(int argc, char ** argv)
{
  if (const char * al = std::getenv("VERIF_APP_LOCALE")) {
    if (std::string(al) == "comma") {
      std::locale::global(std::locale(std::locale::classic(), new comma_numpunct));
      g_app_locale = true;
    }
  }
  std::string mode = "baton";
  int nev = 20, nthreads = 4;
  for (int i = 1; i < argc; i++) {
    std::string a = argv[i];
    if (a == "--mode") mode = argv[++i];
    else if (a == "--events") nev = std::atoi(argv[++i]);
    else if (a == "--threads") nthreads = std::atoi(argv[++i]);
  }
  if (mode == "baton") return run_baton(nev);
  if (mode == "handover") return run_handover(nthreads, nev);
  return run_free(nthreads, nev);
}
