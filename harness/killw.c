/* LD_PRELOAD shim for the C13 kill-point enumeration (and in-process syscall log) of bxdecay0-run.
 *
 * Tracked files: those whose path ends with ".d0t" or ".d0c".
 * Every tracked fopen / write / writev / fclose is logged to $KILLW_LOG:
 *    O <path>            stream opened
 *    W <path> <n> <m>    write of n bytes requested, m bytes let through
 *    C <path>            stream closed
 *    K                   the process is being killed now
 * $KILLW_AT = k (1-based, over tracked writes): the k-th tracked write lets only $KILLW_BYTES bytes through
 * (-1 or unset: the whole buffer), then the process SIGKILLs itself: nothing buffered in user space survives.
 * $KILLW_AT_OPEN = k (1-based, over tracked opens): the process SIGKILLs itself right after its k-th tracked open
 * (the file is created / truncated by then).
 */
#define _GNU_SOURCE
#include <dlfcn.h>
#include <fcntl.h>
#include <signal.h>
#include <stdio.h>
#include <stdlib.h>
#include <string.h>
#include <sys/syscall.h>
#include <sys/uio.h>
#include <unistd.h>

static long cnt = 0, killat = -1, killbytes = -1, ocnt = 0, killopen = -1;
static int logfd = -1, inited = 0;

static void init(void)
{
  if (inited) return;
  inited = 1;
  const char * e = getenv("KILLW_AT");
  if (e) killat = atol(e);
  e = getenv("KILLW_BYTES");
  if (e) killbytes = atol(e);
  e = getenv("KILLW_AT_OPEN");
  if (e) killopen = atol(e);
  e = getenv("KILLW_LOG");
  if (e) logfd = (int)syscall(SYS_openat, AT_FDCWD, e, O_WRONLY | O_CREAT | O_APPEND, 0644);
}

static void logline(const char * s)
{
  if (logfd >= 0) syscall(SYS_write, logfd, s, strlen(s));
}

static int tracked_path(const char * p)
{
  size_t n = p ? strlen(p) : 0;
  return n > 4 && (strcmp(p + n - 4, ".d0t") == 0 || strcmp(p + n - 4, ".d0c") == 0);
}

static int fd_path(int fd, char * out, size_t cap)
{
  char link[64];
  snprintf(link, sizeof link, "/proc/self/fd/%d", fd);
  ssize_t n = readlink(link, out, cap - 1);
  if (n <= 0) return 0;
  out[n] = 0;
  return tracked_path(out);
}

static void die(void)
{
  logline("K\n");
  kill(getpid(), SIGKILL);
  for (;;) pause();
}

ssize_t write(int fd, const void * buf, size_t n)
{
  static ssize_t (*real)(int, const void *, size_t);
  if (!real) real = dlsym(RTLD_NEXT, "write");
  init();
  char path[4096];
  if (fd > 2 && fd != logfd && fd_path(fd, path, sizeof path)) {
    cnt++;
    size_t m = n;
    if (cnt == killat && killbytes >= 0 && (size_t)killbytes < n) m = (size_t)killbytes;
    char line[4300];
    snprintf(line, sizeof line, "W %s %zu %zu\n", path, n, m);
    logline(line);
    if (cnt == killat) {
      size_t done = 0;
      while (done < m) {
        ssize_t r = real(fd, (const char *)buf + done, m - done);
        if (r <= 0) break;
        done += (size_t)r;
      }
      die();
    }
  }
  return real(fd, buf, n);
}

ssize_t writev(int fd, const struct iovec * iov, int c)
{
  static ssize_t (*real)(int, const struct iovec *, int);
  if (!real) real = dlsym(RTLD_NEXT, "writev");
  init();
  char path[4096];
  if (fd > 2 && fd != logfd && fd_path(fd, path, sizeof path)) {
    /* flatten and go through write() so that one code path counts, logs and tears */
    size_t tot = 0;
    for (int i = 0; i < c; i++) tot += iov[i].iov_len;
    char * flat = malloc(tot ? tot : 1);
    size_t o = 0;
    for (int i = 0; i < c; i++) {
      memcpy(flat + o, iov[i].iov_base, iov[i].iov_len);
      o += iov[i].iov_len;
    }
    ssize_t r = write(fd, flat, tot);
    free(flat);
    return r;
  }
  return real(fd, iov, c);
}

static void log_open(const char * p)
{
  if (tracked_path(p)) {
    char line[4300];
    snprintf(line, sizeof line, "O %s\n", p);
    logline(line);
    if (++ocnt == killopen) die();
  }
}

FILE * fopen(const char * p, const char * mode)
{
  static FILE * (*real)(const char *, const char *);
  if (!real) real = dlsym(RTLD_NEXT, "fopen");
  init();
  FILE * f = real(p, mode);
  if (f) log_open(p);
  return f;
}

FILE * fopen64(const char * p, const char * mode)
{
  static FILE * (*real)(const char *, const char *);
  if (!real) real = dlsym(RTLD_NEXT, "fopen64");
  init();
  FILE * f = real(p, mode);
  if (f) log_open(p);
  return f;
}

int fclose(FILE * f)
{
  static int (*real)(FILE *);
  if (!real) real = dlsym(RTLD_NEXT, "fclose");
  init();
  char path[4096];
  int t = f && fd_path(fileno(f), path, sizeof path);
  int r = real(f);
  if (t) {
    char line[4300];
    snprintf(line, sizeof line, "C %s\n", path);
    logline(line);
  }
  return r;
}
