// Deterministic scheduler + observers for property C12 (independent generators on different threads).
//
// The executable interposes gsl_set_error_handler_off / gsl_set_error_handler / gsl_integration_qng (defined
// here, forwarded with dlsym(RTLD_NEXT); libBxDecay0.so calls them through the PLT, so it calls ours) and installs
// a per-thread bxdecay0::verif::tracer whose yield() is a blocking point.
//
// Modes
//   --mode gauss  --in F   every line of F is one schedule for N threads x Q calls of bxdecay0::decay0_gauss:
//                            <id> <N> <Q> <plan> <step> <step> ...
//                          plan: per thread one letter per call, threads separated by ','
//                                o = integrand meets the tolerance at once, x = misses it once (GSL_ETOL, retry ok),
//                                e = misses it twice
//                          step: <S|I|R><thread>  "let that thread run until it has performed its next
//                                Save (gsl_set_error_handler_off) / Integrate (one QNG) / Restore (gsl_set_error_handler)"
//   --mode traces --in F   <id> <N> <C> - <step>...   N threads x C calls of bxdecay0::is_trace(); step: <thread>
//                          "let that thread run up to its next observable point" (traces:pre_check -> traces:filling
//                          -> return)
//   --mode real   --in F   <id> <cfgA> <cfgB>  two real decay0_generator initialisations (iso:level:mode:emin:emax),
//                          B's first quadrature that raises GSL_ETOL is interleaved with one of A's quadratures along
//                          the canonical bad schedule  S(A) S(B) I(A) R(A) I(B)
//   --mode mt     ...      free-running threads, one generator + deviate source each (TSan / plain); see run_mt
//
// Every schedule runs in a forked child (fresh process-wide state; an abort() kills only the child).  What really
// happened is recorded in a shared-memory log: one record per interposed call, appended under the scheduler's lock
// (so the order of records IS the order of the real calls), with the handler value seen.  A thread that does not
// reach its next yield point is asleep in the kernel away from our yield points (or has not arrived after --tau microseconds) is "blocked": its step is skipped (counted as lost), the
// driver never waits for ever, and at the end every thread is released until all have finished.
//
// Output: one line per execution
//   R <id> <exit> <defaultmsg> <final> <lost> <mismatch> <same> | <ev> <ev> ...
//     exit: ok | abort | hang | sig<N> | exc ;  defaultmsg: 1 iff stderr of the child has GSL's "Default GSL error handler invoked"
//     final: process-wide handler when all threads were done (a = GSL default/abort, o = off, u = other, - = n/a)
//     same: 1 iff every value returned to every thread equals the value of the sequential run, bit for bit
//     ev: S<t><seen> R<t><installed> I<t><o|e|x>  A<t> (thread whose call aborted)   (gauss, real)
//         C<t><e|f> F<t> D<t><value>                                                  (traces)
#include <dlfcn.h>
#include <fcntl.h>
#include <signal.h>
#include <sys/mman.h>
#include <sys/syscall.h>
#include <sys/wait.h>
#include <unistd.h>

#include <atomic>
#include <initializer_list>
#include <chrono>
#include <condition_variable>
#include <cstdlib>
#include <cstring>
#include <map>
#include <memory>
#include <mutex>
#include <set>
#include <stdexcept>
#include <thread>

#include <gsl/gsl_errno.h>
#include <gsl/gsl_integration.h>

#include <bxdecay0/decay0_generator.h>
#include <bxdecay0/dbd_gA.h>
#include <bxdecay0/gauss.h>
#include <bxdecay0/utils.h>
#include <bxdecay0/verif_hooks.h>

#include "common/vh.h"

#ifndef BXDECAY0_VERIF
#error "gsl_sched needs the library built with -DBXDECAY0_VERIF"
#endif

// ----------------------------------------------------------------------------------------------- shared log

static const int MAXT  = 8;
static const int MAXEV = 4096;

struct Ev
{
  uint8_t t;
  char kind;
  char a;
};

struct Shared
{
  volatile uint32_t nev;
  Ev ev[MAXEV];
  volatile int abort_thread; // thread id whose call raised SIGABRT (-1 none)
  volatile int finished;     // child reached the end of the driver
  volatile int hung;         // some thread never finished
  volatile int exc;          // a call threw
  volatile int lost;         // schedule steps that could not be taken (thread blocked or already done)
  volatile int mismatch;     // steps after which the thread's new record was not of the expected kind
  volatile char final_h;     // handler class at the end
  volatile int same;         // results equal to the sequential run
  volatile int probe_k;      // real mode: index of B's first quadrature that raises GSL_ETOL (-1 none)
  volatile int probe_netol;  // real mode: number of GSL_ETOL in B's initialisation
  char fp[2][3][1024];       // real mode: event fingerprints of A and B (sequential reference)
  volatile int nfp;
  volatile long cnt_S[8];       // quadratures entered per thread (not capped like ev[])
  volatile long first_etol[8];  // index of the first quadrature with GSL_ETOL (-1 none)
  volatile long netol[8];
};

static Shared * SH = nullptr;

// ----------------------------------------------------------------------------------------------- scheduler state

struct Ctl
{
  enum St { NOTSTARTED, RUNNING, ATYIELD, DONE };
  St st              = NOTSTARTED;
  const char * point = "";
  bool go            = false;
  uint64_t arrivals  = 0;
  uint64_t nev       = 0; // records appended by this thread
  char lastkind      = 0;
  uint64_t blocked_at_progress = ~0ULL;
  // free-run control (real mode): do not stop at yields until quadrature number `stop_call` is entered
  bool free_run = false;
  long stop_call = -1;
  long calls     = 0; // quadratures entered (gauss:pre_save seen)
  // traces mode
  bool saw_check = false, saw_fill = false;
  int statfd = -1; // /proc/self/task/<tid>/stat
  std::condition_variable * cv = nullptr; // the thread waits here for `go`
};

static std::mutex M;
static std::condition_variable CV;          // the driver waits here (arrivals, completions)
static std::condition_variable CVT[MAXT];   // one per scheduled thread
static Ctl ctl[MAXT];
static bool g_release_all = false;          // end of the schedule: nobody stops at a yield point any more
static uint64_t gprogress = 0;
static std::atomic<bool> g_sched_active{false}; // interposers record + take the scheduler lock
static bool g_mt_mode      = false; // interposers only do the plain (racy unless synchronised by the caller) shadow write
static thread_local int tl_id = -1;
static long TAU_US        = 50000;

// handler classes
typedef gsl_error_handler_t * (*off_fn)(void);
typedef gsl_error_handler_t * (*set_fn)(gsl_error_handler_t *);
typedef int (*qng_fn)(const gsl_function *, double, double, double, double, double *, double *, size_t *);
static off_fn real_off = nullptr;
static set_fn real_set = nullptr;
static qng_fn real_qng = nullptr;
static gsl_error_handler_t * OFF_ADDR = nullptr;

static void resolve()
{
  if (real_off == nullptr) {
    real_off = (off_fn)dlsym(RTLD_NEXT, "gsl_set_error_handler_off");
    real_set = (set_fn)dlsym(RTLD_NEXT, "gsl_set_error_handler");
    real_qng = (qng_fn)dlsym(RTLD_NEXT, "gsl_integration_qng");
    if (real_off == nullptr || real_set == nullptr || real_qng == nullptr) {
      fprintf(stderr, "gsl_sched: cannot resolve the real GSL functions\n");
      _exit(3);
    }
  }
}

static char cls(gsl_error_handler_t * h)
{
  if (h == nullptr) {
    return 'a';
  }
  if (h == OFF_ADDR) {
    return 'o';
  }
  return 'u';
}

static void record_locked(int t, char kind, char a)
{
  uint32_t n = SH->nev;
  if (n < (uint32_t)MAXEV) {
    SH->ev[n].t    = (uint8_t)t;
    SH->ev[n].kind = kind;
    SH->ev[n].a    = a;
    SH->nev        = n + 1;
  }
  if (t >= 0 && t < MAXT) {
    if (kind == 'S') {
      SH->cnt_S[t] = SH->cnt_S[t] + 1;
    } else if (kind == 'I' && a == 'e') {
      SH->netol[t] = SH->netol[t] + 1;
      if (SH->first_etol[t] < 0) {
        SH->first_etol[t] = SH->cnt_S[t] - 1;
      }
    }
    ctl[t].nev++;
    ctl[t].lastkind = kind;
  }
  gprogress++;
}

// plain shadows: the TSan build sees a race on them unless the caller serialises the handler calls
static gsl_error_handler_t * g_shadow_handler = nullptr;
static std::atomic<long> g_mt_etol{0};
static std::atomic<long> g_mt_quads{0};

extern "C" gsl_error_handler_t * gsl_set_error_handler_off(void)
{
  resolve();
  if (g_mt_mode) {
    g_shadow_handler = OFF_ADDR; // deliberate plain write
    g_mt_quads.fetch_add(1, std::memory_order_relaxed);
    return real_off();
  }
  if (!g_sched_active || tl_id < 0) {
    return real_off();
  }
  std::lock_guard<std::mutex> l(M);
  gsl_error_handler_t * old = real_off();
  record_locked(tl_id, 'S', cls(old));
  return old;
}

extern "C" gsl_error_handler_t * gsl_set_error_handler(gsl_error_handler_t * h)
{
  resolve();
  if (g_mt_mode) {
    g_shadow_handler = h; // deliberate plain write
    return real_set(h);
  }
  if (!g_sched_active || tl_id < 0) {
    return real_set(h);
  }
  std::lock_guard<std::mutex> l(M);
  gsl_error_handler_t * old = real_set(h);
  record_locked(tl_id, 'R', cls(h));
  return old;
}

extern "C" int gsl_integration_qng(const gsl_function * f, double a, double b, double epsabs, double epsrel,
                                   double * result, double * abserr, size_t * neval)
{
  resolve();
  int st = real_qng(f, a, b, epsabs, epsrel, result, abserr, neval); // the installed handler may abort() in here
  if (g_mt_mode) {
    if (st == GSL_ETOL) {
      g_mt_etol.fetch_add(1, std::memory_order_relaxed);
    }
    return st;
  }
  if (!g_sched_active || tl_id < 0) {
    return st;
  }
  std::lock_guard<std::mutex> l(M);
  record_locked(tl_id, 'I', st == 0 ? 'o' : (st == GSL_ETOL ? 'e' : 'x'));
  return st;
}

static void on_abort(int)
{
  if (SH != nullptr) {
    SH->abort_thread = tl_id;
  }
  signal(SIGABRT, SIG_DFL);
  raise(SIGABRT);
}

// ----------------------------------------------------------------------------------------------- tracer

struct SchedTracer : public bxdecay0::verif::tracer
{
  int id;
  bool traces_mode;
  explicit SchedTracer(int id_, bool tm_) : id(id_), traces_mode(tm_) {}
  void enter(const char *, std::size_t, const double *) override {}
  void leave(const char *) override {}
  void note(const char *, std::size_t, const double *) override {}
  void yield(const char * point_) override
  {
    std::unique_lock<std::mutex> l(M);
    Ctl & c = ctl[id];
    if (std::strcmp(point_, "gauss:pre_save") == 0) {
      c.calls++;
    }
    if (g_release_all) {
      return;
    }
    if (c.free_run) {
      if (!(std::strcmp(point_, "gauss:pre_save") == 0 && c.calls - 1 == c.stop_call)) {
        return;
      }
      c.free_run = false;
    }
    if (traces_mode) {
      if (std::strcmp(point_, "traces:pre_check") == 0) {
        c.saw_check = true;
      } else if (std::strcmp(point_, "traces:filling") == 0) {
        c.saw_fill = true;
        record_locked(id, 'C', 'e'); // the emptiness test said "empty": this thread is going to fill
      }
    }
    c.st    = Ctl::ATYIELD;
    c.point = point_;
    c.arrivals++;
    gprogress++;
    CV.notify_one();
    CVT[id].wait(l, [&] { return c.go || g_release_all; });
    c.go = false;
    c.st = Ctl::RUNNING;
    if (traces_mode && std::strcmp(point_, "traces:filling") == 0) {
      // Nothing exposes the end of the fill, so it is logged at the earliest moment it can have happened (now);
      // the reads of other threads are logged when they return (the latest moment).  This placement can hide a
      // read-during-fill but can never invent one.
      record_locked(id, 'F', '-');
    }
  }
};

static void thread_begin(int id)
{
  tl_id = id;
  char path[64];
  std::snprintf(path, sizeof path, "/proc/self/task/%ld/stat", (long)syscall(SYS_gettid));
  int fd = open(path, O_RDONLY);
  std::lock_guard<std::mutex> l(M);
  ctl[id].statfd = fd;
}

static void thread_done(int id)
{
  std::lock_guard<std::mutex> l(M);
  ctl[id].st = Ctl::DONE;
  gprogress++;
  CV.notify_one();
}

// ----------------------------------------------------------------------------------------------- driver primitives

// wait (lock held) until pred or timeout
template <class P>
static bool wait_us(std::unique_lock<std::mutex> & l, long us, P pred)
{
  return CV.wait_for(l, std::chrono::microseconds(us), pred);
}

// scheduler state of a thread as the kernel sees it ('R' running/runnable, 'S' sleeping, ...)
static char os_state(int t)
{
  if (ctl[t].statfd < 0) {
    return '?';
  }
  char buf[256];
  ssize_t n = pread(ctl[t].statfd, buf, sizeof buf - 1, 0);
  if (n <= 0) {
    return '?';
  }
  buf[n]         = 0;
  const char * p = std::strrchr(buf, ')');
  return (p != nullptr && p[1] == ' ') ? p[2] : '?';
}

// Wait until thread t has arrived (pred) or is blocked.  "Blocked" = it sleeps in the kernel (futex of a mutex, of a
// static-initialisation guard, of call_once) on several consecutive looks although it is not at one of our yield
// points, or it has not arrived after `tau` microseconds.  Either way the inference can only lose a schedule.
template <class P>
static bool wait_arrival(std::unique_lock<std::mutex> & l, int t, long tau, P pred)
{
  auto t0    = std::chrono::steady_clock::now();
  int sleepy = 0;
  long slice = 100;
  while (!pred()) {
    if (CV.wait_for(l, std::chrono::microseconds(slice), pred)) {
      return true;
    }
    l.unlock();
    char st = os_state(t);
    l.lock();
    if (pred()) {
      return true;
    }
    sleepy = (st == 'S') ? sleepy + 1 : 0;
    if (sleepy >= 4) {
      return false;
    }
    if (slice < 400) {
      slice += 50;
    }
    auto us = std::chrono::duration_cast<std::chrono::microseconds>(std::chrono::steady_clock::now() - t0).count();
    if (us > tau) {
      return false;
    }
  }
  return true;
}

// Let thread t run one yield-to-yield segment.  Returns 'y' arrived at a yield, 'd' done, 'b' blocked.
static char grant(std::unique_lock<std::mutex> & l, int t, long tau)
{
  Ctl & c = ctl[t];
  if (c.st == Ctl::DONE) {
    return 'd';
  }
  if (c.st == Ctl::RUNNING || c.st == Ctl::NOTSTARTED) {
    // found blocked earlier (or just started): has it arrived since?
    if (c.blocked_at_progress == gprogress) {
      return 'b'; // nothing moved since we last saw it blocked: nothing can have unblocked it
    }
    bool ok = wait_arrival(l, t, tau, [&] { return c.st == Ctl::ATYIELD || c.st == Ctl::DONE; });
    if (!ok) {
      c.blocked_at_progress = gprogress;
      return 'b';
    }
    return c.st == Ctl::DONE ? 'd' : 'y';
  }
  uint64_t a0 = c.arrivals;
  c.go        = true;
  CVT[t].notify_one();
  bool ok = wait_arrival(l, t, tau, [&] { return (c.st == Ctl::ATYIELD && c.arrivals > a0) || c.st == Ctl::DONE; });
  if (!ok) {
    c.blocked_at_progress = gprogress;
    return 'b';
  }
  return c.st == Ctl::DONE ? 'd' : 'y';
}

// Let thread t run until it has appended at least one record.  Returns 'k' ok, 'd' finished without one, 'b' blocked.
static char step(std::unique_lock<std::mutex> & l, int t, long tau)
{
  Ctl & c      = ctl[t];
  uint64_t ev0 = c.nev;
  for (int guard = 0; guard < 64; guard++) {
    if (c.st == Ctl::DONE) {
      return c.nev > ev0 ? 'k' : 'd';
    }
    if (c.st == Ctl::ATYIELD && c.nev > ev0) {
      return 'k';
    }
    char r = grant(l, t, tau);
    if (r == 'b') {
      return c.nev > ev0 ? 'k' : 'b';
    }
  }
  return 'b';
}

// after a Restore: go on to the next point outside the library (harness yield "h:call") or to the end, unless the
// thread blocks or does something observable on the way
static void leave_library(std::unique_lock<std::mutex> & l, int t, long tau)
{
  Ctl & c = ctl[t];
  for (int guard = 0; guard < 8; guard++) {
    if (c.st != Ctl::ATYIELD || std::strcmp(c.point, "h:call") == 0) {
      return;
    }
    uint64_t ev0 = c.nev;
    char r       = grant(l, t, tau);
    if (r != 'y' || c.nev > ev0) {
      return;
    }
  }
}

// release everybody (no thread stops at a yield point any more) and wait until all are done; false on hang
static bool drain(std::unique_lock<std::mutex> & l, int n, long deadline_ms)
{
  g_release_all = true;
  for (int t = 0; t < n; t++) {
    CVT[t].notify_one();
  }
  return CV.wait_for(l, std::chrono::milliseconds(deadline_ms), [&] {
    for (int t = 0; t < n; t++) {
      if (ctl[t].st != Ctl::DONE) {
        return false;
      }
    }
    return true;
  });
}

// ----------------------------------------------------------------------------------------------- integrands

static double f_smooth(double x, void *)
{
  return x * x;
}
static double f_step(double x, void *)
{
  return x < 0.3123 ? 0.0 : 1.0;
}

struct Kind
{
  bxdecay0::func_type f;
  double eps;
  double expected; // value of the sequential run
};
static std::map<char, Kind> KINDS;

static void silence_stderr(int & saved)
{
  fflush(stderr);
  saved  = dup(2);
  int dn = open("/dev/null", O_WRONLY);
  dup2(dn, 2);
  close(dn);
}
static void restore_stderr(int saved)
{
  fflush(stderr);
  dup2(saved, 2);
  close(saved);
}

static bool calibrate()
{
  resolve();
  gsl_error_handler_t * h0 = real_off();
  OFF_ADDR                 = real_off();
  real_set(h0);
  // relative error estimate of the 87-point rule on the step function
  gsl_function F;
  F.function = f_step;
  F.params   = nullptr;
  double res, err;
  size_t ne;
  gsl_error_handler_t * h = real_off();
  int st                  = real_qng(&F, 0.0, 1.0, 0.0, 1e-10, &res, &err, &ne);
  real_set(h);
  if (st != GSL_ETOL || !(res > 0) || !(err > 0)) {
    return false;
  }
  double r   = err / std::fabs(res);
  KINDS['o'] = Kind{f_smooth, 1e-4, 0};
  KINDS['e'] = Kind{f_step, r / 1000.0, 0};
  KINDS['x'] = Kind{f_step, r / 3.0, 0};
  // the statuses must be what the plan letters promise
  h = real_off();
  int so  = real_qng(&F, 0.0, 1.0, 0.0, KINDS['x'].eps, &res, &err, &ne);
  int so2 = real_qng(&F, 0.0, 1.0, 0.0, KINDS['x'].eps * 10.0, &res, &err, &ne);
  int se  = real_qng(&F, 0.0, 1.0, 0.0, KINDS['e'].eps * 10.0, &res, &err, &ne);
  F.function = f_smooth;
  int sk     = real_qng(&F, 0.0, 1.0, 0.0, KINDS['o'].eps, &res, &err, &ne);
  real_set(h);
  if (!(so == GSL_ETOL && so2 == 0 && se == GSL_ETOL && sk == 0)) {
    return false;
  }
  // sequential reference values through the real wrapper
  int sv;
  silence_stderr(sv);
  for (auto & k : KINDS) {
    k.second.expected = bxdecay0::decay0_gauss(k.second.f, 0.0, 1.0, k.second.eps, nullptr);
  }
  restore_stderr(sv);
  return true;
}

// ----------------------------------------------------------------------------------------------- children

static std::string WORK = ".";

static void child_common_setup()
{
  std::string p = WORK + "/child.stderr";
  int fd        = open(p.c_str(), O_WRONLY | O_CREAT | O_TRUNC, 0644);
  if (fd >= 0) {
    dup2(fd, 2);
    close(fd);
  }
  signal(SIGABRT, on_abort);
  for (int i = 0; i < MAXT; i++) {
    ctl[i] = Ctl();
  }
  gprogress     = 0;
  g_release_all = false;
}

static char peek_handler()
{
  gsl_error_handler_t * h = real_set(nullptr);
  real_set(h);
  return cls(h);
}

struct Step
{
  char kind;
  int t;
};

struct Sched
{
  std::string id;
  int n = 0, q = 0;
  std::vector<std::string> plan;
  std::vector<Step> steps;
  std::string cfg[2];
};

static void wait_all_started(std::unique_lock<std::mutex> & l, int n)
{
  for (int t = 0; t < n; t++) {
    wait_us(l, 2000000, [&] { return ctl[t].st == Ctl::ATYIELD || ctl[t].st == Ctl::DONE; });
  }
}

static void child_gauss(const Sched & s)
{
  child_common_setup();
  // first-use initialisations of the wrapper (its own trace flag) are not part of this scenario
  bxdecay0::decay0_gauss(f_smooth, 0.0, 1.0, 1e-4, nullptr);
  static double results[MAXT][16];
  std::vector<std::thread> th;
  g_sched_active = true;
  for (int t = 0; t < s.n; t++) {
    th.emplace_back([t, &s] {
      thread_begin(t);
      SchedTracer tr(t, false);
      bxdecay0::verif::current_tracer() = &tr;
      try {
        for (int q = 0; q < s.q; q++) {
          tr.yield("h:call");
          const Kind & k = KINDS[s.plan[t][q]];
          results[t][q]  = bxdecay0::decay0_gauss(k.f, 0.0, 1.0, k.eps, nullptr);
        }
      } catch (std::exception &) {
        SH->exc = 1;
      }
      bxdecay0::verif::current_tracer() = nullptr;
      thread_done(t);
    });
  }
  {
    std::unique_lock<std::mutex> l(M);
    wait_all_started(l, s.n);
    for (const Step & st : s.steps) {
      if (st.t < 0 || st.t >= s.n) {
        continue;
      }
      char r = step(l, st.t, TAU_US);
      if (r != 'k') {
        SH->lost = SH->lost + 1;
        continue;
      }
      if (ctl[st.t].lastkind != st.kind) {
        SH->mismatch = SH->mismatch + 1;
      }
      if (ctl[st.t].lastkind == 'R') {
        leave_library(l, st.t, TAU_US);
      }
    }
    if (!drain(l, s.n, 10000)) {
      SH->hung = 1;
      fflush(stderr);
      _exit(5);
    }
  }
  for (auto & t : th) {
    t.join();
  }
  g_sched_active = false;
  SH->final_h    = peek_handler();
  int same       = 1;
  for (int t = 0; t < s.n; t++) {
    for (int q = 0; q < s.q; q++) {
      double e = KINDS[s.plan[t][q]].expected;
      if (std::memcmp(&e, &results[t][q], sizeof(double)) != 0) {
        same = 0;
      }
    }
  }
  SH->same     = same;
  SH->finished = 1;
  fflush(stderr);
  _exit(0);
}

static const char * TRACE_LABELS[] = {"fermi", "gauss", "bb", "genbbsub"};

static void child_traces(const Sched & s)
{
  child_common_setup();
  std::vector<std::thread> th;
  g_sched_active = true;
  static int values[MAXT][8];
  for (int t = 0; t < s.n; t++) {
    th.emplace_back([t, &s] {
      thread_begin(t);
      SchedTracer tr(t, true);
      bxdecay0::verif::current_tracer() = &tr;
      try {
        for (int q = 0; q < s.q; q++) {
          tr.yield("h:call");
          {
            std::lock_guard<std::mutex> l(M);
            ctl[t].saw_check = ctl[t].saw_fill = false;
          }
          bool v       = bxdecay0::is_trace(TRACE_LABELS[(t + q) % 4]);
          values[t][q] = v ? 1 : 0;
          std::lock_guard<std::mutex> l(M);
          if (!ctl[t].saw_fill && ctl[t].saw_check) {
            record_locked(t, 'C', 'f'); // the emptiness test said "already filled"
          }
          record_locked(t, 'D', v ? '1' : '0');
        }
      } catch (std::exception &) {
        SH->exc = 1;
      }
      bxdecay0::verif::current_tracer() = nullptr;
      thread_done(t);
    });
  }
  {
    std::unique_lock<std::mutex> l(M);
    wait_all_started(l, s.n);
    for (const Step & st : s.steps) {
      if (st.t < 0 || st.t >= s.n) {
        continue;
      }
      char r = step(l, st.t, TAU_US);
      if (r != 'k') {
        SH->lost = SH->lost + 1;
      }
    }
    if (!drain(l, s.n, 10000)) {
      SH->hung = 1;
      fflush(stderr);
      _exit(5);
    }
  }
  for (auto & t : th) {
    t.join();
  }
  g_sched_active = false;
  int same       = 1;
  for (int t = 0; t < s.n; t++) {
    for (int q = 0; q < s.q; q++) {
      int expect = std::strcmp(TRACE_LABELS[(t + q) % 4], "fermi") == 0 ? 1 : 0; // BXDECAY0_TRACE_FERMI=1 is set by main
      if (values[t][q] != expect) {
        same = 0;
      }
    }
  }
  SH->same     = same;
  SH->final_h  = '-';
  SH->finished = 1;
  fflush(stderr);
  _exit(0);
}

// ---- real initialisations

struct GenCfg
{
  std::string iso;
  int level = 0, mode = 1;
  double emin = -1, emax = -1;
  bool bkg = false;
};

static GenCfg parse_cfg(const std::string & s)
{
  GenCfg c;
  std::vector<std::string> f;
  std::string cur;
  for (char ch : s) {
    if (ch == ':') {
      f.push_back(cur);
      cur.clear();
    } else {
      cur += ch;
    }
  }
  f.push_back(cur);
  c.iso = f.at(0);
  if (f.size() > 1 && f[1] == "bkg") {
    c.bkg = true;
    return c;
  }
  if (f.size() > 1) c.level = std::atoi(f[1].c_str());
  if (f.size() > 2) c.mode = std::atoi(f[2].c_str());
  if (f.size() > 4) {
    c.emin = std::atof(f[3].c_str());
    c.emax = std::atof(f[4].c_str());
  }
  return c;
}

static void configure(bxdecay0::decay0_generator & g, const GenCfg & c)
{
  if (c.bkg) {
    g.set_decay_category(bxdecay0::decay0_generator::DECAY_CATEGORY_BACKGROUND);
    g.set_decay_isotope(c.iso);
    return;
  }
  g.set_decay_category(bxdecay0::decay0_generator::DECAY_CATEGORY_DBD);
  g.set_decay_isotope(c.iso);
  g.set_decay_dbd_level(c.level);
  g.set_decay_dbd_mode(static_cast<bxdecay0::dbd_mode_type>(c.mode));
  if (c.emin >= 0) {
    g.set_decay_dbd_esum_range(c.emin, c.emax);
  }
}

// "GAREJ": a dbd_gA object driven directly with the rejection shooter on the shipped mock table Test/g0 (the shooter that evaluates
// the GSL 2-d interpolator; decay0_generator itself only uses the inverse-transform shooter)
static std::vector<std::string> ga_rejection_shots(uint64_t seed, int nev)
{
  std::vector<std::string> out;
  try {
    bxdecay0::dbd_gA g;
    g.set_dataset_version(".");
    g.set_nuclide("Test");
    g.set_process(bxdecay0::dbd_gA::PROCESS_G0);
    g.set_shooting(bxdecay0::dbd_gA::SHOOTING_REJECTION);
    g.initialize();
    vh::stream prng(seed);
    for (int i = 0; i < nev * 20; i++) {
      double e1 = 0, e2 = 0;
      g.shoot_e1_e2(prng, e1, e2);
      out.push_back(vh::hexd(e1) + ":" + vh::hexd(e2));
    }
  } catch (std::exception & e) {
    out.push_back(std::string("INIT-FAILED ") + e.what());
  }
  return out;
}

static std::vector<std::string> init_and_shoot(const GenCfg & c, uint64_t seed, int nev)
{
  if (c.iso == "GAREJ") return ga_rejection_shots(seed, nev);
  std::vector<std::string> out;
  bxdecay0::decay0_generator g;
  configure(g, c);
  vh::stream prng(seed);
  try {
    g.initialize(prng);
  } catch (std::exception & e) {
    out.push_back(std::string("INIT-FAILED"));
    return out;
  }
  for (int i = 0; i < nev; i++) {
    bxdecay0::event ev;
    g.shoot(prng, ev);
    out.push_back(vh::fingerprint(ev));
  }
  g.reset();
  return out;
}

// probe: B alone; which quadrature raises GSL_ETOL first; reference fingerprints of A and B
static void child_real_probe(const Sched & s)
{
  child_common_setup();
  GenCfg a = parse_cfg(s.cfg[0]), b = parse_cfg(s.cfg[1]);
  // count through the scheduler's records, single thread, never stopping
  g_sched_active = true;
  tl_id          = 0;
  SchedTracer tr(0, false);
  ctl[0].free_run  = true;
  ctl[0].stop_call = -2;
  bxdecay0::verif::current_tracer() = &tr;
  auto fb = init_and_shoot(b, 222, 3);
  bxdecay0::verif::current_tracer() = nullptr;
  g_sched_active = false;
  SH->probe_k     = (int)SH->first_etol[0];
  SH->probe_netol = (int)SH->netol[0];
  tl_id           = -1;
  auto fa         = init_and_shoot(a, 111, 3);
  for (int i = 0; i < 3; i++) {
    std::snprintf(SH->fp[0][i], sizeof SH->fp[0][i], "%s", i < (int)fa.size() ? fa[i].c_str() : "");
    std::snprintf(SH->fp[1][i], sizeof SH->fp[1][i], "%s", i < (int)fb.size() ? fb[i].c_str() : "");
  }
  SH->nev      = 0;
  SH->finished = 1;
  fflush(stderr);
  _exit(0);
}

static void child_real(const Sched & s, int k, char (*ref)[3][1024])
{
  child_common_setup();
  GenCfg cfg[2] = {parse_cfg(s.cfg[0]), parse_cfg(s.cfg[1])};
  static std::vector<std::string> got[2];
  std::vector<std::thread> th;
  g_sched_active = true;
  // A stops at its first quadrature, B at the first one that raises
  ctl[0].free_run  = true;
  ctl[0].stop_call = 0;
  ctl[1].free_run  = true;
  ctl[1].stop_call = k;
  for (int t = 0; t < 2; t++) {
    th.emplace_back([t, &cfg] {
      thread_begin(t);
      SchedTracer tr(t, false);
      bxdecay0::verif::current_tracer() = &tr;
      try {
        got[t] = init_and_shoot(cfg[t], t == 0 ? 111 : 222, 3);
      } catch (std::exception &) {
        SH->exc = 1;
      }
      bxdecay0::verif::current_tracer() = nullptr;
      thread_done(t);
    });
  }
  {
    std::unique_lock<std::mutex> l(M);
    // both at gauss:pre_save of the chosen quadrature (B runs thousands of undisturbed quadratures first); a
    // thread that is blocked (first-use guards) gets its time once the other one has moved on
    for (int t = 0; t < 2; t++) {
      wait_us(l, 60000000, [&] { return ctl[t].st == Ctl::ATYIELD || ctl[t].st == Ctl::DONE; });
    }
    // only the records from here on are the interleaved part
    SH->nev = 0;
    ctl[0].nev = ctl[1].nev = 0;
    const Step canon[] = {{'S', 0}, {'S', 1}, {'I', 0}, {'R', 0}, {'I', 1}, {'I', 1}, {'R', 1}};
    for (const Step & st : canon) {
      char r = step(l, st.t, TAU_US);
      if (r != 'k') {
        SH->lost = SH->lost + 1;
        continue;
      }
      if (ctl[st.t].lastkind != st.kind) {
        SH->mismatch = SH->mismatch + 1;
      }
    }
    // the rest of both initialisations runs free
    // stop recording: thousands of quadratures follow
    g_sched_active = false;
    if (!drain(l, 2, 120000)) {
      SH->hung = 1;
      fflush(stderr);
      _exit(5);
    }
  }
  for (auto & t : th) {
    t.join();
  }
  SH->final_h = peek_handler();
  int same    = 1;
  for (int t = 0; t < 2; t++) {
    for (int i = 0; i < 3; i++) {
      std::string r = ref[t][i];
      std::string g = i < (int)got[t].size() ? got[t][i] : "";
      if (r != g) {
        same = 0;
      }
    }
  }
  SH->same     = same;
  SH->finished = 1;
  fflush(stderr);
  _exit(0);
}

// ----------------------------------------------------------------------------------------------- parent

static bool stderr_has_default_msg()
{
  std::ifstream f(WORK + "/child.stderr");
  std::string line;
  while (std::getline(f, line)) {
    if (line.find("Default GSL error handler invoked") != std::string::npos) {
      return true;
    }
  }
  return false;
}

static void reset_shared()
{
  std::memset((void *)SH, 0, sizeof(Shared));
  SH->abort_thread = -1;
  SH->final_h      = '-';
  SH->probe_k      = -1;
  for (int i = 0; i < MAXT; i++) {
    SH->first_etol[i] = -1;
  }
}

template <class F>
static std::string run_child(F body, int timeout_s, int & wstatus)
{
  fflush(stdout);
  pid_t pid = fork();
  if (pid < 0) {
    perror("fork");
    exit(3);
  }
  if (pid == 0) {
    alarm(timeout_s);
    body();
    _exit(0);
  }
  waitpid(pid, &wstatus, 0);
  if (WIFEXITED(wstatus)) {
    if (WEXITSTATUS(wstatus) == 0 && SH->finished) {
      return "ok";
    }
    if (WEXITSTATUS(wstatus) == 5 || SH->hung) {
      return "hang";
    }
    return "exit" + std::to_string(WEXITSTATUS(wstatus));
  }
  if (WIFSIGNALED(wstatus)) {
    int sg = WTERMSIG(wstatus);
    if (sg == SIGABRT) {
      return "abort";
    }
    if (sg == SIGALRM) {
      return "hang";
    }
    return "sig" + std::to_string(sg);
  }
  return "unknown";
}

static void print_result(const std::string & id, const std::string & ex)
{
  bool dm = false;
  if (ex != "ok") {
    dm = stderr_has_default_msg();
  }
  std::string e = ex;
  if (e == "ok" && SH->exc) {
    e = "exc";
  }
  printf("R %s %s %d %c %d %d %d |", id.c_str(), e.c_str(), dm ? 1 : 0, SH->final_h ? SH->final_h : '-', SH->lost,
         SH->mismatch, e == "ok" ? SH->same : 0);
  uint32_t n = SH->nev;
  for (uint32_t i = 0; i < n && i < (uint32_t)MAXEV; i++) {
    printf(" %c%d%c", SH->ev[i].kind, (int)SH->ev[i].t + 1, SH->ev[i].a);
  }
  if (SH->abort_thread >= 0) {
    printf(" A%d-", SH->abort_thread + 1);
  }
  printf("\n");
}

static bool parse_line(const std::string & line, const std::string & mode, Sched & s)
{
  std::istringstream in(line);
  if (!(in >> s.id)) {
    return false;
  }
  if (s.id[0] == '#') {
    return false;
  }
  if (mode == "real") {
    in >> s.cfg[0] >> s.cfg[1];
    return !s.cfg[1].empty();
  }
  std::string plan, tok;
  in >> s.n >> s.q >> plan;
  if (s.n < 1 || s.n > MAXT || s.q < 1 || s.q > 8) {
    return false;
  }
  if (mode == "gauss") {
    std::string cur;
    for (char ch : plan) {
      if (ch == ',') {
        s.plan.push_back(cur);
        cur.clear();
      } else {
        cur += ch;
      }
    }
    s.plan.push_back(cur);
    if ((int)s.plan.size() != s.n) {
      return false;
    }
    for (auto & p : s.plan) {
      if ((int)p.size() != s.q) {
        return false;
      }
      for (char ch : p) {
        if (KINDS.count(ch) == 0) {
          return false;
        }
      }
    }
  }
  while (in >> tok) {
    Step st;
    if (mode == "gauss") {
      st.kind = tok[0];
      st.t    = std::atoi(tok.c_str() + 1) - 1;
    } else {
      st.kind = '*';
      st.t    = std::atoi(tok.c_str()) - 1;
    }
    s.steps.push_back(st);
  }
  return true;
}

// ----------------------------------------------------------------------------------------------- mt mode

// N free-running threads, each with its own generator and deviate source; the events of every thread are compared
// with the events the same configuration and seed give when run alone (afterwards, sequentially).  Phase "api":
// the first use of the public helper entry points (is_trace, decay0_gauss, dbd_gA::env_data_base_dir) from
// different threads at once.
static int run_mt(const std::string & phase, const std::vector<std::string> & cfgs, int nev, int rounds)
{
  resolve();
  gsl_error_handler_t * h0 = real_off();
  OFF_ADDR                 = real_off();
  real_set(h0);
  g_mt_mode = true;
  int n     = (int)cfgs.size();
  std::atomic<int> ready{0};
  std::atomic<bool> gof{false};
  if (phase == "api") {
    n = 4;
    std::vector<std::thread> th;
    static int vals[4];
    for (int t = 0; t < n; t++) {
      th.emplace_back([t, n, &ready, &gof] {
        ready++;
        while (!gof.load()) {
        }
        switch (t) {
        case 0:
          vals[t] = bxdecay0::is_trace("fermi") ? 1 : 0;
          break;
        case 1:
          vals[t] = bxdecay0::is_trace("bb") ? 1 : 0;
          break;
        case 2:
          vals[t] = (int)bxdecay0::dbd_gA::env_data_base_dir().size();
          break;
        default:
          vals[t] = (int)bxdecay0::dbd_gA::env_data_base_dir().size();
          break;
        }
      });
    }
    while (ready.load() < n) {
    }
    gof = true;
    for (auto & t : th) {
      t.join();
    }
    const char * e = std::getenv("BXDECAY0_DBD_GA_DATA_DIR");
    int want       = e ? (int)std::strlen(e) : 0;
    bool same      = vals[0] == 1 && vals[1] == 0 && vals[2] == want && vals[3] == want;
    printf("{\"phase\":\"api\",\"threads\":%d,\"same\":%s}\n", n, same ? "true" : "false");
    return 0;
  }
  std::vector<GenCfg> gc;
  for (auto & c : cfgs) {
    gc.push_back(parse_cfg(c));
  }
  std::vector<std::vector<std::string>> conc(n), seq(n);
  long differ = 0, compared = 0;
  for (int r = 0; r < rounds; r++) {
    std::vector<std::thread> th;
    ready = 0;
    gof   = false;
    for (int t = 0; t < n; t++) {
      th.emplace_back([t, r, nev, &gc, &conc, &ready, &gof] {
        ready++;
        while (!gof.load()) {
        }
        conc[t] = init_and_shoot(gc[t], 1000 + 17 * t + r, nev);
      });
    }
    while (ready.load() < n) {
    }
    gof = true;
    for (auto & t : th) {
      t.join();
    }
    for (int t = 0; t < n; t++) {
      seq[t] = init_and_shoot(gc[t], 1000 + 17 * t + r, nev);
      compared += (long)seq[t].size();
      if (seq[t] != conc[t]) {
        differ++;
        printf("{\"differ\":\"%s\",\"round\":%d,\"thread\":%d}\n", cfgs[t].c_str(), r, t);
      }
    }
  }
  std::string first;
  for (int t = 0; t < n && first.empty(); t++) {
    if (!seq[t].empty()) {
      first = cfgs[t] + " -> " + seq[t][0].substr(0, 80);
    }
  }
  printf("{\"phase\":\"gen\",\"threads\":%d,\"rounds\":%d,\"events_compared\":%ld,\"differ\":%ld,\"quadratures\":%ld,"
         "\"etol\":%ld,\"final_handler\":\"%c\",\"sample\":\"%s\"}\n",
         n, rounds, compared, differ, g_mt_quads.load(), g_mt_etol.load(), peek_handler(),
         vh::json_escape(first).c_str());
  return 0;
}

// ----------------------------------------------------------------------------------------------- main

int main(int argc, char ** argv)
{
  std::string mode = "gauss", in, phase = "gen";
  std::vector<std::string> cfgs;
  int nev = 20, rounds = 1;
  for (int i = 1; i < argc; i++) {
    std::string a = argv[i];
    auto next     = [&]() -> std::string {
      if (i + 1 >= argc) {
        fprintf(stderr, "missing value for %s\n", a.c_str());
        exit(3);
      }
      return argv[++i];
    };
    if (a == "--mode") mode = next();
    else if (a == "--in") in = next();
    else if (a == "--tau") TAU_US = std::atol(next().c_str());
    else if (a == "--work") WORK = next();
    else if (a == "--phase") phase = next();
    else if (a == "--cfg") cfgs.push_back(next());
    else if (a == "--events") nev = std::atoi(next().c_str());
    else if (a == "--rounds") rounds = std::atoi(next().c_str());
    else {
      fprintf(stderr, "unknown option %s\n", a.c_str());
      return 3;
    }
  }
  // the expected flag values must not depend on the caller's environment
  for (const char * v : {"BXDECAY0_TRACE", "BXDECAY0_TRACE_GENBBSUB", "BXDECAY0_TRACE_BB", "BXDECAY0_TRACE_GAUSS", "BXDECAY0_TRACE_FE12"}) {
    unsetenv(v);
  }
  setenv("BXDECAY0_TRACE_FERMI", "1", 1); // a non-trivial flag in the trace map (nothing reads "fermi" at run time)
  if (mode == "mt") {
    return run_mt(phase, cfgs, nev, rounds);
  }
  SH = (Shared *)mmap(nullptr, sizeof(Shared), PROT_READ | PROT_WRITE, MAP_SHARED | MAP_ANONYMOUS, -1, 0);
  if (SH == MAP_FAILED) {
    perror("mmap");
    return 3;
  }
  resolve();
  if (mode == "gauss") {
    if (!calibrate()) {
      fprintf(stderr, "gsl_sched: integrand calibration failed\n");
      return 3;
    }
    printf("K o %s x %s e %s\n", vh::hexd(KINDS['o'].expected).c_str(), vh::hexd(KINDS['x'].expected).c_str(),
           vh::hexd(KINDS['e'].expected).c_str());
  } else {
    gsl_error_handler_t * h0 = real_off();
    OFF_ADDR                 = real_off();
    real_set(h0);
  }
  std::ifstream fin(in);
  if (!fin) {
    fprintf(stderr, "gsl_sched: cannot read %s\n", in.c_str());
    return 3;
  }
  std::string line;
  long nrun = 0;
  while (std::getline(fin, line)) {
    Sched s;
    if (!parse_line(line, mode, s)) {
      if (!line.empty() && line[0] != '#') {
        fprintf(stderr, "gsl_sched: bad schedule line: %s\n", line.c_str());
        return 3;
      }
      continue;
    }
    int ws = 0;
    reset_shared();
    if (mode == "gauss") {
      std::string ex = run_child([&] { child_gauss(s); }, 60, ws);
      print_result(s.id, ex);
    } else if (mode == "traces") {
      std::string ex = run_child([&] { child_traces(s); }, 60, ws);
      print_result(s.id, ex);
    } else if (mode == "real") {
      std::string ex = run_child([&] { child_real_probe(s); }, 300, ws);
      if (ex != "ok") {
        printf("P %s probe-failed %s\n", s.id.c_str(), ex.c_str());
        continue;
      }
      int k = SH->probe_k;
      static char ref[2][3][1024];
      std::memcpy(ref, SH->fp, sizeof ref);
      printf("P %s k=%d etol=%d\n", s.id.c_str(), k, SH->probe_netol);
      if (k < 0) {
        continue;
      }
      reset_shared();
      ex = run_child([&] { child_real(s, k, ref); }, 300, ws);
      print_result(s.id, ex);
    } else {
      fprintf(stderr, "unknown mode %s\n", mode.c_str());
      return 3;
    }
    nrun++;
  }
  fflush(stdout);
  return 0;
}
