// Co-simulation of the C++ port and the compiled Decay0 2020-04-20 reference on identical deviate sequences
// (properties C01, C02; also supplies events/traces to C03, C04, C05).
//
// stdin: one job per line
//   B <id> <name> <seed> <pin_pos> <pin_val> <nplans> {<k> p1 .. pk}*   background/calibration nuclide; the j-th plan
//            applies to the j-th scheme routine entered; p = planned value of its i-th scheme-level draw, 'x' = free
//   D <id> <name> <level> <mode> <emin|x> <emax|x> <seed> <nev> <pin_pos> <pin_val> <k> p1 .. pk
//                                                               double beta: init on both sides, then nev events;
//                                                               plan applies to the cascade's scheme-level draws
// stdout: one JSON object per job (per event for D jobs: aggregated) ; see emit().
// --trace <file>: append the port's trace of every job as ndjson for TLC trace validation.
#include <cmath>
#include <cstdlib>
#include <cstring>
#include <map>
#include <set>

#include <bxdecay0/bb.h>
#include <bxdecay0/event.h>
#include <bxdecay0/genbbsub.h>

#include "../ref/refapi.h"
#include "common/evtrace.h"
#include "common/vtrace.h"

static const double TOL_P = 5e-7;   // momentum components, relative to |p| (reference carries 8-digit pi, e-mass)
static const double TOL_T = 5e-7;   // times, relative
static const double KNIFE = 1e-6;   // rejection trials closer than this to their boundary are not comparable

struct FlatEv
{
  std::string name;
  std::vector<double> a;
};

static bool is_port_only(const std::string & n) { return n == "genbbsub" || n == "shift"; }

static std::string lower(std::string s)
{
  for (auto & c : s) c = (char)std::tolower((unsigned char)c);
  return s;
}

static bool close_rel(double x, double y, double tol) { return std::fabs(x - y) <= tol * std::max(std::fabs(x), std::fabs(y)) + 1e-300; }

struct Result
{
  std::string cls = "agree";
  std::string detail;
  size_t ndraws = 0, np = 0;
  double min_margin = 1e300;
  std::string sig;
  bool has_pair = false;
  std::string fp; // hash of the bit-exact event fingerprint
};

// smallest decision margin logged by the port's rejection loops in this event
static double min_margin(const std::vector<vh::Ev> & evs, const std::vector<double> & log)
{
  double m = 1e300;
  for (const auto & e : evs) {
    if (e.kind != 2) continue;
    if (e.name == "beta_trial" && e.a.size() >= 4) {
      double fm = std::fabs(e.a[3]) > 0 ? std::fabs(e.a[3]) : 1.0;
      m = std::min(m, std::fabs(e.a[1] - e.a[2]) / fm);
    } else if (e.name == "bb_trial1" && e.a.size() >= 4) {
      // decided by the NEXT draw u: spmax*u > spthe1[k-1]
      if (e.draws < log.size() && e.a[2] > 0) m = std::min(m, std::fabs(log[e.draws] - e.a[3] / e.a[2]));
      // k = (int)(e1*1000): distance of e1*1000 to the next integer boundary matters for nint-vs-int
    } else if (e.name == "bb_trial2" && e.a.size() >= 3) {
      if (e.draws < log.size() && e.a[2] > 0) m = std::min(m, std::fabs(log[e.draws] - e.a[1] / e.a[2]));
    } else if (e.name == "bb_trial3" && e.a.size() >= 5) {
      double ct = e.a[0], a = e.a[1], b = e.a[2], c = e.a[3], ro = e.a[4];
      if (e.draws < log.size() && ro > 0) m = std::min(m, std::fabs(log[e.draws] - (a + b * ct + c * ct * ct) / ro));
    } else if (e.name == "bb_trial4" && e.a.size() >= 3) {
      if (e.a[2] > 0) m = std::min(m, std::fabs(e.a[1] - e.a[0]) / e.a[2]);
    }
  }
  return m;
}

static std::string fmt(double x)
{
  char b[40];
  std::snprintf(b, sizeof b, "%.10g", x);
  return b;
}

static std::string flat_str(const FlatEv & e)
{
  std::string s = e.name + "(";
  for (size_t i = 0; i < e.a.size(); i++) s += (i ? "," : "") + fmt(e.a[i]);
  return s + ")";
}

// Compare the port's event/trace with the reference's (just generated with the same deviates).
static void compare(const bxdecay0::event & ev, const vh::Recorder & rec, const vh::PlanSource & src, size_t ref_used, Result & r)
{
  r.ndraws = src.log.size();
  r.np     = ev.get_particles().size();
  r.fp     = std::to_string(std::hash<std::string>()(vh::fingerprint(ev)));
  // flatten traces
  std::vector<FlatEv> pt, rt;
  std::set<size_t> pair_first; // particle indices (0-based) that are the first particle of an internal pair
  {
    size_t npart = 0;
    int pair_depth = -1;
    int in_pair_count = 0;
    for (const auto & e : rec.evs) {
      if (e.kind == 1) {
        if (e.name == "pair" && e.depth == pair_depth) pair_depth = -1;
        continue;
      }
      if (e.kind == 2 && e.name == "bb_pair") npart += 2; // the two leptons are appended by decay0_bb itself
      if (e.kind != 0 || is_port_only(e.name)) continue;
      if (e.name.compare(0, 7, "scheme:") == 0) continue;  // routine entries are not emissions (compared by C05)
      if (e.name == "pair") {
        pair_depth    = e.depth;
        in_pair_count = 0;
        r.has_pair    = true;
      }
      if (e.name == "particle") {
        if (pair_depth >= 0 && in_pair_count == 0) pair_first.insert(npart);
        if (pair_depth >= 0) in_pair_count++;
        npart++;
      }
      pt.push_back({e.name, e.a});
      if (e.depth <= 2 && e.name != "particle") {
        // signature of the scheme-level path (names + first argument)
        if (!r.sig.empty()) r.sig += "|";
        r.sig += e.name + (e.a.empty() ? "" : ":" + fmt(e.a[0]));
      }
    }
  }
  for (size_t i = 0; i < ref_trace_size(); i++) {
    const ref_event * e = ref_trace_get(i);
    if (std::strncmp(e->name, "scheme:", 7) == 0) continue;
    rt.push_back({e->name, std::vector<double>(e->a, e->a + e->n)});
  }
  // documented deviation: Y90's internal-pair branch has a revised positron spectrum in the port
  bool y90pair = false;
  {
    bool in_y90 = false;
    for (size_t i = 0; i < ref_trace_size(); i++) {
      const ref_event * e = ref_trace_get(i);
      if (lower(e->name) == "scheme:y90") in_y90 = true;
      if (in_y90 && lower(e->name) == "pair" && close_rel(e->a[0], 0.739, 1e-12)) y90pair = true;
    }
  }
  if (y90pair) {
    r.cls = "y90-pair-deviation";
    // prefix before the pair must agree; then the port emits e- and e+ along one direction with Ee+ + Ee- = 0.739
    size_t n = ev.get_particles().size();
    if (n < 3) { r.cls = "count"; r.detail = "Y90 pair branch: fewer than 3 particles"; return; }
    const auto & em = ev.get_particles()[n - 2];
    const auto & ep = ev.get_particles()[n - 1];
    if (!em.is_electron() || !ep.is_positron()) { r.cls = "species"; r.detail = "Y90 pair branch: last two particles are not e-, e+"; return; }
    double me = 0.51099891;
    double ke = std::sqrt(em.get_p() * em.get_p() + me * me) - me, kp = std::sqrt(ep.get_p() * ep.get_p() + me * me) - me;
    if (std::fabs(ke + kp - 0.739) > 1e-5) { r.cls = "momentum"; r.detail = "Y90 pair branch: kinetic energies sum to " + fmt(ke + kp); }
    return;
  }
  // 1. traces: same primitive calls with the same arguments in the same order
  {
    size_t n = std::min(pt.size(), rt.size());
    for (size_t i = 0; i < n; i++) {
      bool same = lower(pt[i].name) == lower(rt[i].name);
      size_t na = std::min(pt[i].a.size(), rt[i].a.size());
      if (same && pt[i].name == "particle") {
        // inside a pair the port emits e- then e+, the reference e+ then e- (documented)
        bool species_ok = pt[i].a[0] == rt[i].a[0]
                          || (((pt[i].a[0] == 2 && rt[i].a[0] == 3) || (pt[i].a[0] == 3 && rt[i].a[0] == 2)));
        if (!species_ok) same = false;
        for (size_t k = 1; k < na && same; k++) {
          double tol = (k >= 3 && k <= 6) ? 1e-6 : 1e-9;
          if (!close_rel(pt[i].a[k], rt[i].a[k], tol)) same = false;
        }
      } else if (same) {
        for (size_t k = 0; k < na && same; k++)
          if (!close_rel(pt[i].a[k], rt[i].a[k], 1e-9)) same = false;
      }
      if (!same) {
        r.cls    = "trace";
        r.detail = "call #" + std::to_string(i) + ": port " + flat_str(pt[i]) + " vs reference " + flat_str(rt[i]);
        return;
      }
    }
    if (pt.size() != rt.size()) {
      r.cls    = "trace";
      r.detail = "port makes " + std::to_string(pt.size()) + " primitive calls, reference " + std::to_string(rt.size()) + "; first extra: "
                 + (pt.size() > rt.size() ? "port " + flat_str(pt[n]) : "reference " + flat_str(rt[n]));
      return;
    }
  }
  // 2. deviates consumed
  if (ref_used != src.log.size()) {
    r.cls    = "draws";
    r.detail = "port consumed " + std::to_string(src.log.size()) + " deviates, reference " + std::to_string(ref_used);
    return;
  }
  // 3. event
  if ((size_t)genevent_.npfull != ev.get_particles().size()) {
    r.cls    = "count";
    r.detail = "port " + std::to_string(ev.get_particles().size()) + " particles, reference " + std::to_string(genevent_.npfull);
    return;
  }
  double t = 0;
  for (int i = 0; i < genevent_.npfull; i++) {
    t += genevent_.ptime[i];
    const auto & p = ev.get_particles()[i];
    int rc = genevent_.npgeant[i], pc = (int)p.get_code();
    bool inpair = pair_first.count(i) || (i > 0 && pair_first.count(i - 1));
    if (rc != pc && !(inpair && ((rc == 2 && pc == 3) || (rc == 3 && pc == 2)))) {
      r.cls    = "species";
      r.detail = "particle " + std::to_string(i) + ": port code " + std::to_string(pc) + ", reference " + std::to_string(rc);
      return;
    }
    double pm = p.get_p() + 1e-9;
    double d0 = std::fabs(genevent_.pmoment[i][0] - p.get_px()), d1 = std::fabs(genevent_.pmoment[i][1] - p.get_py()),
           d2 = std::fabs(genevent_.pmoment[i][2] - p.get_pz());
    if (!(d0 <= TOL_P * pm && d1 <= TOL_P * pm && d2 <= TOL_P * pm)) {
      r.cls    = "momentum";
      r.detail = "particle " + std::to_string(i) + ": port p=(" + fmt(p.get_px()) + "," + fmt(p.get_py()) + "," + fmt(p.get_pz())
                 + ") reference (" + fmt(genevent_.pmoment[i][0]) + "," + fmt(genevent_.pmoment[i][1]) + ","
                 + fmt(genevent_.pmoment[i][2]) + ")";
      return;
    }
    if (!(std::fabs(t - p.get_time()) <= TOL_T * std::fabs(t) + 1e-30)) {
      r.cls    = "time";
      r.detail = "particle " + std::to_string(i) + ": port time " + fmt(p.get_time()) + ", running sum of reference delays " + fmt(t);
      return;
    }
  }
}

static FILE * trace_out = nullptr;

static void dump_trace(const std::string & id, const std::string & name, const vh::Recorder & rec, const vh::PlanSource & src,
                       const bxdecay0::event & ev)
{
  if (!trace_out) return;
  std::fprintf(trace_out, "{\"e\":\"Reset\",\"id\":\"%s\",\"name\":\"%s\"}\n", id.c_str(), name.c_str());
  for (const auto & e : rec.evs) {
    if (e.kind == 1) {
      std::fprintf(trace_out, "{\"e\":\"leave\",\"n\":\"%s\",\"d\":%d}\n", e.name.c_str(), e.depth);
      continue;
    }
    std::fprintf(trace_out, "{\"e\":\"%s\",\"n\":\"%s\",\"d\":%d,\"nd\":%zu,\"a\":[", e.kind == 0 ? "enter" : "note", e.name.c_str(), e.depth,
                 e.draws);
    for (size_t i = 0; i < e.a.size(); i++) std::fprintf(trace_out, "%s\"%.17g\"", i ? "," : "", e.a[i]);
    std::fprintf(trace_out, "]}\n");
  }
  std::fprintf(trace_out, "{\"e\":\"draws\",\"u\":[");
  for (size_t i = 0; i < src.log.size(); i++) std::fprintf(trace_out, "%s[\"%c\",\"%.17g\"]", i ? "," : "", src.level[i], src.log[i]);
  std::fprintf(trace_out, "]}\n{\"e\":\"event\",\"np\":%zu,\"p\":[", ev.get_particles().size());
  for (size_t i = 0; i < ev.get_particles().size(); i++) {
    const auto & p = ev.get_particles()[i];
    std::fprintf(trace_out, "%s[%d,\"%.17g\",\"%.17g\",\"%.17g\",\"%.17g\"]", i ? "," : "", (int)p.get_code(), p.get_time(), p.get_px(),
                 p.get_py(), p.get_pz());
  }
  std::fprintf(trace_out, "]}\n");
}

static FILE * sch_out = nullptr;

static bool is_low_name(const std::string & n) { return n.size() > 3 && n.compare(n.size() - 3, 3, "low") == 0; }

// Scheme-level projection of one decay for spec/TraceScheme.tla: per scheme routine entered, the scheme-level
// deviates and the primitive calls made directly by the routine, in program order.
static void dump_sch_trace(const vh::Recorder & rec, const vh::PlanSource & src)
{
  if (!sch_out) return;
  std::fprintf(sch_out, "{\"e\":\"Reset\"}\n");
  size_t flushed = 0; // deviates [0, flushed) already attributed
  int sdepth = -1;
  auto flush = [&](size_t upto) {
    for (; flushed < upto && flushed < src.log.size(); flushed++) {
      if (src.level[flushed] != 's' || sdepth < 0) continue;
      double u  = src.log[flushed];
      long a    = (long)std::floor(u * 1e6);
      long b    = (long)std::floor((u * 1e6 - (double)a) * 1e6);
      if (b > 999999) b = 999999;
      if (b < 0) b = 0;
      std::fprintf(sch_out, "{\"e\":\"Draw\",\"a\":%ld,\"b\":%ld}\n", a, b);
    }
  };
  for (const auto & e : rec.evs) {
    if (e.kind == 0 && e.name.compare(0, 7, "scheme:") == 0) {
      flush(e.draws);
      std::string nm = e.name.substr(7);
      if (is_low_name(nm)) nm += "@" + std::to_string((long)e.a[0]);
      std::fprintf(sch_out, "{\"e\":\"Enter\",\"s\":\"%s\"}\n", nm.c_str());
      sdepth = e.depth;
    } else if (e.kind == 1 && e.name.compare(0, 7, "scheme:") == 0 && e.depth == sdepth) {
      flush(e.draws);
      std::fprintf(sch_out, "{\"e\":\"Ret\"}\n");
      sdepth = -1;
    } else if (e.kind == 0 && sdepth >= 0 && e.depth == sdepth + 1) {
      flush(e.draws);
      std::fprintf(sch_out, "{\"e\":\"Call\",\"p\":\"%s\",\"args\":[", e.name.c_str());
      for (size_t i = 0; i < e.a.size(); i++) std::fprintf(sch_out, "%s\"%.12g\"", i ? "," : "", e.a[i]);
      std::fprintf(sch_out, "]}\n");
    }
  }
}

static FILE * bb_out = nullptr;

static long long i8(double mev) { return std::llround(mev * 1e8); }

// Projection of the double-beta sampler's steps for spec/TraceBB.tla (energies in 0.01 eV)
static void dump_bb_trace(const vh::Recorder & rec, const vh::PlanSource & src)
{
  if (!bb_out) return;
  std::fprintf(bb_out, "{\"e\":\"Reset\"}\n");
  int bdepth = -1;
  auto next_u = [&](const vh::Ev & e) { return e.draws < src.log.size() ? src.log[e.draws] : 0.5; };
  for (const auto & e : rec.evs) {
    if (e.kind == 0 && e.name == "bb") {
      bdepth = e.depth;
      std::fprintf(bb_out, "{\"e\":\"Enter\",\"mode\":%d,\"zneg\":%d,\"q\":%lld,\"edl\":%lld,\"ek\":%lld,\"ebb1\":%lld,\"ebb2\":%lld,\"started\":%d}\n",
                   (int)e.a[0], e.a[5] < 0 ? 1 : 0, i8(e.a[2]), i8(e.a[3]), i8(e.a[4]), i8(e.a[7]), i8(e.a[8]), (int)e.a[1]);
    } else if (bdepth < 0) {
      continue;
    } else if (e.kind == 1 && e.name == "bb" && e.depth == bdepth) {
      std::fprintf(bb_out, "{\"e\":\"Leave\"}\n");
      bdepth = -1;
    } else if (e.kind == 2 && e.name == "bb_init") {
      std::fprintf(bb_out, "{\"e\":\"Init\",\"e0\":%lld,\"ebb1\":%lld,\"ebb2\":%lld,\"imax\":%d}\n", i8(e.a[0]), i8(e.a[1]), i8(e.a[2]), (int)e.a[5]);
    } else if (e.kind == 2 && e.name == "bb_trial1") {
      int acc = !(e.a[2] * next_u(e) > e.a[3]);
      std::fprintf(bb_out, "{\"e\":\"T1\",\"e1\":%lld,\"k\":%d,\"acc\":%d}\n", i8(e.a[0]), (int)e.a[1], acc);
    } else if (e.kind == 2 && e.name == "bb_scan2") {
      std::fprintf(bb_out, "{\"e\":\"S2\",\"ks\":%d,\"kf\":%d}\n", (int)e.a[2], (int)e.a[3]);
    } else if (e.kind == 2 && e.name == "bb_trial2") {
      int acc = !(e.a[2] * next_u(e) > e.a[1]);
      std::fprintf(bb_out, "{\"e\":\"T2\",\"e2\":%lld,\"acc\":%d}\n", i8(e.a[0]), acc);
    } else if (e.kind == 2 && e.name == "bb_pair") {
      std::fprintf(bb_out, "{\"e\":\"Pair\",\"e1\":%lld,\"e2\":%lld}\n", i8(e.a[0]), i8(e.a[1]));
    } else if (e.kind == 2 && e.name == "bb_trial3") {
      double ct = e.a[0];
      int acc   = !(e.a[4] * next_u(e) > e.a[1] + e.a[2] * ct + e.a[3] * ct * ct);
      std::fprintf(bb_out, "{\"e\":\"T3\",\"acc\":%d}\n", acc);
    } else if (e.kind == 2 && e.name == "bb_trial4") {
      std::fprintf(bb_out, "{\"e\":\"T4\",\"acc\":%d}\n", !(e.a[1] > e.a[0]));
    } else if (e.kind == 0 && e.name == "particle" && e.depth == bdepth + 1) {
      int c = (int)e.a[0];
      std::fprintf(bb_out, "{\"e\":\"Part\",\"c\":\"%s\"}\n", c == 1 ? "g" : c == 2 ? "e+" : c == 3 ? "e-" : "a");
    }
  }
}

static FILE * ev_out = nullptr;
static FILE * gb_out = nullptr;
static FILE * tr_out = nullptr;
// table subscripts noted by the code ("index" notes: base (0/1), subscript, table size): per (base, size) the smallest and the
// largest subscript seen in the whole run, written at exit for spec/Index.tla
static FILE * ix_out = nullptr;
struct IxRange { long lo = 0, hi = 0, count = 0; };
static std::map<std::pair<int, long>, IxRange> ix_seen;
static void collect_index_notes(const vh::Recorder & rec)
{
  if (!ix_out) return;
  for (const auto & e : rec.evs) {
    if (e.kind != 2 || e.name != "index" || e.a.size() < 3) continue;
    auto & r = ix_seen[{(int)e.a[0], (long)e.a[2]}];
    long i   = (long)e.a[1];
    if (r.count == 0 || i < r.lo) r.lo = i;
    if (r.count == 0 || i > r.hi) r.hi = i;
    r.count++;
  }
}

// Projection for spec/TraceTransition.tla: the particles emitted inside every nucltrans* / pair / PbAtShell scope (eV)
static void dump_tr_trace(const vh::Recorder & rec)
{
  if (!tr_out) return;
  auto ev = [](double mev) { return std::llround(mev * 1e6); };
  int depth = -1;
  for (const auto & e : rec.evs) {
    if (depth < 0) {
      if (e.kind != 0) continue;
      bool nt = e.name.compare(0, 9, "nucltrans") == 0;
      if (!(nt || e.name == "pair" || e.name == "PbAtShell")) continue;
      depth = e.depth;
      long long eg = 0, ebk = 0, ebl = 0, ebm = 0;
      if (e.name == "nucltransK") { eg = ev(e.a[0]); ebk = ev(e.a[1]); }
      else if (e.name == "nucltransKL") { eg = ev(e.a[0]); ebk = ev(e.a[1]); ebl = ev(e.a[3]); }
      else if (nt) { eg = ev(e.a[0]); ebk = ev(e.a[1]); ebl = ev(e.a[3]); ebm = ev(e.a[5]); }
      else if (e.name == "pair") eg = ev(e.a[0]);
      else eg = (long long)e.a[0] * 1000;
      std::fprintf(tr_out, "{\"e\":\"Begin\",\"p\":\"%s\",\"eg\":%lld,\"ebk\":%lld,\"ebl\":%lld,\"ebm\":%lld}\n", e.name.c_str(), eg, ebk, ebl, ebm);
    } else if (e.kind == 1 && e.depth == depth) {
      std::fprintf(tr_out, "{\"e\":\"End\"}\n");
      depth = -1;
    } else if (e.kind == 0 && e.name == "particle") {
      int c = (int)e.a[0];
      std::fprintf(tr_out, "{\"e\":\"Emit\",\"c\":\"%s\",\"ev\":%lld}\n", c == 1 ? "g" : c == 2 ? "e+" : c == 3 ? "e-" : "a", (long long)ev(e.a[1]));
    }
  }
}

// Dispatch projection for spec/TraceGenbb.tla: which routines genbbsub entered for a name
static void dump_gb_trace(const vh::Recorder & rec, const bxdecay0::event & ev, const std::string & cat, const std::string & name)
{
  if (!gb_out) return;
  bool alpha = !ev.get_particles().empty() && ev.get_particles().front().is_alpha();
  std::fprintf(gb_out, "{\"e\":\"Reset\"}\n{\"e\":\"Genbb\",\"cat\":\"%s\",\"name\":\"%s\"}\n", cat.c_str(), name.substr(0, name.find('+')).c_str());
  for (const auto & e : rec.evs) {
    if (e.kind != 0) continue;
    std::string r;
    if (e.name.compare(0, 7, "scheme:") == 0) r = e.name.substr(7);
    else if (e.name == "bb") r = "bb";
    else continue;
    std::fprintf(gb_out, "{\"e\":\"Enter\",\"s\":\"%s\",\"alpha\":%d}\n", r.c_str(), alpha ? 1 : 0);
  }
  std::fprintf(gb_out, "{\"e\":\"Exit\"}\n");
}

static void emit(const std::string & id, const Result & r, const std::string & extra = "")
{
  std::printf("{\"id\":\"%s\",\"cls\":\"%s\",\"detail\":\"%s\",\"ndraws\":%zu,\"np\":%zu,\"min_margin\":%.3g,\"pair\":%s,\"sig\":\"%s\",\"fp\":\"%s\"%s}\n",
              id.c_str(), r.cls.c_str(), vh::json_escape(r.detail).c_str(), r.ndraws, r.np, r.min_margin, r.has_pair ? "true" : "false",
              vh::json_escape(r.sig).c_str(), r.fp.c_str(), extra.c_str());
  std::fflush(stdout);
}

static double parse_plan_val(const std::string & s) { return s == "x" ? std::nan("") : std::atof(s.c_str()); }

static bool g_ref_overrun = false;
// run the reference on the recorded deviates (plus a tail so that over-consumption is visible)
static size_t run_reference(int i2bbs, const std::string & name, int level, int mode, int istart, const std::vector<double> & log, int & ier)
{
  static std::vector<double> script;
  script = log;
  vh::stream tail(0xfeedULL + log.size());
  for (int i = 0; i < 20000; i++) script.push_back(tail());
  ref_set_script(script.data(), script.size());
  ref_trace_clear();
  // GENBBsub normalises chnuclide in place during initialisation ("As79+Se79m" -> "As79") and compares the
  // normalised text exactly when generating: keep the buffer the reference wrote for later calls.
  static std::map<std::string, std::string> normalised;
  std::string key = std::to_string(i2bbs) + ":" + name;
  char nm[17];
  std::memset(nm, ' ', 16);
  nm[16] = 0;
  if (istart == 1 && normalised.count(key)) {
    std::memcpy(nm, normalised[key].data(), 16);
  } else {
    std::memcpy(nm, name.c_str(), std::min<size_t>(16, name.size()));
  }
  int i2 = i2bbs, il = level, mo = mode, ist = istart;
  ier = 0;
  // an initialisation-only call (istart=-1) runs bb() once without resetting the event counter of COMMON /genevent/;
  // the original program does this once per run, this driver thousands of times: reset it here
  genevent_.npfull = 0;
  g_ref_overrun    = false;
  static jmp_buf jb;
  if (setjmp(jb) == 0) {
    ref_arm_overrun(&jb);
    genbbsub_(&i2, nm, &il, &mo, &ist, &ier, 16);
  } else {
    g_ref_overrun = true;   // the reference kept drawing 2e6 deviates beyond what the port consumed: it does not follow the port
  }
  ref_arm_overrun(nullptr);
  if (istart != 1 && ier == 0 && !g_ref_overrun) normalised[key] = std::string(nm, 16);
  return ref_script_pos();
}

int main(int argc, char ** argv)
{
  for (int i = 1; i < argc; i++) {
    if (std::string(argv[i]) == "--trace" && i + 1 < argc) trace_out = std::fopen(argv[++i], "w");
    if (std::string(argv[i]) == "--sch-trace" && i + 1 < argc) sch_out = std::fopen(argv[++i], "w");
    if (std::string(argv[i]) == "--bb-trace" && i + 1 < argc) bb_out = std::fopen(argv[++i], "w");
    if (std::string(argv[i]) == "--ev-trace" && i + 1 < argc) ev_out = std::fopen(argv[++i], "w");
    if (std::string(argv[i]) == "--gb-trace" && i + 1 < argc) gb_out = std::fopen(argv[++i], "w");
    if (std::string(argv[i]) == "--tr-trace" && i + 1 < argc) tr_out = std::fopen(argv[++i], "w");
    if (std::string(argv[i]) == "--ix-trace" && i + 1 < argc) ix_out = std::fopen(argv[++i], "w");
  }
  std::set<std::string> ref_bkg_inited, ref_bkg_rejected;
  std::string line;
  while (std::getline(std::cin, line)) {
    if (line.empty() || line[0] == '#') continue;
    std::istringstream ls(line);
    std::string kind, id, name;
    ls >> kind >> id >> name;
    if (kind == "B") {
      uint64_t seed;
      long pin_pos;
      double pin_val;
      size_t nplans;
      ls >> seed >> pin_pos >> pin_val >> nplans;
      vh::Recorder rec;
      vh::PlanSource src(seed);
      src.rec = &rec;
      rec.draws_ptr = &src.ndraws;
      rec.scheme_counter = &src.scheme_index;
      src.pin_pos = pin_pos;
      src.pin_val = pin_val;
      for (size_t ip = 0; ip < nplans; ip++) {
        size_t k;
        ls >> k;
        std::vector<double> pl;
        for (size_t i = 0; i < k; i++) {
          std::string s;
          ls >> s;
          pl.push_back(parse_plan_val(s));
        }
        src.plans.push_back(pl);
      }
      bool reserve_event = false; // trailer "R": the event object has room for 64 particles (no reallocation while filling)
      {
        std::string tag;
        while (ls >> tag) {
          if (tag == "T") {
            size_t k;
            ls >> k;
            for (size_t i = 0; i < k; i++) {
              std::string s;
              ls >> s;
              src.tplan.push_back(parse_plan_val(s));
            }
          } else if (tag == "L") {
            ls >> src.pin_len;   // the pinned position starts a run of that many pinned deviates
          } else if (tag == "E") {
            // deviates of the rejection trials of the beta-spectrum primitives, in order (E-deviate, f-deviate, ...)
            size_t k;
            ls >> k;
            for (size_t i = 0; i < k; i++) {
              std::string s;
              ls >> s;
              src.betaplan.push_back(parse_plan_val(s));
            }
          } else if (tag == "R") {
            reserve_event = true;
          }
        }
      }
      Result r;
      bxdecay0::event ev;
      if (reserve_event) ev.grab_particles().reserve(64);
      bxdecay0::bbpars pars;
      int ier = 0;
      rec.install();
      try {
        bxdecay0::genbbsub(src, ev, bxdecay0::GENBBSUB_I2BBS_BACKGROUND, name, -1, -1, bxdecay0::GENBBSUB_ISTART_GENERATE, ier, pars);
      } catch (std::exception & e) {
        r.cls    = "port-exception";
        r.detail = e.what();
      }
      vh::Recorder::uninstall();
      if (r.cls == "agree" && ier != 0) {
        r.cls = "port-error";
      }
      if (r.cls == "agree") {
        int rier = 0;
        size_t used = 0;
        if (ref_bkg_rejected.count(name)) {
          rier = 1;
        } else {
          used = run_reference(2, name, 0, 0, ref_bkg_inited.count(name) ? 1 : 0, src.log, rier);
          ref_bkg_inited.insert(name);
          if (rier != 0) ref_bkg_rejected.insert(name);
        }
        if (rier != 0) {
          // a nuclide the reference does not know (port-only): the port's event is still reported
          r.cls    = "reference-rejects";
          r.ndraws = src.log.size();
          r.np     = ev.get_particles().size();
          r.fp     = std::to_string(std::hash<std::string>()(vh::fingerprint(ev)));
          for (const auto & e : rec.evs) {
            if (e.kind != 0 || e.depth > 2 || e.name == "particle" || e.name.compare(0, 7, "scheme:") == 0) continue;
            if (!r.sig.empty()) r.sig += "|";
            r.sig += e.name + (e.a.empty() ? "" : ":" + fmt(e.a[0]));
          }
        } else {
          r.min_margin = min_margin(rec.evs, src.log);
          compare(ev, rec, src, used, r);
          if (r.cls != "agree" && r.cls != "y90-pair-deviation" && r.min_margin < KNIFE) {
            r.detail = "(knife-edge margin " + fmt(r.min_margin) + ") " + r.cls + ": " + r.detail;
            r.cls    = "knife-edge-excluded";
          }
        }
      }
      dump_trace(id, name, rec, src, ev);
      dump_sch_trace(rec, src);
      dump_tr_trace(rec);
      collect_index_notes(rec);
      if (r.cls != "port-exception" && r.cls != "port-error") dump_gb_trace(rec, ev, "bkg", name);
      if (r.cls != "port-exception" && r.cls != "port-error") vh::dump_ev_trace(ev_out, id, ev, name, false, 0, 0, 0, 0, false, 0);
      emit(id, r);
    } else if (kind == "D") {
      int level, mode, nev;
      std::string semin, semax;
      uint64_t seed;
      long pin_pos;
      double pin_val;
      size_t nplans;
      ls >> level >> mode >> semin >> semax >> seed >> nev >> pin_pos >> pin_val >> nplans;
      std::vector<std::vector<double>> plans;
      for (size_t ip = 0; ip < nplans; ip++) {
        size_t k;
        ls >> k;
        std::vector<double> pl;
        for (size_t i = 0; i < k; i++) {
          std::string s;
          ls >> s;
          pl.push_back(parse_plan_val(s));
        }
        plans.push_back(pl);
      }
      std::vector<double> tplan;
      bool reserve_event = false;
      bool keep_pars     = false;
      double knife_override = -1.0;
      std::vector<double> bbplan_first;
      // optional trailers ("R": event object with room for 64 particles): "T k v1..vk" transition-outcome deviates; "N c1..c7" nuclear matrix elements of the
      // rhc-eta mode, set on both sides (Decay0: COMMON /eta_nme/); "K": the caller-owned parameter block of the previous "K" job is
      // initialised again without being reset (legacy interface: genbbsub(..., ISTART_INIT, ..., bbpars) on a block in use)
      double nme[7] = {0, 0, 0, 0, 0, 0, 0};
      {
        std::string tag;
        while (ls >> tag) {
          if (tag == "T") {
            size_t k;
            ls >> k;
            for (size_t i = 0; i < k; i++) {
              std::string s;
              ls >> s;
              tplan.push_back(parse_plan_val(s));
            }
          } else if (tag == "N") {
            for (int i = 0; i < 7; i++) ls >> nme[i];
          } else if (tag == "R") {
            reserve_event = true;
          } else if (tag == "K") {
            keep_pars = true;
          } else if (tag == "M") {
            ls >> knife_override;   // knife-edge margin of this job (probes whose only near-boundary trial is a plain function evaluation)
          } else if (tag == "B") {
            // deviates of the first draws made directly inside decay0_bb (first event only): trial energy, ordinate, ...
            size_t k;
            ls >> k;
            for (size_t i = 0; i < k; i++) {
              std::string s;
              ls >> s;
              bbplan_first.push_back(parse_plan_val(s));
            }
          }
        }
      }
      static bxdecay0::bbpars kept_pars;
      bxdecay0::bbpars fresh_pars;
      bxdecay0::bbpars & pars = keep_pars ? kept_pars : fresh_pars;
      pars.chi_GTw = eta_nme_.chi_GTw = nme[0];
      pars.chi_Fw  = eta_nme_.chi_Fw  = nme[1];
      pars.chip_GT = eta_nme_.chip_GT = nme[2];
      pars.chip_F  = eta_nme_.chip_F  = nme[3];
      pars.chip_T  = eta_nme_.chip_T  = nme[4];
      pars.chip_P  = eta_nme_.chip_P  = nme[5];
      pars.chip_R  = eta_nme_.chip_R  = nme[6];
      if (keep_pars) {
        // the user of a block in use states the window of the new request explicitly
        pars.ebb1 = 0.0;
        pars.ebb2 = 4.3;
      }
      if (semin != "x") pars.ebb1 = std::atof(semin.c_str());
      if (semax != "x") pars.ebb2 = std::atof(semax.c_str());
      // reference window
      enrange_.ebb1 = (semin != "x") ? std::atof(semin.c_str()) : 0.0;
      enrange_.ebb2 = (semax != "x") ? std::atof(semax.c_str()) : 4.3;
      int ier = 0, rier = 0;
      vh::Recorder irec;
      vh::PlanSource initsrc(seed);
      initsrc.rec     = &irec;
      irec.draws_ptr  = &initsrc.ndraws;
      bxdecay0::event dummy;
      Result r0;
      irec.install();
      try {
        bxdecay0::genbbsub(initsrc, dummy, bxdecay0::GENBBSUB_I2BBS_DBD, name, level, mode, bxdecay0::GENBBSUB_ISTART_INIT, ier, pars);
      } catch (std::exception & e) {
        ier      = -1;
        r0.detail = e.what();
      }
      vh::Recorder::uninstall();
      if (ier == 0) dump_bb_trace(irec, initsrc);
      std::vector<double> none;
      run_reference(1, name, level, mode, -1, none, rier);
      char extra[400];
      std::snprintf(extra, sizeof extra, ",\"phase\":\"init\",\"ier_port\":%d,\"ier_ref\":%d,\"toall_port\":\"%.12g\",\"toall_ref\":\"%.12g\",\"ebb_port\":[\"%.12g\",\"%.12g\"],\"ebb_ref\":[\"%.12g\",\"%.12g\"],\"e0\":\"%.12g\"",
                    ier, rier, pars.toallevents, enrange_.toallevents, pars.ebb1, pars.ebb2, enrange_.ebb1, enrange_.ebb2, pars.e0);
      if ((ier != 0) != (rier != 0)) {
        r0.cls    = "init-verdict";
        r0.detail = "port ier=" + std::to_string(ier) + " reference ier=" + std::to_string(rier) + " " + r0.detail;
      } else if (ier == 0) {
        bool gaussmode = (mode == 10);
        double tol     = gaussmode ? 3e-4 : 1e-5; // windows deep in a spectrum tail amplify the 8-digit literals of the reference
        bool toall_defined = !(mode == 9 || mode == 11 || mode == 12); // decay0's bb returns before computing it
        if (toall_defined && !close_rel(pars.toallevents, enrange_.toallevents, tol)) {
          r0.cls    = "toallevents";
          r0.detail = "port " + fmt(pars.toallevents) + " reference " + fmt(enrange_.toallevents);
        } else if (!close_rel(pars.ebb1, enrange_.ebb1, 1e-9) && std::fabs(pars.ebb1 - enrange_.ebb1) > 1e-12) {
          r0.cls    = "window";
          r0.detail = "ebb1 port " + fmt(pars.ebb1) + " reference " + fmt(enrange_.ebb1);
        } else if (!close_rel(pars.ebb2, enrange_.ebb2, 1e-9)) {
          r0.cls    = "window";
          r0.detail = "ebb2 port " + fmt(pars.ebb2) + " reference " + fmt(enrange_.ebb2);
        }
      }
      emit(id + ":init", r0, extra);
      if (ier != 0 || rier != 0) continue;
      for (int iev = 0; iev < nev; iev++) {
        vh::Recorder rec;
        vh::PlanSource src(seed * 1000003ULL + iev + 1);
        src.rec            = &rec;
        rec.draws_ptr      = &src.ndraws;
        rec.scheme_counter = &src.scheme_index;
        src.plans          = plans;
        src.tplan          = tplan;
        if (iev == 0) {
          src.pin_pos = pin_pos;
          src.pin_val = pin_val;
          src.bbplan  = bbplan_first;
        }
        Result r;
        bxdecay0::event ev;
        if (reserve_event) ev.grab_particles().reserve(64);
        rec.install();
        try {
          bxdecay0::genbbsub(src, ev, bxdecay0::GENBBSUB_I2BBS_DBD, name, level, mode, bxdecay0::GENBBSUB_ISTART_GENERATE, ier, pars);
        } catch (std::exception & e) {
          r.cls    = "port-exception";
          r.detail = e.what();
        }
        vh::Recorder::uninstall();
        if (r.cls == "agree") {
          size_t used  = run_reference(1, name, level, mode, 1, src.log, rier);
          r.min_margin = min_margin(rec.evs, src.log);
          compare(ev, rec, src, used, r);
          if (g_ref_overrun) {
            r.cls    = "reference-overrun";
            r.detail = "the reference did not finish this event on the " + std::to_string(src.log.size())
                       + " deviates the port consumed, nor on 2e6 more: the two samplers accept different trials";
          }
          if (r.cls == "momentum") {
            // named deviation: Decay0's fermi(Z,E) raises an argument below 50 eV to 50 eV *in place* (Fortran passes
            // by reference), so a lepton sampled below 50 eV leaves the reference with exactly 50 eV
            for (const auto & e : rec.evs)
              if (e.kind == 2 && e.name == "bb_pair" && (e.a[0] < 50e-6 || e.a[1] < 50e-6)) r.cls = "ref-fermi-clamp-excluded";
          }
          if (r.cls != "agree" && r.cls != "ref-fermi-clamp-excluded"
              && r.min_margin < (knife_override >= 0 ? knife_override : (mode == 4 || mode == 5 || mode == 6 || mode == 8 || mode >= 13 ? 1e-3 : KNIFE))) {
            r.detail = "(knife-edge margin " + fmt(r.min_margin) + ") " + r.cls + ": " + r.detail;
            r.cls    = "knife-edge-excluded";
          }
        }
        dump_trace(id + ":" + std::to_string(iev), name, rec, src, ev);
        dump_sch_trace(rec, src);
        dump_tr_trace(rec);
        collect_index_notes(rec);
        dump_bb_trace(rec, src);
        if (r.cls != "port-exception") {
          int steps = 0;
          for (const auto & e : rec.evs)
            if (e.kind == 0 && e.depth >= 2 && e.name != "particle" && e.name != "bb" && e.name.compare(0, 7, "scheme:") != 0) steps++;
          vh::dump_ev_trace(ev_out, id + ":" + std::to_string(iev), ev, name, true, mode, pars.Qbb, pars.ebb1, pars.ebb2, semin != "x" || semax != "x", steps);
        }
        emit(id + ":" + std::to_string(iev), r);
      }
    }
  }
  if (trace_out) std::fclose(trace_out);
  if (sch_out) std::fclose(sch_out);
  if (bb_out) std::fclose(bb_out);
  if (ev_out) std::fclose(ev_out);
  if (gb_out) std::fclose(gb_out);
  if (tr_out) std::fclose(tr_out);
  if (ix_out) {
    for (const auto & kv : ix_seen)
      std::fprintf(ix_out, "{\"e\":\"Idx\",\"base\":%d,\"n\":%ld,\"lo\":%ld,\"hi\":%ld,\"count\":%ld}\n", kv.first.first, kv.first.second, kv.second.lo,
                   kv.second.hi, kv.second.count);
    std::fclose(ix_out);
  }
  return 0;
}
