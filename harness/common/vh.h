// Common helpers for the /verif conformance harnesses (header only).
#ifndef VERIF_VH_H
#define VERIF_VH_H
#include <cfenv>
#include <clocale>
#include <cmath>
#include <cstdint>
#include <cstdio>
#include <cstring>
#include <fstream>
#include <iostream>
#include <sstream>
#include <string>
#include <locale>
#include <vector>

#include <sys/stat.h>
#include <unistd.h>

#include <gsl/gsl_errno.h>

#include <bxdecay0/event.h>
#include <bxdecay0/i_random.h>

namespace vh {

  // Deterministic deviate source (splitmix64), values in (0,1) on a 2^-53 grid, never 0.
  struct stream : public bxdecay0::i_random
  {
    uint64_t s;
    uint64_t served = 0;
    explicit stream(uint64_t seed_ = 1) : s(seed_) {}
    void reseed(uint64_t seed_) { s = seed_; served = 0; }
    double operator()() override
    {
      uint64_t z = (s += 0x9E3779B97F4A7C15ULL);
      z          = (z ^ (z >> 30)) * 0xBF58476D1CE4E5B9ULL;
      z          = (z ^ (z >> 27)) * 0x94D049BB133111EBULL;
      z ^= (z >> 31);
      served++;
      double u = ((z >> 11) + 0.5) * (1.0 / 9007199254740992.0);
      return u;
    }
  };

  // Scripted source: serves a recorded list, then falls back on a seeded stream.
  struct scripted : public bxdecay0::i_random
  {
    std::vector<double> plan;
    size_t pos = 0;
    stream fallback;
    std::vector<double> log;
    uint64_t max_draws = 1000000;
    explicit scripted(uint64_t seed_ = 7) : fallback(seed_) {}
    double operator()() override
    {
      if (log.size() >= max_draws) {
        throw std::runtime_error("vh::scripted: draw budget exceeded");
      }
      double u = (pos < plan.size()) ? plan[pos++] : fallback();
      log.push_back(u);
      return u;
    }
  };

  inline std::string hexd(double x)
  {
    uint64_t b;
    std::memcpy(&b, &x, 8);
    char buf[20];
    std::snprintf(buf, sizeof buf, "%016llx", (unsigned long long)b);
    return buf;
  }

  // Bit-exact fingerprint of an event (label, time, per particle code/time/momentum).
  inline std::string fingerprint(const bxdecay0::event & ev)
  {
    std::ostringstream o;
    o << ev.get_generator() << '|' << hexd(ev.get_time()) << '|' << ev.get_particles().size();
    for (const auto & p : ev.get_particles()) {
      o << '|' << (int)p.get_code() << ',' << hexd(p.get_time()) << ',' << hexd(p.get_px()) << ',' << hexd(p.get_py())
        << ',' << hexd(p.get_pz());
    }
    return o.str();
  }

  inline std::string short_event(const bxdecay0::event & ev)
  {
    std::ostringstream o;
    o.precision(9);
    o << ev.get_generator() << " n=" << ev.get_particles().size();
    for (const auto & p : ev.get_particles()) {
      o << " [" << (int)p.get_code() << " t=" << p.get_time() << " p=(" << p.get_px() << ',' << p.get_py() << ','
        << p.get_pz() << ")]";
    }
    return o.str();
  }

  /// Process-wide registers a library call has to leave as it found them (it may change and restore them inside the call):
  /// what else could carry history from one call to the next, or from one instance to another.
  struct ambient
  {
    int rounding = 0, fpexcept = 0;
    std::string clocale, cxxlocale, cwd;
    unsigned umask_ = 0;
    void * gsl_handler = nullptr;
    static ambient capture()
    {
      ambient a;
      a.rounding  = std::fegetround();
      a.fpexcept  = fegetexcept();
      const char * l = std::setlocale(LC_ALL, nullptr);
      a.clocale   = l ? l : "";
      a.cxxlocale = std::locale().name() + (std::use_facet<std::numpunct<char>>(std::locale()).decimal_point() == '.' ? "/." : "/,");
      char buf[4096];
      a.cwd    = getcwd(buf, sizeof buf) ? buf : "";
      mode_t m = ::umask(0);
      ::umask(m);
      a.umask_ = (unsigned)m;
      gsl_error_handler_t * h = gsl_set_error_handler(nullptr);   // peek: returns the handler in place ...
      gsl_set_error_handler(h);                                   // ... and put it back
      a.gsl_handler = (void *)h;
      return a;
    }
    /// name of the first register that differs, "" if none
    std::string diff(const ambient & o) const
    {
      if (rounding != o.rounding) return "fp-rounding-mode";
      if (fpexcept != o.fpexcept) return "fp-exception-mask";
      if (clocale != o.clocale) return "C-locale";
      if (cxxlocale != o.cxxlocale) return "global-C++-locale";
      if (cwd != o.cwd) return "working-directory";
      if (umask_ != o.umask_) return "umask";
      if (gsl_handler != o.gsl_handler) return "gsl-error-handler";
      return "";
    }
  };

  inline std::string json_escape(const std::string & s)
  {
    std::string o;
    for (char c : s) {
      if (c == '"' || c == '\\') {
        o += '\\';
        o += c;
      } else if (c == '\n') {
        o += "\\n";
      } else if ((unsigned char)c < 0x20) {
        char b[8];
        std::snprintf(b, sizeof b, "\\u%04x", c);
        o += b;
      } else {
        o += c;
      }
    }
    return o;
  }

} // namespace vh
#endif
