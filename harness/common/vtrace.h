// Trace recorder (implements bxdecay0::verif::tracer) and plan-driven deviate source.
#ifndef VERIF_VTRACE_H
#define VERIF_VTRACE_H
#include <limits>
#include <stdexcept>
#include <string>
#include <vector>

#include <bxdecay0/i_random.h>
#include <bxdecay0/verif_hooks.h>

#include "vh.h"

namespace vh {

  struct Ev
  {
    std::string name;
    int kind; // 0 enter, 1 leave, 2 note
    int depth;
    size_t draws; // number of deviates served before this event
    std::vector<double> a;
  };

  struct Recorder : public bxdecay0::verif::tracer
  {
    std::vector<Ev> evs;
    std::vector<std::string> stack;
    size_t * draws_ptr = nullptr;
    int * scheme_counter = nullptr; // incremented at every scheme-routine entry
    std::vector<size_t> entry_draws; // deviates served when each open scope was entered
    bool keep = true;
    void install() { bxdecay0::verif::current_tracer() = this; }
    static void uninstall() { bxdecay0::verif::current_tracer() = nullptr; }
    void clear()
    {
      evs.clear();
      stack.clear();
    }
    size_t nd() const { return draws_ptr ? *draws_ptr : 0; }
    void enter(const char * name_, std::size_t n_, const double * args_) override
    {
      if (keep) evs.push_back({name_, 0, (int)stack.size(), nd(), std::vector<double>(args_, args_ + n_)});
      stack.push_back(name_);
      entry_draws.push_back(nd());
      if (scheme_counter && stack.back().compare(0, 7, "scheme:") == 0) (*scheme_counter)++;
    }
    void leave(const char * name_) override
    {
      if (!stack.empty()) stack.pop_back();
      if (!entry_draws.empty()) entry_draws.pop_back();
      if (keep) evs.push_back({name_, 1, (int)stack.size(), nd(), {}});
    }
    void note(const char * name_, std::size_t n_, const double * args_) override
    {
      if (keep) evs.push_back({name_, 2, (int)stack.size(), nd(), std::vector<double>(args_, args_ + n_)});
    }
    void yield(const char *) override {}
    // true when the innermost open scope is a decay-scheme routine (draws made here are scheme-level draws)
    bool at_scheme_level() const { return !stack.empty() && stack.back().compare(0, 7, "scheme:") == 0; }
    bool at_level(const char * nm) const { return !stack.empty() && stack.back() == nm; }
    // true when the next deviate is the first one of a nuclear-transition primitive called directly by a scheme routine
    bool at_transition_choice() const
    {
      size_t n = stack.size();
      return n >= 2 && stack[n - 1].compare(0, 9, "nucltrans") == 0 && stack[n - 2].compare(0, 7, "scheme:") == 0
             && entry_draws.back() == nd();
    }
  };

  // Deviate source: scheme-level draws are taken from `plan` in order (NaN entry or exhausted plan = free draw),
  // everything else from the seeded fallback stream.  Optionally a single absolute draw position is pinned.
  struct PlanSource : public bxdecay0::i_random
  {
    Recorder * rec = nullptr;
    std::vector<std::vector<double>> plans; // plans[i] = planned scheme-level draws of the i-th scheme routine entered
    int scheme_index = -1;         // maintained by the Recorder
    int last_index   = -1;
    std::vector<double> bbplan;    // for draws made directly inside decay0_bb
    std::vector<double> tplan;     // outcome deviate of the i-th nuclear-transition primitive called by a scheme
    std::vector<double> betaplan;  // draws made directly inside a beta-spectrum primitive (the rejection trials: E-deviate, f-deviate, ...)
    size_t tpos = 0, epos = 0;
    size_t ppos = 0, bpos = 0;
    stream fallback;
    std::vector<double> log;       // every deviate served, in order
    std::vector<char> level;       // 's' scheme-level, 't' transition outcome, 'b' bb-level, 'e' planned beta trial, 'i' inside a primitive / elsewhere
    size_t ndraws = 0;
    long pin_pos = -1;
    long pin_len = 1;              // a run of pin_len consecutive deviates from pin_pos on is pinned
    double pin_val = 0.5;
    size_t max_draws = 2000000;
    explicit PlanSource(uint64_t seed_ = 7) : fallback(seed_) {}
    double operator()() override
    {
      if (ndraws >= max_draws) throw std::runtime_error("PlanSource: draw budget exceeded");
      double u;
      char lv = 'i';
      bool planned = false;
      if (rec && rec->at_scheme_level()) {
        lv = 's';
        if (scheme_index != last_index) {
          last_index = scheme_index;
          ppos       = 0;
        }
        static const std::vector<double> none;
        const std::vector<double> & plan = (scheme_index >= 0 && (size_t)scheme_index < plans.size()) ? plans[scheme_index] : none;
        if (ppos < plan.size()) {
          double v = plan[ppos];
          if (v == v) {
            u       = v;
            planned = true;
          }
        }
        ppos++;
      } else if (rec && rec->at_transition_choice()) {
        lv = 't';
        if (tpos < tplan.size()) {
          double v = tplan[tpos];
          if (v == v) {
            u       = v;
            planned = true;
          }
        }
        tpos++;
      } else if (rec && !betaplan.empty() && !rec->stack.empty() && rec->stack.back().compare(0, 4, "beta") == 0) {
        lv = 'e';
        if (epos < betaplan.size()) {
          double v = betaplan[epos];
          if (v == v) {
            u       = v;
            planned = true;
          }
        }
        epos++;
      } else if (rec && rec->at_level("bb")) {
        lv = 'b';
        if (bpos < bbplan.size()) {
          double v = bbplan[bpos];
          if (v == v) {
            u       = v;
            planned = true;
          }
        }
        bpos++;
      }
      if (!planned) u = fallback();
      if (pin_pos >= 0 && (long)ndraws >= pin_pos && (long)ndraws < pin_pos + pin_len) u = pin_val;
      log.push_back(u);
      level.push_back(lv);
      ndraws++;
      return u;
    }
  };

} // namespace vh
#endif
