// Event-level projection from the public API only (spec/Event.tla): species, kinetic energy from |p|, time order;
// for double-beta events the Q value, window and mode from the parameter block.  Energies in 0.01 eV.
#ifndef VERIF_EVTRACE_H
#define VERIF_EVTRACE_H
#include <cmath>
#include <cstdio>
#include <string>

#include <bxdecay0/bb.h>
#include <bxdecay0/event.h>

namespace vh {
  inline long long ev_i8(double mev) { return std::llround(mev * 1e8); }

  inline void dump_ev_trace(FILE * ev_out, const std::string & id, const bxdecay0::event & ev, const std::string & label, bool dbd, int mode,
                            double q, double ebb1, double ebb2, bool window, int cascade_steps)
  {
    if (!ev_out) return;
    std::fprintf(ev_out, "{\"e\":\"Begin\",\"id\":\"%s\",\"cat\":\"%s\",\"lab\":%d,\"t0\":%d,\"mode\":%d,\"q\":%lld,\"ebb1\":%lld,\"ebb2\":%lld,\"steps\":%d,\"win\":%d,\"chain\":%d}\n",
                 id.c_str(), dbd ? "dbd" : "bkg", ev.get_generator() == label ? 1 : 0, ev.get_time() == 0.0 ? 1 : 0, mode, dbd ? ev_i8(q) : 0LL,
                 dbd ? ev_i8(ebb1) : 0LL, dbd ? ev_i8(ebb2) : 0LL, cascade_steps, window ? 1 : 0,
                 (dbd && (label == "Bi214" || label == "Pb214" || label == "Po218" || label == "Rn222")) ? 1 : 0);
    double last = 0.0;
    for (const auto & p : ev.get_particles()) {
      const char * c = p.is_gamma() ? "g" : p.is_electron() ? "e-" : p.is_positron() ? "e+" : p.is_alpha() ? "a" : "?";
      double m  = p.is_gamma() ? 0.0 : p.is_alpha() ? 3727.417 : 0.51099906;
      double pp = p.get_p();
      bool fin  = std::isfinite(p.get_px()) && std::isfinite(p.get_py()) && std::isfinite(p.get_pz()) && std::isfinite(p.get_time());
      double ke = p.is_gamma() ? pp : pp * pp / (std::sqrt(pp * pp + m * m) + m);
      long long kei = fin && ke < 20.0 ? ev_i8(ke) : -1;
      int dt = p.get_time() > last ? 1 : p.get_time() < last ? -1 : 0;
      std::fprintf(ev_out, "{\"e\":\"P\",\"c\":\"%s\",\"ke\":%lld,\"fin\":%d,\"dt\":%d,\"tneg\":%d}\n", c, kei, fin ? 1 : 0, dt, p.get_time() < 0 ? 1 : 0);
      if (fin) last = p.get_time();
    }
    std::fprintf(ev_out, "{\"e\":\"End\",\"n\":%zu}\n", ev.get_particles().size());
  }
} // namespace vh
#endif
