// Replays the Lifecycle specification's behaviours on a real decay0_generator (property C09).
//
// Input: the state graph TLC exported for spec/Lifecycle.tla, flattened by checks/c09.py:
//   A <aid> <name> <arg>            action instances ("-" when no argument, "''" for the empty string)
//   S <sid> <init> <cat> <iso> <ver> <level> <mode> <range> <nops> <count> <last>
//   E <src> <aid> <dst>
//   I <sid>
// Every sequence of action instances up to --depth (all of them, DFS, or a seeded sample) is executed on a
// fresh object.  The specification is followed as a nondeterministic automaton: after each real call the
// getter projection of the object must equal one of the successor states the model allows for that action.
// After each successful Shoot the event must be bit-identical to the one a really fresh instance with the
// same configuration yields for the same deviate stream.
#include <algorithm>
#include <chrono>
#include <cstdlib>
#include <map>
#include <memory>
#include <random>
#include <set>
#include <stdexcept>

#include <bxdecay0/bb_utils.h>
#include <bxdecay0/decay0_generator.h>
#include <bxdecay0/mdl_event_op.h>

#include "common/vh.h"

using bxdecay0::decay0_generator;

struct AState
{
  int init;
  std::string cat, iso;
  int ver, level, mode;
  std::string range;
  int nops, count;
  std::string last;
  bool operator==(const AState & o) const
  {
    return init == o.init && cat == o.cat && iso == o.iso && ver == o.ver && level == o.level && mode == o.mode
           && range == o.range && nops == o.nops && count == o.count && last == o.last;
  }
  std::string str() const
  {
    std::ostringstream s;
    s << "[init=" << init << " cat=" << cat << " iso='" << iso << "' ver=" << ver << " level=" << level
      << " mode=" << mode << " range=" << range << " nops=" << nops << " count=" << count << " last=" << last << "]";
    return s.str();
  }
};

struct Action
{
  std::string name, arg;
};

static std::vector<Action> actions;
static std::vector<AState> states;
static std::vector<std::map<int, std::vector<int>>> succ; // succ[sid][aid] -> dst sids
static int init_sid = -1;

static const double R_OK_LO = 0.5, R_OK_HI = 2.0, R_INV_LO = 2.0, R_INV_HI = 1.0;

static bxdecay0::event_op_ptr make_op()
{
  auto op = std::make_shared<bxdecay0::momentum_direction_lock_event_op>();
  op->set(bxdecay0::GAMMA, -1, 0.0, 0.0, 1.0, 0.4, false);
  return op;
}

static AState project(const decay0_generator & g, bool threw, std::string & incoherent)
{
  AState a;
  a.init = g.is_initialized() ? 1 : 0;
  switch (g.get_decay_category()) {
  case decay0_generator::DECAY_CATEGORY_UNDEFINED:
    a.cat = "undef";
    break;
  case decay0_generator::DECAY_CATEGORY_DBD:
    a.cat = "dbd";
    break;
  case decay0_generator::DECAY_CATEGORY_BACKGROUND:
    a.cat = "bkg";
    break;
  default:
    a.cat = "?";
  }
  a.iso   = g.get_decay_isotope();
  a.ver   = g.has_decay_version() ? 1 : 0;
  a.level = g.get_decay_dbd_level();
  a.mode  = (int)g.get_decay_dbd_mode();
  double lo = g.get_decay_dbd_esum_range_lower(), hi = g.get_decay_dbd_esum_range_upper();
  if (std::isnan(lo) && std::isnan(hi)) {
    a.range = "none";
  } else if (lo == R_OK_LO && hi == R_OK_HI) {
    a.range = "ok";
  } else if (lo == R_INV_LO && hi == R_INV_HI) {
    a.range = "inv";
  } else if (lo == R_OK_LO && std::isnan(hi)) {
    a.range = "lo";
  } else if (std::isnan(lo) && hi == R_OK_HI) {
    a.range = "hi";
  } else {
    a.range = "?";
  }
  a.nops  = (int)g.get_operations().size();
  a.count = (int)g.get_event_count();
  a.last  = threw ? "err" : "ok";
  // coherence of the has_* getters with the get_* getters (part of "every getter reports defaults")
  incoherent.clear();
  if (g.has_decay_category() != (a.cat != "undef")) incoherent += " has_decay_category";
  if (g.has_decay_isotope() != (!a.iso.empty())) incoherent += " has_decay_isotope";
  if (g.has_decay_dbd_level() != (a.level != -1)) incoherent += " has_decay_dbd_level";
  if (g.has_decay_dbd_mode() != (a.mode != 0)) incoherent += " has_decay_dbd_mode";
  // has_decay_dbd_esum_range() = "both bounds are set"
  if (g.has_decay_dbd_esum_range() != (a.range == "ok" || a.range == "inv")) incoherent += " has_decay_dbd_esum_range";
  if (g.is_dbd() != (a.cat == "dbd")) incoherent += " is_dbd";
  if (g.is_background() != (a.cat == "bkg")) incoherent += " is_background";
  return a;
}

struct Viol
{
  std::string key, what, seq;
};
static std::vector<Viol> viols;
static std::set<std::string> viol_keys;
static long n_seq = 0, n_steps = 0, n_shoots = 0, n_inits_ok = 0, n_canon = 0, n_nondet = 0;
static std::set<int> visited;
static std::set<std::pair<int, int>> edges_taken;

static std::string seq_str(const std::vector<int> & seq, size_t upto)
{
  std::ostringstream s;
  for (size_t i = 0; i <= upto && i < seq.size(); i++) {
    if (i) s << " ; ";
    s << actions[seq[i]].name;
    if (actions[seq[i]].arg != "-") s << "(" << actions[seq[i]].arg << ")";
  }
  return s.str();
}

static void report(const std::string & key, const std::string & what, const std::vector<int> & seq, size_t upto)
{
  if (viol_keys.insert(key).second) {
    viols.push_back({key, what, seq_str(seq, upto)});
  }
}

// canonical event: fresh instance, same configuration, same deviate stream
static std::map<std::string, std::string> canon_cache;
static std::string canon_event(const AState & c, int shot_index)
{
  std::ostringstream k;
  k << c.cat << '/' << c.iso << '/' << c.level << '/' << c.mode << '/' << c.range << '/' << c.nops << '/' << shot_index;
  auto it = canon_cache.find(k.str());
  if (it != canon_cache.end()) return it->second;
  decay0_generator g;
  g.set_decay_category(c.cat == "dbd" ? decay0_generator::DECAY_CATEGORY_DBD : decay0_generator::DECAY_CATEGORY_BACKGROUND);
  g.set_decay_isotope(c.iso);
  if (c.cat == "dbd") {
    g.set_decay_dbd_level(c.level);
    g.set_decay_dbd_mode((bxdecay0::dbd_mode_type)c.mode);
    if (c.range == "ok") g.set_decay_dbd_esum_range(R_OK_LO, R_OK_HI);
    if (c.range == "lo") g.set_decay_dbd_esum_range(R_OK_LO, std::nan(""));
    if (c.range == "hi") g.set_decay_dbd_esum_range(std::nan(""), R_OK_HI);
  }
  for (int i = 0; i < c.nops; i++) g.add_operation(make_op());
  vh::stream pr(99);
  g.initialize(pr);
  bxdecay0::event ev;
  std::string fp;
  for (int i = 0; i <= shot_index; i++) {
    pr.reseed(1000 + i);
    g.shoot(pr, ev);
    fp = vh::fingerprint(ev);
  }
  n_canon++;
  canon_cache[k.str()] = fp;
  return fp;
}

// One live object followed through the model as a nondeterministic automaton.
struct Runner
{
  std::unique_ptr<decay0_generator> g;
  vh::stream prng{4242};
  bxdecay0::event ev;
  std::vector<int> cur;
  std::vector<int> seq;
  bool dead = false; // a violation was reported on this object: do not continue with it
  Runner() : g(new decay0_generator), cur{init_sid} { n_seq++; }

  // returns false when the action is not enabled in the (bounded) model or the runner is dead
  bool step(int aid)
  {
    if (dead) return false;
    const Action & a = actions[aid];
    std::vector<int> cand;
    for (int s : cur) {
      auto it = succ[s].find(aid);
      if (it != succ[s].end()) cand.insert(cand.end(), it->second.begin(), it->second.end());
    }
    if (cand.empty()) return false;
    seq.push_back(aid);
    size_t i   = seq.size() - 1;
    bool threw = false;
    bool shot  = false;
    try {
      if (a.name == "SetCategory") {
        g->set_decay_category(a.arg == "dbd"   ? decay0_generator::DECAY_CATEGORY_DBD
                              : a.arg == "bkg" ? decay0_generator::DECAY_CATEGORY_BACKGROUND
                                               : decay0_generator::DECAY_CATEGORY_UNDEFINED);
      } else if (a.name == "SetIsotope") {
        g->set_decay_isotope(a.arg == "''" ? std::string() : a.arg);
      } else if (a.name == "SetVersion") {
        g->set_decay_version("9.9.9");
      } else if (a.name == "SetLevel") {
        g->set_decay_dbd_level(std::atoi(a.arg.c_str()));
      } else if (a.name == "SetMode") {
        g->set_decay_dbd_mode((bxdecay0::dbd_mode_type)std::atoi(a.arg.c_str()));
      } else if (a.name == "SetModeByLabel") {
        int m = std::atoi(a.arg.c_str());
        std::string label = "no_such_mode";
        if (m > 0) label = bxdecay0::dbd_modes().at((bxdecay0::dbd_mode_type)m).unique_label;
        g->set_decay_dbd_mode_by_label(label);
      } else if (a.name == "SetRange") {
        if (a.arg == "none")
          g->set_decay_dbd_esum_range(std::nan(""), std::nan(""));
        else if (a.arg == "ok")
          g->set_decay_dbd_esum_range(R_OK_LO, R_OK_HI);
        else if (a.arg == "lo")
          g->set_decay_dbd_esum_range(R_OK_LO, std::nan(""));
        else if (a.arg == "hi")
          g->set_decay_dbd_esum_range(std::nan(""), R_OK_HI);
        else
          g->set_decay_dbd_esum_range(R_INV_LO, R_INV_HI);
      } else if (a.name == "AddOp") {
        g->add_operation(make_op());
      } else if (a.name == "AddNullOp") {
        g->add_operation(bxdecay0::event_op_ptr());
      } else if (a.name == "Initialize") {
        g->initialize(prng);
      } else if (a.name == "Shoot") {
        prng.reseed(1000 + g->get_event_count());
        g->shoot(prng, ev);
        shot = true;
        n_shoots++;
      } else if (a.name == "Reset") {
        g->reset();
      } else if (a.name == "Recreate") {
        g.reset();
        g.reset(new decay0_generator);
      } else {
        std::cerr << "unknown action " << a.name << std::endl;
        std::exit(2);
      }
    } catch (const std::logic_error &) {
      threw = true;
    } catch (const std::runtime_error &) {
      threw = true;
    }
    n_steps++;
    std::string incoh;
    AState obs = project(*g, threw, incoh);
    std::vector<int> next;
    for (int d : cand)
      if (states[d] == obs) next.push_back(d);
    std::sort(next.begin(), next.end());
    next.erase(std::unique(next.begin(), next.end()), next.end());
    if (next.empty()) {
      const AState & e = states[cand[0]];
      std::string diff;
      if (e.init != obs.init) diff += "init,";
      if (e.cat != obs.cat) diff += "cat,";
      if (e.iso != obs.iso) diff += "iso,";
      if (e.ver != obs.ver) diff += "ver,";
      if (e.level != obs.level) diff += "level,";
      if (e.mode != obs.mode) diff += "mode,";
      if (e.range != obs.range) diff += "range,";
      if (e.nops != obs.nops) diff += "nops,";
      if (e.count != obs.count) diff += "count,";
      if (e.last != obs.last) diff += "last,";
      const AState & pre = states[cur[0]];
      std::string key = a.name + "@" + (pre.init ? "init" : "uninit") + ":" + diff;
      if (a.name == "Reset" || a.name == "Recreate") {
        key = a.name + "@" + (pre.init ? "init" : "uninit") + ":not-fresh";
      }
      if (a.name == "Initialize") {
        key = "Initialize@" + std::string(pre.init ? "init" : "uninit") + ":cfg=" + pre.cat + "/" + pre.iso + "/"
              + std::to_string(pre.level) + "/" + std::to_string(pre.mode) + "/" + pre.range;
      }
      report(key,
             "after " + a.name + ": model allows " + e.str() + " (one of " + std::to_string(cand.size())
               + "), code shows " + obs.str() + " ; pre-state " + pre.str(),
             seq, i);
      dead = true;
      return true;
    }
    if (!incoh.empty()) {
      report("getter-incoherent:" + incoh, "has_*/get_* disagree after " + a.name + ":" + incoh + " in " + obs.str(), seq, i);
    }
    if (cand.size() > 1) n_nondet++;
    for (int s : cur)
      for (int d : next) edges_taken.insert({s * 64 + aid, d});
    for (int d : next) visited.insert(d);
    if (a.name == "Initialize" && !threw) n_inits_ok++;
    if (shot && !threw) {
      std::string want = canon_event(obs, obs.count - 1);
      std::string got  = vh::fingerprint(ev);
      if (want != got) {
        report("Shoot:event-differs-from-fresh-instance:" + obs.cat + "/" + obs.iso + "/" + std::to_string(obs.mode),
               "event of shot #" + std::to_string(obs.count - 1)
                 + " differs from the one of a fresh instance with the same configuration and stream: " + vh::short_event(ev),
               seq, i);
      }
      if (ev.get_particles().empty()) {
        report("Shoot:empty-event", "successful shoot left an empty event", seq, i);
      }
    }
    cur = next;
    return true;
  }
};

static size_t run_sequence(const std::vector<int> & seq)
{
  Runner r;
  for (size_t i = 0; i < seq.size(); i++) {
    if (!r.step(seq[i])) return i;
  }
  return seq.size();
}

// Online edge cover: walk the model graph on live objects until every (state, action instance) pair reachable
// after the given prefix has been executed at least once.  Sequences are cut at maxlen calls.
static long cover(const std::vector<int> & prefix, size_t maxlen, std::chrono::steady_clock::time_point deadline_, bool & complete)
{
  std::set<std::pair<int, int>> todo; // (sid, aid) pairs still to execute
  // reachable part after the prefix (on the model)
  std::vector<int> start{init_sid};
  for (int a : prefix) {
    std::vector<int> nxt;
    for (int s : start) {
      auto it = succ[s].find(a);
      if (it != succ[s].end()) nxt.insert(nxt.end(), it->second.begin(), it->second.end());
    }
    std::sort(nxt.begin(), nxt.end());
    nxt.erase(std::unique(nxt.begin(), nxt.end()), nxt.end());
    start = nxt;
  }
  {
    std::vector<int> stack(start.begin(), start.end());
    std::set<int> seen(start.begin(), start.end());
    while (!stack.empty()) {
      int u = stack.back();
      stack.pop_back();
      for (auto & kv : succ[u]) {
        todo.insert({u, kv.first});
        for (int d : kv.second)
          if (seen.insert(d).second) stack.push_back(d);
      }
    }
  }
  long total = (long)todo.size();
  std::vector<int> remaining(states.size(), 0);
  for (auto & pr : todo) remaining[pr.first]++;
  complete   = true;
  int stuck  = 0;
  while (!todo.empty()) {
    if (std::chrono::steady_clock::now() > deadline_) {
      complete = false;
      break;
    }
    Runner r;
    bool ok = true;
    for (int a : prefix) ok = ok && r.step(a);
    if (!ok || r.dead) break;
    size_t before = todo.size();
    std::vector<int> plan; // actions still to take, last element first
    while (r.seq.size() < maxlen && !r.dead && !todo.empty()) {
      int s = r.cur[0];
      if (plan.empty()) {
        if (remaining[s] > 0)
          for (auto & kv : succ[s])
            if (todo.count({s, kv.first})) {
              plan.push_back(kv.first);
              break;
            }
      }
      if (plan.empty()) {
        // BFS to the nearest state with an uncovered pair; the whole path becomes the plan
        static std::vector<int> pred_s, pred_a, stamp;
        static int epoch = 0;
        if (pred_s.size() != states.size()) {
          pred_s.assign(states.size(), -1);
          pred_a.assign(states.size(), -1);
          stamp.assign(states.size(), 0);
        }
        epoch++;
        std::vector<int> q{s};
        stamp[s]   = epoch;
        pred_s[s]  = -1;
        int target = -1;
        for (size_t qi = 0; qi < q.size() && target < 0; qi++) {
          int u = q[qi];
          for (auto & kv : succ[u]) {
            for (int d : kv.second) {
              if (stamp[d] == epoch) continue;
              stamp[d]  = epoch;
              pred_s[d] = u;
              pred_a[d] = kv.first;
              q.push_back(d);
              if (remaining[d] > 0) {
                target = d;
                break;
              }
            }
            if (target >= 0) break;
          }
        }
        if (target < 0) break; // nothing reachable from here: restart
        for (int u = target; pred_s[u] >= 0; u = pred_s[u]) plan.push_back(pred_a[u]);
      }
      int pick = plan.back();
      plan.pop_back();
      for (int c : r.cur)
        if (todo.erase({c, pick})) remaining[c]--;
      if (!r.step(pick)) break;
      if (r.cur.size() != 1) plan.clear();
    }
    if (todo.size() == before) {
      if (++stuck > 3) {
        complete = false;
        break;
      }
    } else {
      stuck = 0;
    }
  }
  return total - (long)todo.size();
}

static std::chrono::steady_clock::time_point deadline;
static bool timed_out = false;

static std::vector<int> model_step(const std::vector<int> & cur, int a)
{
  std::vector<int> nxt;
  for (int s : cur) {
    auto it = succ[s].find(a);
    if (it != succ[s].end()) nxt.insert(nxt.end(), it->second.begin(), it->second.end());
  }
  std::sort(nxt.begin(), nxt.end());
  nxt.erase(std::unique(nxt.begin(), nxt.end()), nxt.end());
  return nxt;
}

// All maximal sequences of model-enabled action instances up to the given depth.
static void dfs(std::vector<int> & seq, std::vector<std::vector<int>> & cur, int depth, int shard, int nshards)
{
  if (timed_out) return;
  bool extended = false;
  if ((int)seq.size() < depth) {
    for (int a = 0; a < (int)actions.size(); a++) {
      if (seq.size() == 1 && nshards > 1 && ((seq[0] * (int)actions.size() + a) % nshards) != shard) continue;
      std::vector<int> nxt = model_step(cur.back(), a);
      if (nxt.empty()) continue;
      extended = true;
      seq.push_back(a);
      cur.push_back(nxt);
      dfs(seq, cur, depth, shard, nshards);
      cur.pop_back();
      seq.pop_back();
      if (timed_out) return;
    }
  }
  if (!extended && !seq.empty()) {
    if (seq.size() == 1 && nshards > 1 && shard != 0) return;
    run_sequence(seq);
    if ((n_seq & 1023) == 0 && std::chrono::steady_clock::now() > deadline) timed_out = true;
  }
}

int main(int argc, char ** argv)
{
  std::string graph, seqfile;
  int depth = 3, shard = 0, nshards = 1;
  long walks = 0, walklen = 12;
  uint64_t seed = 1;
  double budget = 60;
  bool do_cover = false;
  size_t maxlen = 80;
  std::vector<int> prefix;
  long covered = 0;
  for (int i = 1; i < argc; i++) {
    std::string a = argv[i];
    if (a == "--graph") graph = argv[++i];
    else if (a == "--depth") depth = std::atoi(argv[++i]);
    else if (a == "--shard") { shard = std::atoi(argv[++i]); nshards = std::atoi(argv[++i]); }
    else if (a == "--walks") walks = std::atol(argv[++i]);
    else if (a == "--walklen") walklen = std::atol(argv[++i]);
    else if (a == "--seed") seed = std::strtoull(argv[++i], nullptr, 10);
    else if (a == "--budget") budget = std::atof(argv[++i]);
    else if (a == "--seqfile") seqfile = argv[++i];
    else if (a == "--cover") do_cover = true;
    else if (a == "--maxlen") maxlen = (size_t)std::atol(argv[++i]);
    else if (a == "--prefix") { std::istringstream ps(argv[++i]); int x; while (ps >> x) prefix.push_back(x); }
  }
  std::ifstream in(graph);
  if (!in) { std::cerr << "cannot open graph\n"; return 2; }
  std::string line;
  while (std::getline(in, line)) {
    std::istringstream ls(line);
    char t;
    ls >> t;
    if (t == 'A') {
      int id; Action a; ls >> id >> a.name >> a.arg;
      if ((int)actions.size() <= id) actions.resize(id + 1);
      actions[id] = a;
    } else if (t == 'S') {
      int id; AState s; ls >> id >> s.init >> s.cat >> s.iso >> s.ver >> s.level >> s.mode >> s.range >> s.nops >> s.count >> s.last;
      if (s.iso == "''") s.iso = "";
      if ((int)states.size() <= id) { states.resize(id + 1); succ.resize(id + 1); }
      states[id] = s;
    } else if (t == 'E') {
      int s, a, d; ls >> s >> a >> d;
      succ[s][a].push_back(d);
    } else if (t == 'I') {
      ls >> init_sid;
    }
  }
  deadline = std::chrono::steady_clock::now() + std::chrono::milliseconds((long)(budget * 1000));
  bool exhaustive = false;
  if (do_cover) {
    bool complete = false;
    covered       = cover(prefix, maxlen, deadline, complete);
    exhaustive    = complete;
  } else if (!seqfile.empty()) {
    // explicit sequences (edge cover / replay): one per line, action ids
    std::ifstream sf(seqfile);
    while (std::getline(sf, line)) {
      std::istringstream ls(line);
      std::vector<int> seq; int a;
      while (ls >> a) seq.push_back(a);
      if (!seq.empty()) run_sequence(seq);
    }
    exhaustive = true;
  } else if (walks > 0) {
    std::mt19937_64 rng(seed);
    for (long w = 0; w < walks && !timed_out; w++) {
      // random walk that only takes actions enabled in the model
      std::vector<int> seq;
      std::vector<int> cur{init_sid};
      for (long i = 0; i < walklen; i++) {
        std::vector<int> en;
        for (int a = 0; a < (int)actions.size(); a++)
          for (int s : cur)
            if (succ[s].count(a)) { en.push_back(a); break; }
        if (en.empty()) break;
        // bias towards protocol-relevant calls
        int a = en[rng() % en.size()];
        seq.push_back(a);
        std::vector<int> nxt;
        for (int s : cur) { auto it = succ[s].find(a); if (it != succ[s].end()) nxt.insert(nxt.end(), it->second.begin(), it->second.end()); }
        std::sort(nxt.begin(), nxt.end()); nxt.erase(std::unique(nxt.begin(), nxt.end()), nxt.end());
        cur = nxt;
      }
      run_sequence(seq);
      if ((w & 255) == 0 && std::chrono::steady_clock::now() > deadline) timed_out = true;
    }
  } else {
    std::vector<int> seq;
    std::vector<std::vector<int>> cur{{init_sid}};
    dfs(seq, cur, depth, shard, nshards);
    exhaustive = !timed_out;
  }
  std::cout << "{\"sequences\":" << n_seq << ",\"steps\":" << n_steps << ",\"shoots\":" << n_shoots << ",\"inits_ok\":" << n_inits_ok
            << ",\"canon\":" << n_canon << ",\"nondet_steps\":" << n_nondet << ",\"states_visited\":" << visited.size()
            << ",\"edges_taken\":" << edges_taken.size() << ",\"pairs_covered\":" << covered << ",\"exhaustive\":" << (exhaustive ? "true" : "false") << ",\"violations\":[";
  for (size_t i = 0; i < viols.size(); i++) {
    if (i) std::cout << ",";
    std::cout << "{\"key\":\"" << vh::json_escape(viols[i].key) << "\",\"what\":\"" << vh::json_escape(viols[i].what) << "\",\"seq\":\""
              << vh::json_escape(viols[i].seq) << "\"}";
  }
  std::cout << "]}" << std::endl;
  return 0;
}
