// Replays the behaviours of spec/G4Action.tla on the real bxdecay0_g4::PrimaryGeneratorAction (property C17).
//
// The real extension sources (primary_generator_action.cc, unique_point_vertex_generator.cc,
// vertex_generator_interface.cc) are compiled from the repository working tree against the Geant4 stand-in of
// /verif/g4stub; the real core tools' sources (programs/bxdecay0_clparser.cpp, programs/bxdecay0_driver.cpp) are
// compiled in as well and serve as the oracle for "what the core tools refuse".
//
// Input (--graph): the state graph TLC exported for MCG4Action, flattened by checks/c17.py:
//   C <cid> <cat> <nuc> <seed> <mode> <level> <win> <mdl>     configuration classes (cid 0 = reset value, 1 = none)
//   A <aid> <name> <arg1> <arg2> <dfs>                         action instances
//   S <sid> <iface> <changed> <cur> <live> <shots> <vg> <last> <hcfg> <hidx> <hvtx>     (hcfg = -1: nothing handed over)
//   E <src> <aid> <dst>
//   I <sid>
// The specification is followed as a nondeterministic automaton (as in lifecycle_replay.cc): after every real
// call the projection of the real object - ConfigHasChanged(), the class of GetConfiguration(), HasVertexGenerator(),
// refused? (AbortRun called / exception / for ApplyConfiguration: error output), the primaries pushed into the
// G4Event - must equal one of the successor states the model allows.  A successor that hands over decay
// (cfg, idx, vtx) matches iff the recorded primaries are, one per particle and in order, the particles of the
// idx-th event a bxdecay0::decay0_generator configured like cfg yields from a std::default_random_engine seeded
// with cfg's seed (the way the core driver and the action both build their generator): species map, momentum
// (stand-in MeV = 1) and time (stand-in second = 1e9 ns) to 1e-12 relative, every primary at the vertex of vtx.
//
// --grid <table>: the verdict table TLC exported for MCG4Grid (one line per configuration of the full product):
//   G <cat> <nuc> <seed> <mode> <level> <win> <mdl> <verdict> <why>
// every configuration is (i) given to the real core tools (command-line parser -> driver -> run of one event) and
// the verdict compared with the table, (ii) replayed on a fresh action in three fixed scenarios.
#include <algorithm>
#include <chrono>
#include <cstdlib>
#include <functional>
#include <map>
#include <memory>
#include <random>
#include <set>
#include <stdexcept>

#include <bxdecay0/bb_utils.h>
#include <bxdecay0/decay0_generator.h>
#include <bxdecay0/mdl_event_op.h>
#include <bxdecay0/std_random.h>

#include "common/vh.h"

// Geant4 stand-in and the real extension
#include <G4Event.hh>
#include <G4RunManager.hh>
#include <G4SystemOfUnits.hh>
#include <globals.hh>

#include <bxdecay0_g4/primary_generator_action.hh>
#include <bxdecay0_g4/unique_point_vertex_generator.hh>

// real core tools
#include <bxdecay0_clparser.hpp>
#include <bxdecay0_driver.hpp>

using bxdecay0_g4::PrimaryGeneratorAction;
typedef PrimaryGeneratorAction::ConfigurationInterface CI;

// ---------------------------------------------------------------------------------------------------------
// configuration classes and their concrete representatives

struct Cfg
{
  std::string cat, nuc, seed;
  int mode = 0, level = 0;
  std::string win, mdl;
  std::string sig() const
  {
    std::ostringstream s;
    s << cat << '/' << nuc << '/' << seed << "/m" << mode << "/l" << level << "/w:" << win << "/mdl:" << mdl;
    return s.str();
  }
};

static const int SEED_S1 = 314159, SEED_S2 = 42, SEED_NEG = -5, SEED_DFLT = 1;
static const double WIN_OK_LO = 0.5, WIN_OK_HI = 2.0, WIN_INV_LO = 2.0, WIN_INV_HI = 1.0;
static const char * MDL_TARGET    = "e-";
static const int MDL_RANK         = 0;
static const double MDL_LONGITUDE = 30.0, MDL_COLATITUDE = 60.0, MDL_APERTURE = 25.0; // degrees
static const double MDL_APERTURE2 = 8.0; // degrees: second half-angle of the rectangular cut (mdl = "rect")
static const char * BAD_CATEGORY  = "invalid";
static const double P1[3] = {1.0, 2.0, 3.0}, P2[3] = {-4.5, 0.0, 7.25}; // mm

static std::map<std::string, std::string> nuclide_name; // "bkg/pub" -> "Co60" ...; "" value: no representative

// does a background generator for `name` emit a particle of the given species within its first events?
static bool core_emits(const std::string & name, bxdecay0::particle_code code)
{
  try {
    std::default_random_engine gen((unsigned int)SEED_S1); // the stream the grid scenarios will see
    bxdecay0::std_random prng(gen);
    bxdecay0::decay0_generator g;
    g.set_decay_category(bxdecay0::decay0_generator::DECAY_CATEGORY_BACKGROUND);
    g.set_decay_isotope(name);
    g.initialize(prng);
    bxdecay0::event ev;
    for (int i = 0; i < 3; i++) {
      g.shoot(prng, ev);
      for (const auto & p : ev.get_particles())
        if (p.get_code() == code) return true;
    }
  } catch (std::exception &) {
  }
  return false;
}

// "pubz": a published background nuclide and a seed for which the very first decay contains a particle of zero momentum
// (Kr81: capture from a shell whose binding energy is neglected emits a 0 keV X-ray on purpose, 2.6% of the decays)
static int g_seed_pubz = -1;
static bool find_zero_momentum_seed(const std::string & name)
{
  for (int seed = 2; seed < 20000; seed++) {
    try {
      std::default_random_engine gen((unsigned int)seed);
      bxdecay0::std_random prng(gen);
      bxdecay0::decay0_generator g;
      g.set_decay_category(bxdecay0::decay0_generator::DECAY_CATEGORY_BACKGROUND);
      g.set_decay_isotope(name);
      g.initialize(prng);
      bxdecay0::event ev;
      g.shoot(prng, ev);
      for (const auto & p : ev.get_particles())
        if (p.get_px() == 0.0 && p.get_py() == 0.0 && p.get_pz() == 0.0) {
          g_seed_pubz = seed;
          return true;
        }
    } catch (std::exception &) {
      return false;
    }
  }
  return false;
}

static bool core_init_ok(bool dbd, const std::string & name)
{
  try {
    std::default_random_engine gen(1);
    bxdecay0::std_random prng(gen);
    bxdecay0::decay0_generator g;
    g.set_decay_category(dbd ? bxdecay0::decay0_generator::DECAY_CATEGORY_DBD : bxdecay0::decay0_generator::DECAY_CATEGORY_BACKGROUND);
    g.set_decay_isotope(name);
    if (dbd) {
      g.set_decay_dbd_level(0);
      g.set_decay_dbd_mode(bxdecay0::DBDMODE_1);
    }
    g.initialize(prng);
    bxdecay0::event ev;
    g.shoot(prng, ev);
    return !ev.get_particles().empty();
  } catch (std::exception &) {
    return false;
  }
}

// Representatives are looked up in the real catalogues / the real dispatcher, not assumed.
struct Quiet
{
  std::ostringstream sink;
  std::streambuf *oc, *oe, *ol;
  Quiet() : oc(std::cout.rdbuf(sink.rdbuf())), oe(std::cerr.rdbuf(sink.rdbuf())), ol(std::clog.rdbuf(sink.rdbuf())) {}
  ~Quiet()
  {
    std::cout.rdbuf(oc);
    std::cerr.rdbuf(oe);
    std::clog.rdbuf(ol);
  }
};

static void choose_names()
{
  Quiet q;
  const auto & bk = bxdecay0::background_isotopes();
  const auto & db = bxdecay0::dbd_isotopes();
  nuclide_name["bkg/pub"] = bk.count("Co60") && core_init_ok(false, "Co60") ? "Co60" : "";
  nuclide_name["dbd/pub"] = db.count("Mo100") && core_init_ok(true, "Mo100") ? "Mo100" : "";
  // published as background only, with positrons / alphas in the first decays (the species map needs them)
  for (const char * n : {"Na22", "Zn65", "K40"})
    if (bk.count(n) && !db.count(n) && core_emits(n, bxdecay0::POSITRON) && nuclide_name["pubp"].empty()) nuclide_name["pubp"] = n;
  for (const char * n : {"Am241", "Po210", "U238", "Th230"})
    if (bk.count(n) && !db.count(n) && core_emits(n, bxdecay0::ALPHA) && nuclide_name["puba"].empty()) nuclide_name["puba"] = n;
  nuclide_name["pubz"] = (bk.count("Kr81") && !db.count("Kr81") && find_zero_momentum_seed("Kr81")) ? "Kr81" : "";
  // published in BOTH catalogues
  for (const char * n : {"Pb214", "Po218", "Rn222"})
    if (bk.count(n) && db.count(n) && core_init_ok(false, n) && nuclide_name["pubb"].empty()) nuclide_name["pubb"] = n;
  if (nuclide_name["pubb"].empty()) nuclide_name["pubb"] = "";
  if (nuclide_name["pubp"].empty()) nuclide_name["pubp"] = "";
  if (nuclide_name["puba"].empty()) nuclide_name["puba"] = "";
  for (const char * n : {"Xx99", "Qq1"}) {
    if (!bk.count(n) && !core_init_ok(false, n) && nuclide_name["bkg/unk"].empty()) nuclide_name["bkg/unk"] = n;
    if (!db.count(n) && !core_init_ok(true, n) && nuclide_name["dbd/unk"].empty()) nuclide_name["dbd/unk"] = n;
  }
  // names the library's dispatcher serves although the catalogue does not publish them
  for (const char * n : {"Po214", "Co60x", "Co60+", "Bi214", "Cs137"})
    if (!bk.count(n) && core_init_ok(false, n) && nuclide_name["bkg/unpub"].empty()) nuclide_name["bkg/unpub"] = n;
  for (const char * n : {"Mo100x", "Mo100+", "Nd150x", "Te130m"})
    if (!db.count(n) && core_init_ok(true, n) && nuclide_name["dbd/unpub"].empty()) nuclide_name["dbd/unpub"] = n;
  if (nuclide_name["bkg/unpub"].empty()) nuclide_name["bkg/unpub"] = "";
  if (nuclide_name["dbd/unpub"].empty()) nuclide_name["dbd/unpub"] = "";
}

// false when a class has no concrete representative in this tree
static bool concrete_nuclide(const Cfg & c, std::string & name)
{
  if (c.nuc == "empty") {
    name = "";
    return true;
  }
  std::string side = (c.cat == "dbd") ? "dbd" : "bkg"; // "bad"/"none" categories: any name will do
  if (c.nuc == "pubb" && side == "dbd") return false;   // the class is about background requests
  auto it          = (c.nuc == "pubp" || c.nuc == "puba" || c.nuc == "pubz" || c.nuc == "pubb") ? nuclide_name.find(c.nuc) : nuclide_name.find(side + "/" + c.nuc);
  if (it == nuclide_name.end() || it->second.empty()) return false;
  name = it->second;
  return true;
}

static int concrete_seed(const Cfg & c)
{
  if (c.nuc == "pubz" && c.seed == "s1" && g_seed_pubz > 0) return g_seed_pubz;
  return c.seed == "s1" ? SEED_S1 : c.seed == "s2" ? SEED_S2 : c.seed == "zero" ? 0 : c.seed == "neg" ? SEED_NEG : SEED_DFLT;
}

static bool to_interface(const Cfg & c, CI & ci)
{
  ci = CI();
  std::string name;
  if (!concrete_nuclide(c, name)) return false;
  ci.decay_category = c.cat == "bkg" ? "background" : c.cat == "dbd" ? "dbd" : c.cat == "bad" ? BAD_CATEGORY : "";
  ci.nuclide        = name;
  ci.seed           = concrete_seed(c);
  ci.dbd_mode       = c.mode;
  ci.dbd_level      = c.level;
  if (c.win == "ok") {
    ci.dbd_min_energy_MeV = WIN_OK_LO;
    ci.dbd_max_energy_MeV = WIN_OK_HI;
  } else if (c.win == "inv") {
    ci.dbd_min_energy_MeV = WIN_INV_LO;
    ci.dbd_max_energy_MeV = WIN_INV_HI;
  }
  if (c.mdl == "on" || c.mdl == "rect") {
    ci.use_mdl             = true;
    ci.mdl_target_name     = MDL_TARGET;
    ci.mdl_target_rank     = MDL_RANK;
    ci.mdl_cone_longitude  = MDL_LONGITUDE;
    ci.mdl_cone_colatitude = MDL_COLATITUDE;
    ci.mdl_cone_aperture   = MDL_APERTURE;
    if (c.mdl == "rect") ci.mdl_cone_aperture2 = MDL_APERTURE2;
  }
  return true;
}

static bool same_interface(const CI & a, const CI & b)
{
  return a.decay_category == b.decay_category && a.nuclide == b.nuclide && a.seed == b.seed && a.dbd_mode == b.dbd_mode
         && a.dbd_level == b.dbd_level && a.dbd_min_energy_MeV == b.dbd_min_energy_MeV && a.dbd_max_energy_MeV == b.dbd_max_energy_MeV
         && a.debug == b.debug && a.use_mdl == b.use_mdl && a.mdl_target_name == b.mdl_target_name && a.mdl_target_rank == b.mdl_target_rank
         && a.mdl_cone_longitude == b.mdl_cone_longitude && a.mdl_cone_colatitude == b.mdl_cone_colatitude
         && a.mdl_cone_aperture == b.mdl_cone_aperture && a.mdl_cone_aperture2 == b.mdl_cone_aperture2
         && a.mdl_error_on_missing_particle == b.mdl_error_on_missing_particle;
}

// ---------------------------------------------------------------------------------------------------------
// the core API as the oracle for the decays: the idx-th event of a generator configured like c

struct Prim
{
  std::string name;
  double t = 0, px = 0, py = 0, pz = 0; // seconds, MeV
};

struct CoreEvents
{
  bool ok = false;
  std::string error;
  std::vector<std::vector<Prim>> events;
};

static const char * species_name(const bxdecay0::particle & p)
{
  switch (p.get_code()) {
  case bxdecay0::GAMMA:
    return "gamma";
  case bxdecay0::POSITRON:
    return "e+";
  case bxdecay0::ELECTRON:
    return "e-";
  case bxdecay0::ALPHA:
    return "alpha";
  default:
    return "?";
  }
}

static std::map<std::string, CoreEvents> core_cache;
static long n_core_generators = 0;

static const CoreEvents & core_events(const Cfg & c, int upto_idx)
{
  std::string key = c.sig();
  auto it         = core_cache.find(key);
  if (it != core_cache.end() && (!it->second.ok || (int)it->second.events.size() > upto_idx)) return it->second;
  CoreEvents ce;
  std::string name;
  concrete_nuclide(c, name);
  Quiet quiet;
  try {
    // the way bxdecay0::driver::run() (and the action) build their generator
    std::default_random_engine generator((unsigned int)concrete_seed(c));
    bxdecay0::std_random prng(generator);
    bxdecay0::decay0_generator decay0;
    bool dbd = c.cat == "dbd";
    decay0.set_decay_category(dbd ? bxdecay0::decay0_generator::DECAY_CATEGORY_DBD : bxdecay0::decay0_generator::DECAY_CATEGORY_BACKGROUND);
    decay0.set_decay_isotope(name);
    if (dbd) {
      decay0.set_decay_dbd_level(c.level);
      decay0.set_decay_dbd_mode((bxdecay0::dbd_mode_type)c.mode);
      if (c.win == "ok") decay0.set_decay_dbd_esum_range(WIN_OK_LO, WIN_OK_HI);
      if (c.win == "inv") decay0.set_decay_dbd_esum_range(WIN_INV_LO, WIN_INV_HI);
    }
    if (c.mdl == "on" || c.mdl == "rect") {
      auto op = std::make_shared<bxdecay0::momentum_direction_lock_event_op>(false);
      bxdecay0::momentum_direction_lock_event_op::config_type mc;
      mc.particle_label       = MDL_TARGET;
      mc.target_particle_rank = MDL_RANK;
      mc.cone_phi_degree      = MDL_LONGITUDE;
      mc.cone_theta_degree    = MDL_COLATITUDE;
      mc.cone_aperture_degree = MDL_APERTURE;
      if (c.mdl == "rect") mc.cone_aperture2_degree = MDL_APERTURE2;
      op->set(mc);
      decay0.add_operation(op);
    }
    decay0.initialize(prng);
    n_core_generators++;
    int n = std::max(upto_idx + 1, 4);
    bxdecay0::event ev;
    for (int i = 0; i < n; i++) {
      decay0.shoot(prng, ev);
      std::vector<Prim> pl;
      for (const auto & p : ev.get_particles()) {
        Prim q;
        q.name = species_name(p);
        q.t    = p.get_time();
        q.px   = p.get_px();
        q.py   = p.get_py();
        q.pz   = p.get_pz();
        pl.push_back(q);
      }
      ce.events.push_back(pl);
    }
    ce.ok = true;
  } catch (std::exception & e) {
    ce.ok    = false;
    ce.error = e.what();
  }
  core_cache[key] = ce;
  return core_cache[key];
}

// ---------------------------------------------------------------------------------------------------------
// what the real class pushed into the (stand-in) G4Event

struct RecPrim
{
  std::string name;
  int nprim_in_vertex = 0;
  double t_ns = 0;
  double mom[3] = {0, 0, 0};   // as handed to the gun
  double rmom[3] = {0, 0, 0};  // reconstructed from kinetic energy and direction, as Geant4 would track it
  double pos[3] = {0, 0, 0};
  double charge = 0, def_charge = 0;
};

static std::vector<RecPrim> record(const G4Event & ev)
{
  std::vector<RecPrim> out;
  for (int i = 0; i < ev.GetNumberOfPrimaryVertex(); i++) {
    const G4PrimaryVertex * v = ev.GetPrimaryVertex(i);
    for (int j = 0; j < v->GetNumberOfParticle(); j++) {
      const G4PrimaryParticle * p = v->GetPrimary(j);
      RecPrim r;
      r.name            = p->GetG4code()->GetParticleName();
      r.nprim_in_vertex = v->GetNumberOfParticle();
      r.t_ns            = v->GetT0();
      r.mom[0]          = p->stub_momentum_as_given.x();
      r.mom[1]          = p->stub_momentum_as_given.y();
      r.mom[2]          = p->stub_momentum_as_given.z();
      G4ThreeVector rm  = p->GetMomentum();
      r.rmom[0]         = rm.x();
      r.rmom[1]         = rm.y();
      r.rmom[2]         = rm.z();
      r.pos[0]          = v->GetX0();
      r.pos[1]          = v->GetY0();
      r.pos[2]          = v->GetZ0();
      r.charge          = p->GetCharge();
      r.def_charge      = p->GetG4code()->GetPDGCharge();
      out.push_back(r);
    }
  }
  return out;
}

static bool close_rel(double a, double b, double scale, double rel)
{
  return std::fabs(a - b) <= rel * std::max(std::fabs(scale), 1e-300);
}

// vertex source of the harness: the k-th vertex it shoots is (k, 2k, -k/2) mm
struct SeqLog
{
  long calls = 0;
  double last[3] = {0, 0, 0};
};
static SeqLog seqlog;
struct SeqVertexGenerator : public bxdecay0_g4::VertexGeneratorInterface
{
  void ShootVertex(G4ThreeVector & vertex_) override
  {
    seqlog.calls++;
    double k       = (double)seqlog.calls;
    seqlog.last[0] = k * CLHEP::mm;
    seqlog.last[1] = 2 * k * CLHEP::mm;
    seqlog.last[2] = -0.5 * k * CLHEP::mm;
    vertex_.set(seqlog.last[0], seqlog.last[1], seqlog.last[2]);
  }
};

// "" when the recorded primaries are the hand-over of event `want` at vertex source vtx; otherwise what differs
static std::string compare_handover(const std::vector<RecPrim> & rec, const std::vector<Prim> & want, const std::string & vtx,
                                    long seq_calls_in_this_call, std::string & detail)
{
  std::ostringstream d;
  d.precision(17);
  if (rec.size() != want.size()) {
    d << rec.size() << " primaries for " << want.size() << " particles";
    detail = d.str();
    return "count";
  }
  for (size_t i = 0; i < rec.size(); i++)
    if (rec[i].nprim_in_vertex != 1) {
      d << "vertex " << i << " holds " << rec[i].nprim_in_vertex << " primaries";
      detail = d.str();
      return "count";
    }
  bool species_ok = true;
  for (size_t i = 0; i < rec.size(); i++)
    if (rec[i].name != want[i].name) species_ok = false;
  if (!species_ok) {
    std::vector<std::string> a, b;
    for (auto & r : rec) a.push_back(r.name);
    for (auto & w : want) b.push_back(w.name);
    d << "species handed over:";
    for (auto & s : a) d << ' ' << s;
    d << " ; particles of the decay:";
    for (auto & s : b) d << ' ' << s;
    detail = d.str();
    std::sort(a.begin(), a.end());
    std::sort(b.begin(), b.end());
    return a == b ? "order" : "species";
  }
  for (size_t i = 0; i < rec.size(); i++) {
    const RecPrim & r = rec[i];
    const Prim & w    = want[i];
    double pw         = std::sqrt(w.px * w.px + w.py * w.py + w.pz * w.pz);
    double got[3]     = {r.mom[0] / CLHEP::MeV, r.mom[1] / CLHEP::MeV, r.mom[2] / CLHEP::MeV};
    double exp[3]     = {w.px, w.py, w.pz};
    for (int k = 0; k < 3; k++)
      if (!close_rel(got[k], exp[k], pw, 1e-12)) {
        // is it the right vector of another particle of the same decay?  then it is an ordering problem
        for (size_t j = 0; j < want.size(); j++)
          if (j != i && close_rel(got[0], want[j].px, pw, 1e-12) && close_rel(got[1], want[j].py, pw, 1e-12)
              && close_rel(got[2], want[j].pz, pw, 1e-12)) {
            d << "primary " << i << " carries the momentum of particle " << j;
            detail = d.str();
            return "order";
          }
        d << "primary " << i << " (" << r.name << ") momentum[" << k << "] = " << got[k] << " MeV, particle has " << exp[k] << " MeV";
        if (exp[k] != 0.0) d << " (ratio " << got[k] / exp[k] << ")";
        detail = d.str();
        return "momentum";
      }
    double rgot[3] = {r.rmom[0] / CLHEP::MeV, r.rmom[1] / CLHEP::MeV, r.rmom[2] / CLHEP::MeV};
    for (int k = 0; k < 3; k++)
      if (!close_rel(rgot[k], exp[k], pw, 1e-6)) {
        d << "primary " << i << " (" << r.name << "): kinetic energy x direction give momentum[" << k << "] = " << rgot[k]
          << " MeV, particle has " << exp[k] << " MeV";
        detail = d.str();
        return "momentum";
      }
    if (r.charge != r.def_charge) {
      d << "primary " << i << " (" << r.name << ") charge " << r.charge << " differs from its species' " << r.def_charge;
      detail = d.str();
      return "species";
    }
    double t_s = r.t_ns / CLHEP::second;
    if (!close_rel(t_s, w.t, w.t, 1e-12)) {
      d << "primary " << i << " (" << r.name << ") time = " << t_s << " s, particle has " << w.t << " s";
      if (w.t != 0.0) d << " (ratio " << t_s / w.t << ")";
      detail = d.str();
      return "time";
    }
  }
  double vx[3] = {0, 0, 0};
  if (vtx == "p1")
    for (int k = 0; k < 3; k++) vx[k] = P1[k] * CLHEP::mm;
  if (vtx == "p2")
    for (int k = 0; k < 3; k++) vx[k] = P2[k] * CLHEP::mm;
  if (vtx == "seq") {
    if (seq_calls_in_this_call != 1) {
      d << "the vertex generator was asked for " << seq_calls_in_this_call << " vertices for one decay";
      detail = d.str();
      return "vertex";
    }
    for (int k = 0; k < 3; k++) vx[k] = seqlog.last[k];
  }
  for (size_t i = 0; i < rec.size(); i++)
    for (int k = 0; k < 3; k++)
      if (rec[i].pos[k] != vx[k]) {
        d << "primary " << i << " at (" << rec[i].pos[0] << "," << rec[i].pos[1] << "," << rec[i].pos[2] << ") mm, vertex source '" << vtx
          << "' gives (" << vx[0] << "," << vx[1] << "," << vx[2] << ")";
        detail = d.str();
        return "vertex";
      }
  return "";
}

// ---------------------------------------------------------------------------------------------------------
// one call on the real object, observed

struct Obs
{
  bool refused = false;
  int aborts = 0;
  bool threw = false;
  bool errout = false;
  std::string exc;
  std::vector<RecPrim> rec;
  long seq_calls = 0;
};

static bool has_error_text(const std::string & s)
{
  std::string l = s;
  std::transform(l.begin(), l.end(), l.begin(), [](unsigned char ch) { return (char)std::tolower(ch); });
  return l.find("error") != std::string::npos;
}

static Obs observed_call(const std::function<void(G4Event &)> & f, bool error_output_counts)
{
  Obs o;
  int ab0    = g4stub::log().aborts;
  long sq0   = seqlog.calls;
  std::ostringstream cap, capout;
  std::streambuf * old    = std::cerr.rdbuf(cap.rdbuf());
  std::streambuf * oldout = std::cout.rdbuf(capout.rdbuf());
  {
    G4Event ev;
    try {
      f(ev);
    } catch (std::exception & e) {
      o.threw = true;
      o.exc   = e.what();
    }
    o.rec = record(ev);
  }
  std::cerr.rdbuf(old);
  std::cout.rdbuf(oldout);
  o.aborts    = g4stub::log().aborts - ab0;
  o.errout    = has_error_text(cap.str());
  o.seq_calls = seqlog.calls - sq0;
  o.refused   = o.aborts > 0 || o.threw || (error_output_counts && o.errout);
  return o;
}

static std::string how_refused(const Obs & o)
{
  std::string s;
  if (o.aborts) s += "AbortRun ";
  if (o.threw) s += "exception(" + o.exc + ") ";
  if (o.errout) s += "error-output ";
  return s.empty() ? "not refused" : s;
}

// ---------------------------------------------------------------------------------------------------------
// model graph

struct AState
{
  int iface = 0, changed = 0, cur = 0, live = 0, shots = 0;
  std::string vg, last;
  int hcfg = -1, hidx = 0;
  std::string hvtx;
};
struct Action
{
  std::string name, a1, a2;
  int dfs = 1;
};

static std::vector<Cfg> cfgs; // by cid
static std::vector<CI> cfg_ci;
static std::vector<char> cfg_ok; // has a concrete representative
static std::vector<Action> actions;
static std::vector<AState> states;
static std::vector<std::map<int, std::vector<int>>> succ;
static int init_sid = -1;

struct Viol
{
  std::string key, what, seq;
};
static std::vector<Viol> viols;
static std::set<std::string> viol_keys;
static long n_seq = 0, n_steps = 0, n_generate = 0, n_handovers = 0, n_primaries = 0, n_refusals = 0, n_refused_abort = 0,
            n_refused_exc = 0, n_refused_err = 0, n_nondet = 0, n_skipped_norep = 0, n_nontrivial = 0, n_cover_blocked = 0;
static std::set<int> visited;
static std::set<std::pair<int, int>> edges_taken;
static std::map<std::string, long> species_compared;
static std::vector<std::string> samples;
static std::set<std::string> sample_keys;

static std::string act_str(int aid)
{
  const Action & a = actions[aid];
  if (a.name == "SetConfiguration") return "SetConfiguration(" + cfgs[std::atoi(a.a1.c_str())].sig() + ")";
  if (a.name == "SetVertexGenerator") return "SetVertexGenerator(" + a.a1 + "," + (a.a2 == "1" ? "owned" : "ref") + ")";
  return a.name;
}

static std::string seq_tail(const std::vector<int> & seq, size_t upto, size_t n = 5)
{
  std::ostringstream s;
  size_t from = upto + 1 > n ? upto + 1 - n : 0;
  if (from > 0) s << "... ; ";
  for (size_t i = from; i <= upto && i < seq.size(); i++) {
    if (i > from) s << " ; ";
    s << act_str(seq[i]);
  }
  return s.str();
}
static std::string seq_ids(const std::vector<int> & seq, size_t upto)
{
  std::ostringstream s;
  for (size_t i = 0; i <= upto && i < seq.size(); i++) s << (i ? " " : "") << seq[i];
  return s.str();
}

static void report(const std::string & key, const std::string & what, const std::string & seq)
{
  if (viol_keys.insert(key).second) viols.push_back({key, what, seq});
}

static std::string why_class(const std::string & why)
{
  size_t p = why.find(':');
  return p == std::string::npos ? why : why.substr(0, p);
}

static int classify_iface(const CI & ci)
{
  for (size_t i = 0; i < cfgs.size(); i++) {
    if (i == 1 || !cfg_ok[i]) continue; // cid 1 = "no configuration" is not an interface value
    if (same_interface(ci, cfg_ci[i])) return (int)i;
  }
  return -1;
}

struct Runner
{
  std::unique_ptr<PrimaryGeneratorAction> act;
  std::vector<std::unique_ptr<bxdecay0_g4::VertexGeneratorInterface>> kept; // generators installed by reference
  std::vector<int> cur;
  std::vector<int> seq;
  bool dead = false;
  bool nontrivial = false;
  Runner() : act(new PrimaryGeneratorAction(0)), cur{init_sid} { n_seq++; }
  ~Runner()
  {
    if (nontrivial) n_nontrivial++;
    act.reset(); // the action first (it deletes the generators it owns), then the ones installed by reference
    kept.clear();
  }

  bxdecay0_g4::VertexGeneratorInterface * make_vg(const std::string & v)
  {
    if (v == "p1") return new bxdecay0_g4::UniquePointVertexGenerator(G4ThreeVector(P1[0] * CLHEP::mm, P1[1] * CLHEP::mm, P1[2] * CLHEP::mm));
    if (v == "p2") {
      auto * g = new bxdecay0_g4::UniquePointVertexGenerator();
      g->SetSourcePosition(G4ThreeVector(P2[0] * CLHEP::mm, P2[1] * CLHEP::mm, P2[2] * CLHEP::mm));
      return g;
    }
    if (v == "seq") return new SeqVertexGenerator();
    return nullptr;
  }

  bool step(int aid)
  {
    if (dead) return false;
    const Action & a = actions[aid];
    std::vector<int> cand;
    for (int s : cur) {
      auto it = succ[s].find(aid);
      // the only disabled calls are those beyond the model bound (MaxShots): if one of the states the object may be
      // in is at the bound, the call is outside the bounded model and the sequence ends here
      if (it == succ[s].end()) return false;
      cand.insert(cand.end(), it->second.begin(), it->second.end());
    }
    if (cand.empty()) return false;
    if (a.name == "SetConfiguration" && !cfg_ok[std::atoi(a.a1.c_str())]) {
      n_skipped_norep++;
      return false;
    }
    seq.push_back(aid);
    size_t i = seq.size() - 1;
    Obs o;
    if (a.name == "SetConfiguration") {
      const CI & ci = cfg_ci[std::atoi(a.a1.c_str())];
      o             = observed_call([&](G4Event &) { act->SetConfiguration(ci); }, false);
    } else if (a.name == "ApplyConfiguration") {
      o = observed_call([&](G4Event &) { act->ApplyConfiguration(); }, true);
    } else if (a.name == "DestroyConfiguration") {
      o = observed_call([&](G4Event &) { act->DestroyConfiguration(); }, false);
    } else if (a.name == "GeneratePrimaries") {
      o = observed_call([&](G4Event & ev) { act->GeneratePrimaries(&ev); }, false);
      n_generate++;
    } else if (a.name == "TouchGun") {
      o = observed_call([&](G4Event &) { act->GetParticleGun()->SetNumberOfParticles(2); }, false);
    } else if (a.name == "SetVertexGenerator") {
      bxdecay0_g4::VertexGeneratorInterface * g = make_vg(a.a1);
      if (a.a2 == "1") {
        o = observed_call([&](G4Event &) { act->SetVertexGenerator(g); }, false);
      } else {
        kept.emplace_back(g);
        o = observed_call([&](G4Event &) { act->SetVertexGenerator(*g); }, false);
      }
    } else {
      std::cerr << "unknown action " << a.name << std::endl;
      std::exit(2);
    }
    n_steps++;
    if (o.refused) {
      n_refusals++;
      if (o.aborts) n_refused_abort++;
      else if (o.threw) n_refused_exc++;
      else n_refused_err++;
    }
    // projection
    bool p_changed = act->ConfigHasChanged();
    int p_iface    = classify_iface(act->GetConfiguration());
    bool p_hasvg   = act->HasVertexGenerator();

    std::sort(cand.begin(), cand.end());
    cand.erase(std::unique(cand.begin(), cand.end()), cand.end());
    std::vector<int> next;
    std::string first_handover_diff, first_detail;
    int stage_reached = 0; // how far the best candidate got: 1 verdict, 2 flag, 3 iface, 4 vertexgen, 5 handover
    for (int d : cand) {
      const AState & e = states[d];
      bool e_refused   = e.last != "ok";
      if (e_refused != o.refused) continue;
      stage_reached = std::max(stage_reached, 1);
      if ((e.changed != 0) != p_changed) continue;
      stage_reached = std::max(stage_reached, 2);
      if (e.iface != p_iface) continue;
      stage_reached = std::max(stage_reached, 3);
      if ((e.vg != "none") != p_hasvg) continue;
      stage_reached = std::max(stage_reached, 4);
      if (!o.refused) { // what a refused call leaves in the event is nobody's business
        if (e.hcfg < 0) {
          if (!o.rec.empty()) {
            if (first_handover_diff.empty()) {
              first_handover_diff = "unexpected";
              first_detail        = std::to_string(o.rec.size()) + " primaries handed over by a call that generates no decay";
            }
            continue;
          }
        } else {
          const CoreEvents & ce = core_events(cfgs[e.hcfg], e.hidx);
          if (!ce.ok) {
            if (first_handover_diff.empty()) {
              first_handover_diff = "core-refuses";
              first_detail = "the core API refuses configuration " + cfgs[e.hcfg].sig() + " (" + ce.error + ") that the model serves";
            }
            continue;
          }
          std::string detail;
          std::string diff = compare_handover(o.rec, ce.events[e.hidx], e.hvtx, o.seq_calls, detail);
          if (!diff.empty()) {
            if (first_handover_diff.empty()) {
              // is it another decay of the stream (generator not restarted / restarted when it should not)?
              for (int j = 0; j < (int)ce.events.size(); j++) {
                std::string d2;
                if (j != e.hidx && compare_handover(o.rec, ce.events[j], e.hvtx, o.seq_calls, d2).empty()) {
                  diff   = "wrong-event";
                  detail = "handed over decay #" + std::to_string(j) + " of the stream where #" + std::to_string(e.hidx) + " is due";
                }
              }
              first_handover_diff = diff;
              first_detail        = detail + " [expected decay #" + std::to_string(e.hidx) + " of " + cfgs[e.hcfg].sig() + "]";
            }
            continue;
          }
        }
      }
      next.push_back(d);
    }
    if (next.empty()) {
      const AState & pre = states[cur[0]];
      const AState & e   = states[cand[0]];
      std::string key, what;
      std::string evaluated = (a.name == "ApplyConfiguration" || pre.changed) ? cfgs[pre.iface].sig() : cfgs[pre.cur].sig();
      // a changed configuration that was neither applied nor refused: the request was served from the configuration
      // the private driver held before (its live generator's next decay, or a re-instantiation of it)
      bool bypass = false;
      std::string stale;
      if (a.name == "GeneratePrimaries" && !o.refused && !o.rec.empty())
        for (int s : cur) {
          const AState & ps = states[s];
          if (!ps.changed || ps.cur <= 1 || !cfg_ok[ps.cur] || ps.cur == ps.iface) continue;
          int idx               = ps.live ? ps.shots : 0;
          const CoreEvents & ce = core_events(cfgs[ps.cur], idx);
          std::string d2;
          if (ce.ok && compare_handover(o.rec, ce.events[idx], ps.vg, o.seq_calls, d2).empty()) {
            bypass = true;
            stale  = "decay #" + std::to_string(idx) + " of " + cfgs[ps.cur].sig();
          }
        }
      if (bypass) {
        std::string why = "ok";
        for (int d : cand)
          if (states[d].last != "ok") why = states[d].last;
        key  = "bypass:GeneratePrimaries";
        what = "GeneratePrimaries neither applies nor refuses the changed configuration " + evaluated + " (core tools: " + why
               + "): no AbortRun, no exception, ConfigHasChanged() stays " + (p_changed ? "true" : "false") + ", and the primaries of " + stale
               + " (the previous configuration) are handed over";
      } else if (stage_reached == 0) {
        if (!o.refused) {
          std::string why = "ok";
          for (int d : cand)
            if (states[d].last != "ok" && (why == "ok" || why == "no-configuration")) why = states[d].last;
          key  = "verdict:" + a.name + ":not-refused:" + why_class(why);
          what = a.name + " does not refuse configuration " + evaluated + " which the core tools refuse (" + why + "): no AbortRun, no exception"
                 + (a.name == "ApplyConfiguration" ? ", no error output" : "") + "; " + std::to_string(o.rec.size()) + " primaries handed over";
        } else {
          key  = "verdict:" + a.name + ":refused-but-core-accepts:" + evaluated.substr(0, evaluated.find('/'));
          what = a.name + " refuses (" + how_refused(o) + ") configuration " + evaluated + " which the core tools accept";
        }
      } else if (stage_reached == 1) {
        key  = "flag:" + a.name + ":changed=" + (p_changed ? "1" : "0");
        what = "ConfigHasChanged() = " + std::string(p_changed ? "true" : "false") + " after " + a.name + ", model allows " + (e.changed ? "true" : "false");
      } else if (stage_reached == 2) {
        key  = "iface:" + a.name;
        what = "GetConfiguration() after " + a.name + " is " + (p_iface >= 0 ? cfgs[p_iface].sig() : std::string("none of the known classes"))
               + ", model has " + cfgs[e.iface].sig();
      } else if (stage_reached == 3) {
        key  = "vertexgen:" + a.name;
        what = "HasVertexGenerator() = " + std::string(p_hasvg ? "true" : "false") + " after " + a.name + ", model has vertex source '" + e.vg + "'";
      } else {
        key  = "handover:" + first_handover_diff;
        what = a.name + ": " + first_detail;
      }
      report(key, what + " ; calls: " + seq_tail(seq, i), seq_ids(seq, i));
      dead = true;
      return true;
    }
    if (!o.refused && !o.rec.empty()) {
      n_handovers++;
      n_primaries += (long)o.rec.size();
      for (auto & r : o.rec) species_compared[r.name]++;
      nontrivial = true;
      std::string skey = std::to_string(states[next[0]].hcfg) + "/" + states[next[0]].hvtx + "/" + std::to_string(states[next[0]].hidx > 0);
      if (samples.size() < 8 && sample_keys.insert(skey).second) {
        std::ostringstream s;
        s.precision(9);
        s << seq_tail(seq, i) << " => " << o.rec.size() << " primaries:";
        for (auto & r : o.rec) s << " [" << r.name << " t=" << r.t_ns / CLHEP::second << "s p=(" << r.mom[0] << "," << r.mom[1] << "," << r.mom[2] << ")MeV]";
        samples.push_back(s.str());
      }
    }
    if (o.refused) nontrivial = true;
    if (cand.size() > 1) n_nondet++;
    for (int s : cur)
      for (int d : next) edges_taken.insert({s * 64 + aid, d});
    for (int d : next) visited.insert(d);
    cur = next;
    return true;
  }
};

static size_t run_sequence(const std::vector<int> & seq)
{
  Runner r;
  for (size_t i = 0; i < seq.size(); i++)
    if (!r.step(seq[i])) return i;
  return seq.size();
}

static std::vector<int> model_step(const std::vector<int> & cur, int a)
{
  std::vector<int> nxt;
  for (int s : cur) {
    auto it = succ[s].find(a);
    if (it == succ[s].end()) return std::vector<int>(); // beyond the model bound in one of the possible states
    nxt.insert(nxt.end(), it->second.begin(), it->second.end());
  }
  std::sort(nxt.begin(), nxt.end());
  nxt.erase(std::unique(nxt.begin(), nxt.end()), nxt.end());
  return nxt;
}

static std::chrono::steady_clock::time_point deadline;
static bool timed_out = false;

// Online cover: walk the model on live objects until every (state, action instance) pair the implementation can
// reach has been executed.  The model is nondeterministic (named deviations): a model edge the real object does not
// take is remembered and not planned through again, so the walk does not insist on unreachable model states.
static long cover_total = 0, cover_unrealised_edges = 0;
static std::mt19937_64 cover_rng(20240917);
static long cover(size_t maxlen, bool & complete)
{
  std::set<std::pair<int, int>> todo;
  auto usable = [](int aid) {
    const Action & a = actions[aid];
    return !(a.name == "SetConfiguration" && !cfg_ok[std::atoi(a.a1.c_str())]);
  };
  {
    std::vector<int> stack{init_sid};
    std::set<int> seen{init_sid};
    while (!stack.empty()) {
      int u = stack.back();
      stack.pop_back();
      for (auto & kv : succ[u]) {
        if (!usable(kv.first)) continue;
        todo.insert({u, kv.first});
        for (int d : kv.second)
          if (seen.insert(d).second) stack.push_back(d);
      }
    }
  }
  cover_total = (long)todo.size();
  std::vector<int> remaining(states.size(), 0);
  for (auto & pr : todo) remaining[pr.first]++;
  complete = true;
  std::set<std::pair<int, int>> poisoned;            // pairs on which the real object left the model
  std::set<std::pair<std::pair<int, int>, int>> dud; // model edges ((state, action), dst) the real object did not take
  std::vector<int> pred_s(states.size(), -1), pred_a(states.size(), -1), stamp(states.size(), 0);
  int epoch = 0, idle_runs = 0;
  long executed = 0;
  while (!todo.empty()) {
    if (std::chrono::steady_clock::now() > deadline) {
      complete = false;
      break;
    }
    Runner r;
    size_t before = todo.size();
    std::vector<std::pair<int, int>> plan; // (action, expected destination or -1), last element first
    bool nothing_reachable = false;
    int wander = 0;
    while (r.seq.size() < maxlen && !r.dead && !todo.empty()) {
      if (plan.empty())
        for (int s : r.cur) {
          if (remaining[s] <= 0) continue;
          for (auto & kv : succ[s])
            if (todo.count({s, kv.first})) {
              plan.push_back({kv.first, -1});
              break;
            }
          if (!plan.empty()) break;
        }
      if (plan.empty()) {
        epoch++;
        std::vector<int> q(r.cur.begin(), r.cur.end());
        for (int s : q) {
          stamp[s]  = epoch;
          pred_s[s] = -1;
        }
        int target = -1;
        for (size_t qi = 0; qi < q.size() && target < 0; qi++) {
          int u = q[qi];
          for (auto & kv : succ[u]) {
            if (!usable(kv.first) || poisoned.count({u, kv.first})) continue;
            for (int d : kv.second) {
              if (stamp[d] == epoch || dud.count({{u, kv.first}, d})) continue;
              stamp[d]  = epoch;
              pred_s[d] = u;
              pred_a[d] = kv.first;
              q.push_back(d);
              if (remaining[d] > 0) {
                target = d;
                break;
              }
            }
            if (target >= 0) break;
          }
        }
        if (target < 0) {
          nothing_reachable = true;
          break;
        }
        for (int u = target; pred_s[u] >= 0; u = pred_s[u]) plan.push_back({pred_a[u], u});
        if (wander > 0) { // the last plan went astray: take a few random enabled calls before planning again
          plan.clear();
          std::vector<int> en;
          for (auto & kv : succ[r.cur[0]])
            if (usable(kv.first)) en.push_back(kv.first);
          plan.push_back({en[cover_rng() % en.size()], -1});
          wander--;
        }
      }
      int pick   = plan.back().first;
      int expect = plan.back().second;
      plan.pop_back();
      std::vector<int> pre = r.cur;
      bool done           = r.step(pick);
      for (int c : pre)
        if (todo.erase({c, pick})) {
          remaining[c]--;
          if (done) executed++;
        }
      if (!done) break;
      if (r.dead) {
        for (int c : pre) poisoned.insert({c, pick});
        n_cover_blocked += (long)pre.size();
        break;
      }
      if (expect >= 0 && std::find(r.cur.begin(), r.cur.end(), expect) == r.cur.end()) {
        for (int c : pre)
          if (dud.insert({{c, pick}, expect}).second) cover_unrealised_edges++;
        plan.clear();
        wander = 3;
      } else if (r.cur.size() != 1 || r.cur[0] != expect) {
        plan.clear();
      }
    }
    if (nothing_reachable && r.seq.empty()) break; // what is left lies behind model branches the implementation never takes
    if (todo.size() == before && !nothing_reachable) {
      if (++idle_runs > 60) break;
    } else {
      idle_runs = 0;
    }
  }
  complete = todo.empty();
  return executed;
}

// All maximal sequences of model-enabled action instances (those flagged for the enumeration) up to the depth.
static void dfs(std::vector<int> & seq, std::vector<std::vector<int>> & cur, int depth, int shard, int nshards)
{
  if (timed_out) return;
  bool extended = false;
  if ((int)seq.size() < depth) {
    for (int a = 0; a < (int)actions.size(); a++) {
      if (!actions[a].dfs) continue;
      if (actions[a].name == "SetConfiguration" && !cfg_ok[std::atoi(actions[a].a1.c_str())]) continue;
      if (seq.size() == 1 && nshards > 1 && ((seq[0] * (int)actions.size() + a) % nshards) != shard) continue;
      std::vector<int> nxt = model_step(cur.back(), a);
      if (nxt.empty()) continue;
      extended = true;
      seq.push_back(a);
      cur.push_back(nxt);
      dfs(seq, cur, depth, shard, nshards);
      cur.pop_back();
      seq.pop_back();
      if (timed_out) return;
    }
  }
  if (!extended && !seq.empty()) {
    if (seq.size() == 1 && nshards > 1 && shard != 0) return;
    run_sequence(seq);
    if ((n_seq & 255) == 0 && std::chrono::steady_clock::now() > deadline) timed_out = true;
  }
}

// ---------------------------------------------------------------------------------------------------------
// the real core tools as the oracle for the verdict: bxdecay0-run's main(), minus the process

static std::string g_workdir = ".";
static std::map<std::string, std::pair<bool, std::string>> oracle_cache;
static long n_oracle_runs = 0;

static std::pair<bool, std::string> core_tools_verdict(const Cfg & c, std::string & cmdline)
{
  std::vector<std::string> args{"bxdecay0-run"};
  std::string name;
  concrete_nuclide(c, name);
  args.push_back("-s");
  args.push_back(std::to_string(concrete_seed(c)));
  args.push_back("-n");
  args.push_back("1");
  if (c.cat != "none") {
    args.push_back("-c");
    args.push_back(c.cat == "bkg" ? "background" : c.cat == "dbd" ? "dbd" : BAD_CATEGORY);
  }
  args.push_back("-N");
  args.push_back(name);
  if (c.cat != "bkg") { // a background request carries no level / mode / window
    args.push_back("-l");
    args.push_back(std::to_string(c.level));
    args.push_back("-m");
    args.push_back(std::to_string(c.mode));
    if (c.win != "none") {
      args.push_back("-e");
      args.push_back(std::to_string(c.win == "ok" ? WIN_OK_LO : WIN_INV_LO));
      args.push_back("-E");
      args.push_back(std::to_string(c.win == "ok" ? WIN_OK_HI : WIN_INV_HI));
    }
  }
  if (c.mdl == "on" || c.mdl == "rect") { // the command line has no option for the second half-angle: same verdict
    args.push_back("--pgop-mdl-particle");
    args.push_back(MDL_TARGET);
    args.push_back("--pgop-mdl-rank");
    args.push_back(std::to_string(MDL_RANK));
    args.push_back("--pgop-mdl-cone-phi");
    args.push_back(std::to_string(MDL_LONGITUDE));
    args.push_back("--pgop-mdl-cone-theta");
    args.push_back(std::to_string(MDL_COLATITUDE));
    args.push_back("--pgop-mdl-cone-aperture");
    args.push_back(std::to_string(MDL_APERTURE));
  }
  args.push_back(g_workdir + "/oracle");
  cmdline.clear();
  for (auto & s : args) cmdline += (cmdline.empty() ? "" : " ") + (s.empty() ? std::string("''") : s);
  auto it = oracle_cache.find(cmdline);
  if (it != oracle_cache.end()) return it->second;
  std::vector<char *> argv;
  for (auto & s : args) argv.push_back(const_cast<char *>(s.c_str()));
  std::pair<bool, std::string> res{false, ""};
  Quiet quiet;
  try {
    bxdecay0::driver::config_type driverConfig;
    bxdecay0::cl_parser clParser((int)argv.size(), argv.data());
    auto parse_status = clParser.parse(driverConfig);
    if (parse_status == bxdecay0::cl_parser::PS_OK) {
      bxdecay0::driver driver(driverConfig);
      driver.run();
      res.first = true;
    } else {
      res.second = "command line refused";
    }
  } catch (std::exception & error) {
    res.second = error.what();
  }
  n_oracle_runs++;
  oracle_cache[cmdline] = res;
  return res;
}

struct GridRow
{
  Cfg c;
  std::string verdict, why;
};

static long n_grid = 0, n_grid_norep = 0, n_grid_scen = 0, n_deferred = 0;
static std::vector<std::string> oracle_disagreements;
static std::map<std::string, long> refusal_channels; // why-class -> how the action refused at the applying call

static Cfg g_valid_bkg_cfg;

static void grid_generate_check(PrimaryGeneratorAction & act, const GridRow & g, int idx, const std::string & scen, const Obs & o)
{
  std::string ctx = "scenario " + scen + ", configuration " + g.c.sig();
  if (scen == "C" && !o.refused && !o.rec.empty() && g.c.sig() != g_valid_bkg_cfg.sig()) {
    // served from the previous generator (its decay #1) although a new configuration was submitted?
    const CoreEvents & pe = core_events(g_valid_bkg_cfg, 1);
    std::string d2;
    if (pe.ok && compare_handover(o.rec, pe.events[1], "none", 0, d2).empty()) {
      report("bypass:GeneratePrimaries",
             "GeneratePrimaries neither applies nor refuses the changed configuration " + g.c.sig() + " (core tools: " + g.why
               + "): no AbortRun, no exception, ConfigHasChanged() stays " + (act.ConfigHasChanged() ? "true" : "false")
               + ", and the primaries of decay #1 of " + g_valid_bkg_cfg.sig() + " (the previous configuration) are handed over",
             "grid " + scen + " " + g.c.sig());
      return;
    }
  }
  if (o.refused) {
    n_refusals++;
    if (g.verdict == "accept")
      report("verdict:GeneratePrimaries:refused-but-core-accepts:" + g.c.cat,
             "GeneratePrimaries refuses (" + how_refused(o) + ") a configuration the core tools accept; " + ctx, "grid " + scen + " " + g.c.sig());
    return;
  }
  if (g.verdict == "refuse") {
    report("verdict:GeneratePrimaries:not-refused:" + why_class(g.why),
           "GeneratePrimaries does not refuse a configuration which the core tools refuse (" + g.why + "): no AbortRun, no exception; "
             + std::to_string(o.rec.size()) + " primaries handed over; " + ctx,
           "grid " + scen + " " + g.c.sig());
    return;
  }
  if (act.ConfigHasChanged()) {
    report("flag:GeneratePrimaries:changed=1", "ConfigHasChanged() still true after an accepted GeneratePrimaries; " + ctx, "grid " + scen + " " + g.c.sig());
  }
  const CoreEvents & ce = core_events(g.c, idx);
  if (!ce.ok) {
    report("handover:core-refuses", "the core API refuses (" + ce.error + ") a configuration the action serves; " + ctx, "grid " + scen + " " + g.c.sig());
    return;
  }
  std::string detail;
  std::string diff = compare_handover(o.rec, ce.events[idx], "none", 0, detail);
  if (!diff.empty()) {
    for (int j = 0; j < (int)ce.events.size(); j++) {
      std::string d2;
      if (j != idx && compare_handover(o.rec, ce.events[j], "none", 0, d2).empty()) {
        diff   = "wrong-event";
        detail = "handed over decay #" + std::to_string(j) + " of the stream where #" + std::to_string(idx) + " is due";
      }
    }
    report("handover:" + diff, "GeneratePrimaries: " + detail + "; " + ctx, "grid " + scen + " " + g.c.sig());
    return;
  }
  n_handovers++;
  n_primaries += (long)o.rec.size();
  for (auto & r : o.rec) species_compared[r.name]++;
}

static void run_grid_row(const GridRow & g, const CI & valid_bkg)
{
  CI ci;
  if (!to_interface(g.c, ci)) {
    n_grid_norep++;
    return;
  }
  n_grid++;
  // (i) the real core tools
  std::string cmd;
  auto v = core_tools_verdict(g.c, cmd);
  if ((g.verdict == "accept" && !v.first) || (g.verdict == "refuse" && v.first)) {
    if (oracle_disagreements.size() < 20)
      oracle_disagreements.push_back(g.c.sig() + ": specification says " + g.verdict + " (" + g.why + "), core tools " + (v.first ? "accept" : "refuse: " + v.second)
                                     + " [" + cmd + "]");
  }
  // (ii) scenario A: fresh action, SetConfiguration, GeneratePrimaries x 3
  {
    PrimaryGeneratorAction act(0);
    act.SetConfiguration(ci);
    Obs o1 = observed_call([&](G4Event & ev) { act.GeneratePrimaries(&ev); }, false);
    grid_generate_check(act, g, 0, "A1", o1);
    if (o1.refused) refusal_channels[why_class(g.why) + (o1.aborts ? ":AbortRun" : ":exception")]++;
    Obs o2 = observed_call([&](G4Event & ev) { act.GeneratePrimaries(&ev); }, false);
    grid_generate_check(act, g, 1, "A2", o2);
    Obs o3 = observed_call([&](G4Event & ev) { act.GeneratePrimaries(&ev); }, false);
    grid_generate_check(act, g, 2, "A3", o3);
    n_grid_scen++;
    n_generate += 3;
  }
  // scenario B: fresh action, SetConfiguration, ApplyConfiguration, GeneratePrimaries
  {
    PrimaryGeneratorAction act(0);
    act.SetConfiguration(ci);
    Obs oa = observed_call([&](G4Event &) { act.ApplyConfiguration(); }, true);
    if (oa.refused && g.verdict == "accept")
      report("verdict:ApplyConfiguration:refused-but-core-accepts:" + g.c.cat,
             "ApplyConfiguration refuses (" + how_refused(oa) + ") a configuration the core tools accept: " + g.c.sig(), "grid B " + g.c.sig());
    if (!oa.refused && g.verdict == "refuse") n_deferred++;
    Obs o1 = observed_call([&](G4Event & ev) { act.GeneratePrimaries(&ev); }, false);
    grid_generate_check(act, g, 0, "B", o1);
    n_grid_scen++;
    n_generate++;
  }
  // scenario C: a valid background generator is live, then SetConfiguration, GeneratePrimaries
  {
    PrimaryGeneratorAction act(0);
    act.SetConfiguration(valid_bkg);
    G4Event ev0;
    bool ok = true;
    try {
      act.GeneratePrimaries(&ev0);
    } catch (std::exception &) {
      ok = false;
    }
    if (ok && ev0.GetNumberOfPrimaryVertex() > 0) {
      act.SetConfiguration(ci);
      Obs o1 = observed_call([&](G4Event & ev) { act.GeneratePrimaries(&ev); }, false);
      grid_generate_check(act, g, 0, "C", o1);
      n_grid_scen++;
      n_generate++;
    }
  }
}

// ---------------------------------------------------------------------------------------------------------

int main(int argc, char ** argv)
{
  std::string graph, seqfile, gridfile;
  int depth = 3, shard = 0, nshards = 1;
  long walks = 0, walklen = 12;
  uint64_t seed = 1;
  double budget = 60;
  bool do_cover = false, names_only = false;
  size_t maxlen = 400;
  long covered = 0;
  for (int i = 1; i < argc; i++) {
    std::string a = argv[i];
    if (a == "--graph") graph = argv[++i];
    else if (a == "--grid") gridfile = argv[++i];
    else if (a == "--depth") depth = std::atoi(argv[++i]);
    else if (a == "--shard") { shard = std::atoi(argv[++i]); nshards = std::atoi(argv[++i]); }
    else if (a == "--walks") walks = std::atol(argv[++i]);
    else if (a == "--walklen") walklen = std::atol(argv[++i]);
    else if (a == "--seed") seed = std::strtoull(argv[++i], nullptr, 10);
    else if (a == "--budget") budget = std::atof(argv[++i]);
    else if (a == "--seqfile") seqfile = argv[++i];
    else if (a == "--cover") do_cover = true;
    else if (a == "--maxlen") maxlen = (size_t)std::atol(argv[++i]);
    else if (a == "--workdir") g_workdir = argv[++i];
    else if (a == "--names") names_only = true;
  }
  choose_names();
  deadline        = std::chrono::steady_clock::now() + std::chrono::milliseconds((long)(budget * 1000));
  bool exhaustive = false;
  std::string line;
  if (names_only) {
    // nothing else
  } else if (!gridfile.empty()) {
    std::ifstream in(gridfile);
    if (!in) { std::cerr << "cannot open grid table\n"; return 2; }
    std::vector<GridRow> rows;
    while (std::getline(in, line)) {
      std::istringstream ls(line);
      char t;
      GridRow g;
      ls >> t >> g.c.cat >> g.c.nuc >> g.c.seed >> g.c.mode >> g.c.level >> g.c.win >> g.c.mdl >> g.verdict >> g.why;
      if (t == 'G') rows.push_back(g);
    }
    Cfg vb;
    vb.cat = "bkg"; vb.nuc = "pub"; vb.seed = "s2"; vb.win = "none"; vb.mdl = "off";
    CI valid_bkg;
    if (!to_interface(vb, valid_bkg)) { std::cerr << "no published background nuclide\n"; return 2; }
    g_valid_bkg_cfg = vb;
    exhaustive = true;
    for (size_t i = 0; i < rows.size(); i++) {
      if ((int)(i % nshards) != shard) continue;
      run_grid_row(rows[i], valid_bkg);
      n_seq += 3;
      if ((i & 63) == 0 && std::chrono::steady_clock::now() > deadline) { exhaustive = false; break; }
    }
    n_nontrivial = n_grid_scen;
  } else {
    std::ifstream in(graph);
    if (!in) { std::cerr << "cannot open graph\n"; return 2; }
    while (std::getline(in, line)) {
      std::istringstream ls(line);
      char t;
      ls >> t;
      if (t == 'C') {
        int id; Cfg c; ls >> id >> c.cat >> c.nuc >> c.seed >> c.mode >> c.level >> c.win >> c.mdl;
        if ((int)cfgs.size() <= id) cfgs.resize(id + 1);
        cfgs[id] = c;
      } else if (t == 'A') {
        int id; Action a; ls >> id >> a.name >> a.a1 >> a.a2 >> a.dfs;
        if ((int)actions.size() <= id) actions.resize(id + 1);
        actions[id] = a;
      } else if (t == 'S') {
        int id; AState s; ls >> id >> s.iface >> s.changed >> s.cur >> s.live >> s.shots >> s.vg >> s.last >> s.hcfg >> s.hidx >> s.hvtx;
        if ((int)states.size() <= id) { states.resize(id + 1); succ.resize(id + 1); }
        states[id] = s;
      } else if (t == 'E') {
        int s, a, d; ls >> s >> a >> d;
        succ[s][a].push_back(d);
      } else if (t == 'I') {
        ls >> init_sid;
      }
    }
    cfg_ci.resize(cfgs.size());
    cfg_ok.assign(cfgs.size(), 0);
    for (size_t i = 0; i < cfgs.size(); i++) cfg_ok[i] = to_interface(cfgs[i], cfg_ci[i]) ? 1 : 0;
    if (do_cover) {
      bool complete = false;
      covered       = cover(maxlen, complete);
      exhaustive    = complete;
    } else if (!seqfile.empty()) {
      std::ifstream sf(seqfile);
      while (std::getline(sf, line)) {
        std::istringstream ls(line);
        std::vector<int> sq; int a;
        while (ls >> a) sq.push_back(a);
        if (!sq.empty()) run_sequence(sq);
      }
      exhaustive = true;
    } else if (walks > 0) {
      std::mt19937_64 rng(seed);
      for (long w = 0; w < walks && !timed_out; w++) {
        std::vector<int> sq;
        std::vector<int> cur{init_sid};
        for (long i = 0; i < walklen; i++) {
          std::vector<int> en;
          for (int a = 0; a < (int)actions.size(); a++) {
            if (actions[a].name == "SetConfiguration" && !cfg_ok[std::atoi(actions[a].a1.c_str())]) continue;
            bool all = true;
            for (int s : cur)
              if (!succ[s].count(a)) all = false;
            if (all) en.push_back(a);
          }
          if (en.empty()) break;
          int a = en[rng() % en.size()];
          // bias towards requests of primaries: they are what the property is about
          if (rng() % 3 == 0)
            for (int b : en)
              if (actions[b].name == "GeneratePrimaries") a = b;
          sq.push_back(a);
          cur = model_step(cur, a);
        }
        run_sequence(sq);
        if ((w & 63) == 0 && std::chrono::steady_clock::now() > deadline) timed_out = true;
      }
    } else {
      std::vector<int> sq;
      std::vector<std::vector<int>> cur{{init_sid}};
      dfs(sq, cur, depth, shard, nshards);
      exhaustive = !timed_out;
    }
  }
  std::cout << "{\"sequences\":" << n_seq << ",\"steps\":" << n_steps << ",\"generate_calls\":" << n_generate << ",\"handovers\":" << n_handovers
            << ",\"primaries_compared\":" << n_primaries << ",\"refusals\":" << n_refusals << ",\"refused_by_abort\":" << n_refused_abort
            << ",\"refused_by_exception\":" << n_refused_exc << ",\"refused_by_error_output\":" << n_refused_err << ",\"nontrivial\":" << n_nontrivial
            << ",\"core_generators\":" << n_core_generators << ",\"nondet_steps\":" << n_nondet << ",\"states_visited\":" << visited.size()
            << ",\"edges_taken\":" << edges_taken.size() << ",\"pairs_covered\":" << covered << ",\"pairs_total\":" << cover_total << ",\"model_edges_not_taken\":" << cover_unrealised_edges << ",\"pairs_left_model\":" << n_cover_blocked << ",\"skipped_no_representative\":" << n_skipped_norep
            << ",\"grid_configs\":" << n_grid << ",\"grid_no_representative\":" << n_grid_norep << ",\"grid_scenarios\":" << n_grid_scen
            << ",\"grid_deferred_refusals\":" << n_deferred << ",\"oracle_runs\":" << n_oracle_runs << ",\"exhaustive\":" << (exhaustive ? "true" : "false");
  std::cout << ",\"names\":{";
  {
    bool first = true;
    for (auto & kv : nuclide_name) {
      std::cout << (first ? "" : ",") << "\"" << kv.first << "\":\"" << vh::json_escape(kv.second) << "\"";
      first = false;
    }
  }
  std::cout << "},\"species_compared\":{";
  {
    bool first = true;
    for (auto & kv : species_compared) {
      std::cout << (first ? "" : ",") << "\"" << vh::json_escape(kv.first) << "\":" << kv.second;
      first = false;
    }
  }
  std::cout << "},\"refusal_channels\":{";
  {
    bool first = true;
    for (auto & kv : refusal_channels) {
      std::cout << (first ? "" : ",") << "\"" << vh::json_escape(kv.first) << "\":" << kv.second;
      first = false;
    }
  }
  std::cout << "},\"oracle_disagreements\":[";
  for (size_t i = 0; i < oracle_disagreements.size(); i++) std::cout << (i ? "," : "") << "\"" << vh::json_escape(oracle_disagreements[i]) << "\"";
  std::cout << "],\"samples\":[";
  for (size_t i = 0; i < samples.size(); i++) std::cout << (i ? "," : "") << "\"" << vh::json_escape(samples[i]) << "\"";
  std::cout << "],\"violations\":[";
  for (size_t i = 0; i < viols.size(); i++) {
    if (i) std::cout << ",";
    std::cout << "{\"key\":\"" << vh::json_escape(viols[i].key) << "\",\"what\":\"" << vh::json_escape(viols[i].what) << "\",\"seq\":\""
              << vh::json_escape(viols[i].seq) << "\"}";
  }
  std::cout << "]}" << std::endl;
  return 0;
}
