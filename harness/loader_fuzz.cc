// C15 harness: feeds rendered (possibly malformed) input documents to the real loaders of bxdecay0, one forked
// child per case so that a crash / sanitizer report / hang / runaway allocation is attributed to its case.
//
//   loader_fuzz --cases <list> --out <ndjson> [--timeout <s>] [--seed <n>]
//
// <list>: one case per line, TAB separated:  <id> <format> <path>
//   format = event      : <path> is an event record file               -> bxdecay0::event_reader
//            pdf | ocdf : <path> is a gA data root (BXDECAY0_DBD_GA_DATA_DIR) holding v1.0/Test/g0/tab_*.data
//                                                                        -> bxdecay0::dbd_gA::initialize + shoot
//            lis_dbd | lis_bkg | lis_modes : <path> is a resource root (BXDECAY0_RESOURCE_DIR) whose
//                         description/*.lis is the document              -> bxdecay0::dbd_isotopes() etc.
//            argv       : <path> is a file with one command line argument per line
//                                                                        -> bxdecay0::cl_parser (+ driver ctor)
// Output: one JSON object per case: how the child ended (exit code / signal / timeout), what it reported
// ("@@RES {...}" line), the first sanitizer / assertion line of its stderr and the tail of its output.
//
// The child only *observes*; the verdict is taken by spec/TraceLoader.tla (see checks/c15.py).
#include <algorithm>
#include <cerrno>
#include <cmath>
#include <csignal>
#include <cstdio>
#include <cstdlib>
#include <cstring>
#include <fstream>
#include <iostream>
#include <map>
#include <set>
#include <sstream>
#include <string>
#include <vector>

#include <fcntl.h>
#include <poll.h>
#include <sys/resource.h>
#include <sys/time.h>
#include <sys/wait.h>
#include <unistd.h>

#include <bxdecay0/bb_utils.h>
#include <bxdecay0/dbd_gA.h>
#include <bxdecay0/decay0_generator.h>
#include <bxdecay0/event.h>
#include <bxdecay0/event_reader.h>
#include <bxdecay0/i_random.h>
#include <bxdecay0/particle.h>

// programs/ sources are compiled into this executable (see checks/c15.py)
#include "bxdecay0_clparser.hpp"
#include "bxdecay0_driver.hpp"

namespace {

  struct draw_budget_exceeded
  {}; // deliberately NOT a std::exception: means "the sampler does not terminate"

  // Deviate source: a short plan (boundary deviates), then splitmix64; bounded number of draws.
  struct source : public bxdecay0::i_random
  {
    std::vector<double> plan;
    size_t pos      = 0;
    uint64_t s      = 1;
    uint64_t served = 0;
    uint64_t budget = 2000000;
    double operator()() override
    {
      if (served >= budget) {
        throw draw_budget_exceeded();
      }
      served++;
      if (pos < plan.size()) {
        return plan[pos++];
      }
      uint64_t z = (s += 0x9E3779B97F4A7C15ULL);
      z          = (z ^ (z >> 30)) * 0xBF58476D1CE4E5B9ULL;
      z          = (z ^ (z >> 27)) * 0x94D049BB133111EBULL;
      z ^= (z >> 31);
      return ((z >> 11) + 0.5) * (1.0 / 9007199254740992.0);
    }
  };

  std::string jesc(const std::string & s, size_t cap = 200)
  {
    std::string o;
    for (size_t i = 0; i < s.size() && i < cap; i++) {
      unsigned char c = s[i];
      if (c == '"' || c == '\\') {
        o += '\\';
        o += (char)c;
      } else if (c < 0x20 || c >= 0x7f) {
        char b[8];
        snprintf(b, sizeof b, "\\u%04x", c);
        o += b;
      } else {
        o += (char)c;
      }
    }
    return o;
  }

  bool finite_particle(const bxdecay0::particle & p)
  {
    return std::isfinite(p.get_time()) && std::isfinite(p.get_px()) && std::isfinite(p.get_py())
           && std::isfinite(p.get_pz());
  }

  std::set<std::string> file_tokens(const std::string & path)
  {
    std::set<std::string> t;
    std::ifstream f(path.c_str());
    std::string w;
    while (f >> w) {
      t.insert(w);
    }
    return t;
  }

  void res(const std::string & body)
  {
    // single write so that it is not interleaved with sanitizer output
    std::string line = "\n@@RES {" + body + "}\n";
    fflush(stdout);
    fflush(stderr);
    (void)!write(1, line.data(), line.size());
  }

  // ------------------------------------------------------------------ (a) event record file
  int run_event(const std::string & path)
  {
    using namespace bxdecay0;
    long nev = 0, npart = 0, invalid = 0, nonfinite = 0, post_err = 0;
    std::string outcome = "loaded", what;
    event_reader::config_type cfg;
    cfg.event_files.push_back(path);
    std::unique_ptr<event_reader> rd;
    try {
      rd.reset(new event_reader(cfg, 0));
      while (rd->has_next_event()) {
        event ev;
        rd->load_next_event(ev);
        nev++;
        npart += (long)ev.get_particles().size();
        if (!ev.is_valid()) {
          invalid++;
        }
        if (!std::isfinite(ev.get_time())) {
          nonfinite++;
        }
        for (const auto & p : ev.get_particles()) {
          if (!finite_particle(p)) {
            nonfinite++;
          }
        }
        // subsequent use of the loaded object
        std::ostringstream so;
        ev.store(so, event::STORE_EVENT_TIME);
        std::ostringstream po;
        ev.print(po, "ev", "");
        if (nev >= 200000) {
          outcome = "runaway";
          break;
        }
      }
    } catch (std::exception & e) {
      outcome = "error";
      what    = e.what();
    }
    // subsequent use of the reader after the verdict: must stay orderly
    if (rd) {
      for (int i = 0; i < 3; i++) {
        try {
          if (rd->has_next_event()) {
            event ev;
            rd->load_next_event(ev);
            if (!ev.is_valid()) {
              invalid++;
            }
          }
        } catch (std::exception &) {
          post_err++;
        }
      }
      rd.reset();
    }
    // second protocol: load_next_event() called directly, without asking has_next_event() first, until it throws
    {
      long nev2 = 0, npart2 = 0, invalid2 = 0;
      try {
        event_reader rd2(cfg, 0);
        for (;;) {
          event ev;
          rd2.load_next_event(ev);
          nev2++;
          npart2 += (long)ev.get_particles().size();
          if (!ev.is_valid()) invalid2++;
          for (const auto & p : ev.get_particles())
            if (!finite_particle(p)) nonfinite++;
          if (nev2 >= 200000) {
            outcome = "runaway";
            break;
          }
        }
      } catch (std::exception &) {
        // the end of the stream (or a refused record) ends this protocol with an exception
      }
      if (4 * nev2 + 5 * npart2 > 4 * nev + 5 * npart) {
        nev   = nev2;
        npart = npart2;
      }
      invalid += invalid2;
    }
    // third protocol: a reader WINDOW that starts behind the first records (2, and far beyond the end): the records in front of
    // the window are parsed by has_next_event() / the configuration step, not by load_next_event(); a malformed one among them
    // has to surface as an error there as well
    for (int start : {2, 1000}) {
      try {
        event_reader::config_type cfg3 = cfg;
        cfg3.start_event               = start;
        event_reader rd3(cfg3, 0);
        long n3 = 0;
        while (rd3.has_next_event()) {
          event ev;
          rd3.load_next_event(ev);
          if (!ev.is_valid()) invalid++;
          for (const auto & p : ev.get_particles())
            if (!finite_particle(p)) nonfinite++;
          if (++n3 >= 200000) {
            outcome = "runaway";
            break;
          }
        }
      } catch (std::exception &) {
      }
    }
    std::ostringstream o;
    o << "\"outcome\":\"" << outcome << "\",\"nev\":" << nev << ",\"npart\":" << npart << ",\"invalid\":" << invalid
      << ",\"nonfinite\":" << nonfinite << ",\"post_err\":" << post_err << ",\"what\":\"" << jesc(what) << "\"";
    res(o.str());
    return 0;
  }

  // ------------------------------------------------------------------ (b)(c) gA tables
  int run_ga(const std::string & root, bool pdf, uint64_t seed)
  {
    using namespace bxdecay0;
    setenv("BXDECAY0_DBD_GA_DATA_DIR", root.c_str(), 1);
    std::string outcome = "loaded", what;
    long shots = 0, shots_invalid = 0, shoot_err = 0, plot_n = 0, plot_bad = 0, plot_neg = 0, plot_over = 0, e_bad = 0;
    double plot_min = 0.0, plot_max = 0.0;
    // largest number written in the document: an interpolated p.d.f. value is a convex combination of table
    // entries, each of which is a number of the document (or the loader's own zero fill)
    double tokmax = 0.0;
    if (pdf) {
      for (const auto & t : file_tokens(root + "/data/dbd_gA/v1.0/Test/g0/tab_pdf.data")) {
        char * end = nullptr;
        double v   = strtod(t.c_str(), &end);
        // (prefix parse, as the loader does: "0.25abc" yields 0.25)
        if (end != t.c_str() && std::isfinite(v) && v > tokmax) {
          tokmax = v;
        }
      }
    }
    bool budget = false;
    dbd_gA g;
    try {
      g.set_nuclide("Test");
      g.set_process(dbd_gA::PROCESS_G0);
      g.set_shooting(pdf ? dbd_gA::SHOOTING_REJECTION : dbd_gA::SHOOTING_INVERSE_TRANSFORM_METHOD);
      g.initialize();
    } catch (std::exception & e) {
      outcome = "error";
      what    = e.what();
    }
    if (outcome == "loaded" && !g.is_initialized()) {
      outcome = "error";
      what    = "not initialized";
    }
    if (outcome == "loaded") {
      try {
        std::ostringstream po;
        g.print(po, "gA", "");
        if (pdf) {
          // the loaded table, as seen through the library's own read accessor
          std::ostringstream plot;
          g.plot_interpolated_pdf(plot, 12);
          std::istringstream pin(plot.str());
          double x, y, p;
          bool first = true;
          while (pin >> x >> y >> p) {
            plot_n++;
            if (!std::isfinite(p)) {
              plot_bad++;
              continue;
            }
            if (p < 0.0) {
              plot_neg++; // the loader's own acceptance test is prob >= 0
            }
            if (p > tokmax * (1.0 + 1e-9)) {
              plot_over++;
            }
            if (first || p < plot_min) {
              plot_min = p;
            }
            if (first || p > plot_max) {
              plot_max = p;
            }
            first = false;
          }
        }
      } catch (std::exception & e) {
        shoot_err++;
        what = e.what();
      }
      // subsequent use: shoot with boundary deviates first, then seeded ones
      static const double edge[] = {1e-12, 0.5, 1.0 - 1e-12, 0.25, 0.999999};
      for (int k = 0; k < 60 && !budget; k++) {
        source prng;
        prng.s = seed + 1000 * k;
        if (k < 25) {
          prng.plan.push_back(edge[k / 5]);
          prng.plan.push_back(edge[k % 5]);
        }
        try {
          double e1 = 0, e2 = 0;
          if (k % 2 == 0) {
            g.shoot_e1_e2(prng, e1, e2);
            if (std::isnan(e1) || std::isnan(e2) || e1 < 0.0 || e2 < 0.0) {
              e_bad++;
            }
          } else {
            event ev;
            g.shoot(prng, ev);
            if (!ev.is_valid() || ev.get_particles().size() != 2) {
              shots_invalid++;
            }
          }
          shots++;
        } catch (draw_budget_exceeded &) {
          budget = true;
        } catch (std::exception & e) {
          shoot_err++;
          what = e.what();
        }
      }
      try {
        g.reset();
      } catch (std::exception &) {
      }
    }
    std::ostringstream o;
    o.precision(6);
    o << "\"outcome\":\"" << (budget ? "nonterminating" : outcome) << "\",\"shots\":" << shots
      << ",\"shots_invalid\":" << shots_invalid << ",\"e_bad\":" << e_bad << ",\"shoot_err\":" << shoot_err
      << ",\"plot_n\":" << plot_n << ",\"plot_bad\":" << plot_bad << ",\"plot_neg\":" << plot_neg
      << ",\"plot_over\":" << plot_over << ",\"plot_min\":" << plot_min
      << ",\"plot_max\":" << plot_max << ",\"what\":\"" << jesc(what) << "\"";
    res(o.str());
    return 0;
  }

  // ------------------------------------------------------------------ (d) catalogue lists
  // the catalogue loaders' own acceptance test: the first blank-delimited word of a line that is not a comment
  bool plausible_name(const std::string & n)
  {
    if (n.empty() || n[0] == '#') {
      return false;
    }
    for (unsigned char c : n) {
      if (c == ' ' || c == '\t' || c == '\n' || c == '\v' || c == '\f' || c == '\r') {
        return false;
      }
    }
    return true;
  }

  std::string file_bytes(const std::string & path)
  {
    std::ifstream f(path.c_str(), std::ios::binary);
    std::ostringstream o;
    o << f.rdbuf();
    return o.str();
  }

  int run_lis(const std::string & root, const std::string & which, uint64_t seed)
  {
    using namespace bxdecay0;
    setenv("BXDECAY0_RESOURCE_DIR", root.c_str(), 1);
    std::string fname = root + "/description/"
                        + (which == "lis_dbd" ? "dbd_isotopes.lis"
                                              : which == "lis_bkg" ? "background_isotopes.lis" : "dbd_modes.lis");
    std::set<std::string> toks = file_tokens(fname);
    std::string content        = file_bytes(fname);
    std::string outcome = "loaded", what;
    long n = 0, alien = 0, implausible = 0, use_ok = 0, use_err = 0, use_invalid = 0;
    std::ostringstream sample;
    try {
      if (which != "lis_modes") {
        const std::set<std::string> & names = (which == "lis_dbd") ? dbd_isotopes() : background_isotopes();
        n                                  = (long)names.size();
        int k                              = 0;
        for (const auto & nm : names) {
          if (!toks.count(nm)) {
            alien++;
          }
          if (!plausible_name(nm)) {
            implausible++;
          }
          if (k < 6) {
            sample << (k ? "," : "") << "\"" << jesc(nm, 24) << "\"";
          }
          k++;
        }
        // subsequent use: what bxdecay0-run does with the catalogue, then the generator itself
        k = 0;
        for (const auto & nm : names) {
          if (k++ >= 8) {
            break;
          }
          try {
            driver::config_type dc;
            dc.decay_category = (which == "lis_dbd") ? decay0_generator::DECAY_CATEGORY_DBD
                                                      : decay0_generator::DECAY_CATEGORY_BACKGROUND;
            dc.nuclide  = nm;
            dc.dbd_mode = DBDMODE_1;
            dc.basename = "unused";
            driver d(dc);
            source prng;
            prng.s = seed + k;
            decay0_generator gen;
            gen.set_decay_category(dc.decay_category);
            gen.set_decay_isotope(nm);
            if (which == "lis_dbd") {
              gen.set_decay_dbd_level(0);
              gen.set_decay_dbd_mode(DBDMODE_1);
            }
            gen.initialize(prng); // the consumer of the catalogue; generation itself is other properties' business
            gen.reset();
            use_ok++;
          } catch (draw_budget_exceeded &) {
            outcome = "nonterminating";
          } catch (std::exception &) {
            use_err++;
          }
        }
      } else {
        const std::map<dbd_mode_type, dbd_record> & m = dbd_modes();
        n                                            = (long)m.size();
        int k                                        = 0;
        for (const auto & kv : m) {
          int key = (int)kv.first;
          bool seen = false;
          for (const auto & t : toks) {
            char * end = nullptr;
            errno      = 0;
            long v     = strtol(t.c_str(), &end, 10);
            if (end != t.c_str() && errno == 0 && v == key) {
              seen = true;
              break;
            }
          }
          // (the label is what follows the number on its line: possibly the rest of the number's own token)
          if (!seen || content.find(kv.second.unique_label) == std::string::npos) {
            alien++;
          }
          // the loader's own acceptance test
          if (!(key > 0) || kv.second.description.empty() || (int)kv.second.dbd_mode != key) {
            implausible++;
          }
          if (k < 6) {
            sample << (k ? "," : "") << "\"" << key << ":" << jesc(kv.second.unique_label, 24) << "\"";
          }
          k++;
          // accessors, for keys that are present
          std::string l = dbd_mode_label(kv.first);
          std::string d = dbd_mode_description(kv.first);
          (void)dbd_legacy_mode(kv.first);
          (void)dbd_mode_from_label(l);
        }
        // subsequent use: the generator consults the dictionary in initialize(), for every mode of the enum range.
        // Modes whose initialisation integrates spectra are requested with a daughter level they must refuse:
        // the dictionary is consulted before the refusal, and the refusal costs microseconds.
        for (int mode = (int)DBDMODE_MIN; mode <= (int)DBDMODE_MAX; mode++) {
          bool cheap = (mode <= 3 || mode == 7 || mode == 17 || mode == 18 || mode == 20 || mode >= 21);
          int level  = (mode == 7) ? 1 : 0;
          if (!cheap) {
            level = (mode == 8 || mode == 16) ? 0 : 1;
          }
          try {
            source prng;
            prng.s = seed + mode;
            decay0_generator gen;
            gen.set_decay_category(decay0_generator::DECAY_CATEGORY_DBD);
            gen.set_decay_isotope(mode == 20 ? "Zr96" : "Mo100");
            gen.set_decay_dbd_level(level);
            gen.set_decay_dbd_mode(static_cast<dbd_mode_type>(mode));
            gen.initialize(prng); // the consumer of the catalogue; generation itself is other properties' business
            gen.reset();
            use_ok++;
          } catch (draw_budget_exceeded &) {
            outcome = "nonterminating";
          } catch (std::exception &) {
            use_err++;
          }
        }
      }
    } catch (std::exception & e) {
      outcome = "error";
      what    = e.what();
    }
    std::ostringstream o;
    o << "\"outcome\":\"" << outcome << "\",\"n\":" << n << ",\"alien\":" << alien << ",\"implausible\":" << implausible
      << ",\"use_ok\":" << use_ok << ",\"use_err\":" << use_err << ",\"use_invalid\":" << use_invalid
      << ",\"sample\":[" << sample.str() << "],\"what\":\"" << jesc(what) << "\"";
    res(o.str());
    return 0;
  }

  // ------------------------------------------------------------------ (e) command line (parser in process)
  int run_argv(const std::string & path)
  {
    using namespace bxdecay0;
    std::vector<std::string> args;
    {
      std::ifstream f(path.c_str());
      std::string l;
      while (std::getline(f, l)) {
        args.push_back(l);
      }
    }
    std::vector<char *> argv;
    std::string a0 = "bxdecay0-run";
    argv.push_back(&a0[0]);
    for (auto & a : args) {
      argv.push_back(&a[0]);
    }
    argv.push_back(nullptr);
    std::string outcome, what;
    try {
      driver::config_type cfg;
      cl_parser::parse_status_type ps;
      {
        cl_parser p((int)argv.size() - 1, argv.data());
        ps = p.parse(cfg);
      }
      if (ps == cl_parser::PS_OK) {
        driver d(cfg); // validation only; the run itself is exercised on the real binary
        outcome = "loaded";
      } else {
        outcome = (ps == cl_parser::PS_USAGE) ? "usage" : "error";
      }
    } catch (std::exception & e) {
      outcome = "error";
      what    = e.what();
    }
    std::ostringstream o;
    o << "\"outcome\":\"" << outcome << "\",\"nargs\":" << args.size() << ",\"what\":\"" << jesc(what) << "\"";
    res(o.str());
    return 0;
  }

  int child_main(const std::string & fmt, const std::string & path, uint64_t seed)
  {
    try {
      if (fmt == "event") {
        return run_event(path);
      }
      if (fmt == "pdf") {
        return run_ga(path, true, seed);
      }
      if (fmt == "ocdf") {
        return run_ga(path, false, seed);
      }
      if (fmt == "lis_dbd" || fmt == "lis_bkg" || fmt == "lis_modes") {
        return run_lis(path, fmt, seed);
      }
      if (fmt == "argv") {
        return run_argv(path);
      }
    } catch (draw_budget_exceeded &) {
      res("\"outcome\":\"nonterminating\",\"what\":\"draw budget\"");
      return 0;
    } catch (std::bad_alloc & e) {
      res("\"outcome\":\"error\",\"what\":\"bad_alloc (late)\"");
      return 0;
    }
    fprintf(stderr, "unknown format %s\n", fmt.c_str());
    return 3;
  }

  std::string find_marker(const std::string & out)
  {
    static const char * pats[] = {"ERROR: AddressSanitizer", "ERROR: UndefinedBehaviorSanitizer", "runtime error:",
                                  "Assertion", "gsl: ", "terminate called", "hard rss limit", "LeakSanitizer"};
    size_t best = std::string::npos;
    for (const char * p : pats) {
      size_t k = out.find(p);
      if (k != std::string::npos && k < best) {
        best = k;
      }
    }
    if (best == std::string::npos) {
      return "";
    }
    size_t b = out.rfind('\n', best);
    b        = (b == std::string::npos) ? 0 : b + 1;
    size_t e = out.find('\n', best);
    return out.substr(b, (e == std::string::npos ? out.size() : e) - b);
  }

} // namespace

int main(int argc, char ** argv)
{
  std::string cases, outp;
  double timeout = 5.0;
  uint64_t seed  = 12345;
  for (int i = 1; i < argc; i++) {
    std::string a = argv[i];
    if (a == "--cases" && i + 1 < argc) {
      cases = argv[++i];
    } else if (a == "--out" && i + 1 < argc) {
      outp = argv[++i];
    } else if (a == "--timeout" && i + 1 < argc) {
      timeout = atof(argv[++i]);
    } else if (a == "--seed" && i + 1 < argc) {
      seed = strtoull(argv[++i], nullptr, 10);
    } else if (a == "--one" && i + 2 < argc) {
      // debugging aid: run one case in this very process
      return child_main(argv[i + 1], argv[i + 2], seed);
    }
  }
  if (cases.empty() || outp.empty()) {
    fprintf(stderr, "usage: loader_fuzz --cases <list> --out <ndjson> [--timeout s] [--seed n]\n");
    return 2;
  }
  std::ifstream fc(cases.c_str());
  if (!fc) {
    fprintf(stderr, "cannot open %s\n", cases.c_str());
    return 2;
  }
  FILE * fo = fopen(outp.c_str(), "w");
  if (!fo) {
    fprintf(stderr, "cannot write %s\n", outp.c_str());
    return 2;
  }
  signal(SIGPIPE, SIG_IGN);
  std::string line;
  long ncases = 0;
  while (std::getline(fc, line)) {
    if (line.empty()) {
      continue;
    }
    std::istringstream ls(line);
    std::string id, fmt, path;
    std::getline(ls, id, '\t');
    std::getline(ls, fmt, '\t');
    std::getline(ls, path, '\t');
    int pfd[2];
    if (pipe(pfd) != 0) {
      perror("pipe");
      return 2;
    }
    struct timeval t0;
    gettimeofday(&t0, nullptr);
    pid_t pid = fork();
    if (pid < 0) {
      perror("fork");
      return 2;
    }
    if (pid == 0) {
      close(pfd[0]);
      dup2(pfd[1], 1);
      dup2(pfd[1], 2);
      close(pfd[1]);
      fclose(fo);
      struct rlimit rl;
      rl.rlim_cur = rl.rlim_max = (rlim_t)(timeout + 3);
      setrlimit(RLIMIT_CPU, &rl);
      rl.rlim_cur = rl.rlim_max = 0;
      setrlimit(RLIMIT_CORE, &rl);
      alarm((unsigned)(timeout + 1));
      int rc = child_main(fmt, path, seed);
      fflush(stdout);
      fflush(stderr);
      _exit(rc);
    }
    close(pfd[1]);
    std::string out;
    bool timed_out = false;
    size_t total   = 0;
    for (;;) {
      struct timeval now;
      gettimeofday(&now, nullptr);
      double el = (now.tv_sec - t0.tv_sec) + 1e-6 * (now.tv_usec - t0.tv_usec);
      if (el > timeout) {
        timed_out = true;
        kill(pid, SIGKILL);
        break;
      }
      struct pollfd pf = {pfd[0], POLLIN, 0};
      int pr           = poll(&pf, 1, 100);
      if (pr > 0) {
        char buf[65536];
        ssize_t k = read(pfd[0], buf, sizeof buf);
        if (k <= 0) {
          break; // EOF: the child is gone (or closed its ends)
        }
        total += (size_t)k;
        out.append(buf, (size_t)k);
        if (out.size() > (1u << 20)) {
          // keep head and tail
          out = out.substr(0, 1u << 18) + "\n...[cut]...\n" + out.substr(out.size() - (1u << 18));
        }
      }
    }
    close(pfd[0]);
    int st = 0;
    waitpid(pid, &st, 0);
    struct timeval t1;
    gettimeofday(&t1, nullptr);
    double wall = (t1.tv_sec - t0.tv_sec) + 1e-6 * (t1.tv_usec - t0.tv_usec);
    std::string how = "exit";
    int code        = 0;
    if (timed_out) {
      how = "timeout";
    } else if (WIFSIGNALED(st)) {
      how  = "signal";
      code = WTERMSIG(st);
      if (code == SIGALRM || code == SIGXCPU) {
        how = "timeout";
      }
    } else {
      code = WEXITSTATUS(st);
    }
    std::string resj = "null";
    size_t k         = out.rfind("@@RES ");
    if (k != std::string::npos) {
      size_t e = out.find('\n', k);
      resj     = out.substr(k + 6, (e == std::string::npos ? out.size() : e) - (k + 6));
    }
    std::string marker = find_marker(out);
    std::string tail   = out.size() > 1500 ? out.substr(out.size() - 1500) : out;
    fprintf(fo, "{\"id\":\"%s\",\"fmt\":\"%s\",\"how\":\"%s\",\"code\":%d,\"wall\":%.3f,\"res\":%s,\"marker\":\"%s\",\"tail\":\"%s\"}\n",
            jesc(id).c_str(), fmt.c_str(), how.c_str(), code, wall, resj.c_str(), jesc(marker, 300).c_str(),
            (how == "exit" && code == 0 && marker.empty()) ? "" : jesc(tail, 1500).c_str());
    fflush(fo);
    ncases++;
  }
  fclose(fo);
  printf("{\"cases\":%ld}\n", ncases);
  return 0;
}
