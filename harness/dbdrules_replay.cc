// Replays the verdict table of spec/DbdRules.tla on the real library (property C06).
// stdin lines:  <iso|''> <level> <mode> <none|valid|inverted|beyond> <lib 0|1|2> <plumbing 0|1|2> [q ek z a levelE]
//               (2 = unspecified by the rules; the optional tail is the isotope's table row for the plumbing layer to be compared with)
// For each request: decay0_generator::initialize must throw / not throw as the table says; a refused request must leave
// the generator un-initialised and shoot must throw; an accepted one must yield events (their validity is checked:
// particle count, species, finite momenta/times, time order, label).  For window "none" the plumbing layer
// (genbbsub, initialisation call) is asked as well.
#include <cmath>
#include <csignal>
#include <cstdlib>
#include <sys/wait.h>
#include <unistd.h>
#include <map>
#include <set>

#include <bxdecay0/decay0_generator.h>
#include <bxdecay0/genbbsub.h>
#include <bxdecay0/bb.h>

#include "common/vh.h"

static std::string check_event(const bxdecay0::event & ev, const std::string & iso)
{
  if (ev.get_particles().empty()) return "empty event";
  if (ev.get_particles().size() > 100) return "more than 100 particles";
  if (ev.get_generator() != iso) return "generator label '" + ev.get_generator() + "'";
  if (!(ev.get_time() == 0.0)) return "event time not 0";
  double last = 0.0;
  for (const auto & p : ev.get_particles()) {
    if (!(p.is_gamma() || p.is_electron() || p.is_positron() || p.is_alpha())) return "species";
    if (!std::isfinite(p.get_px()) || !std::isfinite(p.get_py()) || !std::isfinite(p.get_pz())) return "non-finite momentum";
    if (!std::isfinite(p.get_time()) || p.get_time() < 0) return "time";
    if (p.get_time() < last) return "time order";
    last = p.get_time();
  }
  return "";
}

int main()
{
  std::string iso, win;
  int level, mode, elib, eplumb;
  long n = 0, nacc = 0, nrej = 0, nplumb = 0, nevents = 0, nundet = 0;
  std::vector<std::string> viols;
  std::set<std::string> keys;
  auto report = [&](const std::string & key, const std::string & what) {
    if (keys.insert(key).second) viols.push_back(key + "\t" + what);
  };
  std::string line;
  while (std::getline(std::cin, line)) {
    std::istringstream ls(line);
    if (!(ls >> iso >> level >> mode >> win >> elib >> eplumb)) continue;
    double tq = -1, tek = -1, tz = 0, ta = 0;
    int tle = -1;
    bool have_table = bool(ls >> tq >> tek >> tz >> ta >> tle);
    if (iso == "''") iso.clear();
    n++;
    std::string tag = (iso.empty() ? "''" : iso) + "/" + std::to_string(level) + "/" + std::to_string(mode) + "/" + win;
    // ---- a window that lies wholly above the spectrum is expected to be refused; an implementation that accepts it may
    //      never return from initialize/shoot: such requests run in a child with a 4 s watchdog
    if (win == "beyond") {
      std::cout.flush();
      pid_t pid = fork();
      if (pid == 0) {
        alarm(4);
        int code = 0;
        try {
          bxdecay0::decay0_generator g;
          vh::stream prng(n * 7919 + 1);
          g.set_decay_category(bxdecay0::decay0_generator::DECAY_CATEGORY_DBD);
          g.set_decay_isotope(iso);
          g.set_decay_dbd_level(level);
          g.set_decay_dbd_mode((bxdecay0::dbd_mode_type)mode);
          g.set_decay_dbd_esum_range(5.0, 6.0);
          g.initialize(prng);
          code = 10; // accepted
          bxdecay0::event ev;
          g.shoot(prng, ev);
        } catch (std::exception &) {
          if (code == 10) code = 11; // accepted, then shoot throws
        }
        _exit(code);
      }
      int st = 0;
      waitpid(pid, &st, 0);
      nrej++;
      if (WIFSIGNALED(st)) {
        report(std::string(WTERMSIG(st) == SIGALRM ? "hang:" : "crash:") + tag,
               std::string("a window above the available energy makes initialize/shoot ") + (WTERMSIG(st) == SIGALRM ? "run for ever" : "crash") + " instead of being refused");
      } else if (WEXITSTATUS(st) != 0) {
        report("library-accepts:" + tag, "the rules refuse a window that lies wholly above the available energy, decay0_generator::initialize succeeds");
      }
      continue;
    }
    // ---- library layer
    {
      bxdecay0::decay0_generator g;
      vh::stream prng(n * 7919 + 1);
      bool threw = false;
      std::string what;
      try {
        // the verdict is a function of the CONFIGURATION, not of the order of the configuration calls: three call orders,
        // rotated over the cases (0: category, isotope, level, mode, window; 1: the reverse; 2: window before mode)
        auto set_win = [&] {
          if (win == "valid") g.set_decay_dbd_esum_range(0.0, 5.0);
          if (win == "lower") g.set_decay_dbd_esum_range(0.0, std::nan(""));   // half-open windows: one bound left undefined
          if (win == "upper") g.set_decay_dbd_esum_range(std::nan(""), 5.0);
          if (win == "inverted") g.set_decay_dbd_esum_range(2.0, 1.0);
          if (win == "empty") g.set_decay_dbd_esum_range(0.001, 0.001);
          if (win == "beyond") g.set_decay_dbd_esum_range(5.0, 6.0); // above every tabulated Q value
        };
        auto set_cat  = [&] { g.set_decay_category(bxdecay0::decay0_generator::DECAY_CATEGORY_DBD); };
        auto set_iso  = [&] { g.set_decay_isotope(iso); };
        auto set_lev  = [&] { g.set_decay_dbd_level(level); };
        auto set_mode = [&] { g.set_decay_dbd_mode((bxdecay0::dbd_mode_type)mode); };
        switch (n % 3) {
        case 0: set_cat(); set_iso(); set_lev(); set_mode(); set_win(); break;
        case 1: set_win(); set_mode(); set_lev(); set_iso(); set_cat(); break;
        default: set_cat(); set_win(); set_iso(); set_mode(); set_lev(); break;
        }
        g.initialize(prng);
      } catch (std::exception & e) {
        threw = true;
        what  = e.what();
      }
      if (elib == 2) {
        nundet++;
      } else if (elib == 1) {
        nacc++;
        if (threw) {
          report("library-refuses:" + tag, "the rules accept the request, decay0_generator::initialize throws: " + what);
        } else {
          if (!g.is_initialized()) report("accepted-not-initialised:" + tag, "initialize returned but is_initialized() is false");
          bxdecay0::event ev;
          for (int i = 0; i < 3; i++) {
            try {
              g.shoot(prng, ev);
              nevents++;
              std::string bad = check_event(ev, iso);
              if (!bad.empty()) report("accepted-bad-event:" + tag, "event #" + std::to_string(i) + ": " + bad + " : " + vh::short_event(ev));
            } catch (std::exception & e) {
              report("accepted-shoot-throws:" + tag, std::string("shoot throws after a successful initialize: ") + e.what());
              break;
            }
          }
          double ta = g.get_to_all_events();
          if (!(ta >= 1.0 - 1e-9) || !std::isfinite(ta)) report("accepted-ratio:" + tag, "full-range/window ratio " + std::to_string(ta) + " < 1");
          if (win == "none" && std::fabs(ta - 1.0) > 1e-6 && !(mode == 9 || mode == 11 || mode == 12))
            report("accepted-ratio-full:" + tag, "no window but ratio " + std::to_string(ta));
        }
      } else {
        nrej++;
        if (!threw) {
          report("library-accepts:" + tag, "the rules refuse the request, decay0_generator::initialize succeeds");
        } else {
          if (g.is_initialized()) report("refused-but-initialised:" + tag, "initialize threw but is_initialized() is true");
          bxdecay0::event ev;
          bool sthrew = false;
          try {
            g.shoot(prng, ev);
          } catch (std::exception &) {
            sthrew = true;
          }
          if (!sthrew) report("refused-but-shoots:" + tag, "a refused request yields events");
        }
      }
    }
    // ---- plumbing layer
    if (win == "none" && eplumb != 2 && level >= -1) {
      nplumb++;
      bxdecay0::bbpars pars;
      bxdecay0::event ev;
      vh::stream prng(n);
      int ier = 0;
      bool threw = false;
      try {
        bxdecay0::genbbsub(prng, ev, bxdecay0::GENBBSUB_I2BBS_DBD, iso, level, mode, bxdecay0::GENBBSUB_ISTART_INIT, ier, pars);
      } catch (std::exception &) {
        threw = true;
      }
      bool acc = !threw && ier == 0;
      if (acc && have_table) {
        // the isotope table of the port must be the table of the reference (DbdTable.tla)
        auto differs = [](double x, double y) { return std::fabs(x - y) > 1e-9 * (1.0 + std::fabs(y)); };
        if (differs(pars.Qbb, tq)) report("table:" + iso + ":Q", "Q value " + std::to_string(pars.Qbb) + " MeV, reference table " + std::to_string(tq));
        if (differs(pars.EK, tek)) report("table:" + iso + ":EK:level" + std::to_string(level), "EK " + std::to_string(pars.EK) + ", reference table " + std::to_string(tek));
        if (differs(pars.Zdbb, tz)) report("table:" + iso + ":Z", "daughter Z " + std::to_string(pars.Zdbb) + ", reference table " + std::to_string(tz));
        if (differs(pars.Adbb, ta)) report("table:" + iso + ":A", "A " + std::to_string(pars.Adbb) + ", reference table " + std::to_string(ta));
        if (pars.levelE != tle) report("table:" + iso + ":level" + std::to_string(level), "level energy " + std::to_string(pars.levelE) + " keV, reference table " + std::to_string(tle));
      }
      if (acc != (eplumb == 1))
        report(std::string(acc ? "plumbing-accepts:" : "plumbing-refuses:") + tag,
               std::string("genbbsub(INIT) ") + (acc ? "accepts" : "refuses") + " a request the rules " + (eplumb == 1 ? "accept" : "refuse"));
    }
  }
  std::cout << "{\"requests\":" << n << ",\"accepted\":" << nacc << ",\"refused\":" << nrej << ",\"unspecified\":" << nundet
            << ",\"plumbing\":" << nplumb << ",\"events\":" << nevents << ",\"violations\":[";
  for (size_t i = 0; i < viols.size(); i++) {
    size_t t = viols[i].find('\t');
    std::cout << (i ? "," : "") << "{\"key\":\"" << vh::json_escape(viols[i].substr(0, t)) << "\",\"what\":\"" << vh::json_escape(viols[i].substr(t + 1))
              << "\"}";
  }
  std::cout << "]}" << std::endl;
  return 0;
}
