// Replay of spec/G4Messenger.tla behaviours on the REAL command layer of the Geant4 extension:
// bxdecay0_g4::PrimaryGeneratorAction + bxdecay0_g4::PrimaryGeneratorActionMessenger (both compiled from /repo), driven through
// the stand-in command registry of /verif/g4stub_ui (parameter completion, type and range checks as G4UIcommand::DoIt).
// stdin: "RESET" starts a new behaviour (fresh action object), every other line is a macro command line.
// stdout: after each command one JSON object with the command layer's return code and the action's interface configuration.
#include <cmath>
#include <cstdio>
#include <iostream>
#include <memory>
#include <string>

#include <G4UIcommand.hh>
#include <G4UImessenger.hh>
#include <G4SystemOfUnits.hh>
#include <bxdecay0_g4/primary_generator_action.hh>
#include <bxdecay0_g4/unique_point_vertex_generator.hh>

#include "common/vh.h"

static long r10(double x) { return std::lround(x * 10.0); }

int main()
{
  std::unique_ptr<bxdecay0_g4::PrimaryGeneratorAction> act;
  std::unique_ptr<bxdecay0_g4::UniquePointVertexGenerator> upvg;
  std::string line;
  long n = 0;
  // the action and its messenger talk on stderr; keep stdout for the protocol
  while (std::getline(std::cin, line)) {
    if (line == "RESET") {
      act.reset();
      upvg.reset();
      act.reset(new bxdecay0_g4::PrimaryGeneratorAction(0));
      upvg.reset(new bxdecay0_g4::UniquePointVertexGenerator);
      continue;
    }
    if (!act) act.reset(new bxdecay0_g4::PrimaryGeneratorAction(0));
    if (!upvg) upvg.reset(new bxdecay0_g4::UniquePointVertexGenerator);
    int rc = -1;
    std::string exc;
    try {
      rc = g4stub::ui().apply(line);
    } catch (std::exception & e) {
      exc = e.what();
    }
    const auto & c = act->GetConfiguration();
    printf("{\"n\":%ld,\"rc\":%d,\"exc\":\"%s\",\"changed\":%s,\"verb\":%d,\"vtx\":[%ld,%ld,%ld],"
           "\"base\":{\"cat\":\"%s\",\"nuc\":\"%s\",\"seed\":%d,\"mode\":%d,\"level\":%d,\"emin\":%ld,\"emax\":%ld,\"dbg\":%s},"
           "\"mdl\":{\"use\":%s,\"name\":\"%s\",\"rank\":%d,\"lon\":%ld,\"col\":%ld,\"ap\":%ld,\"ap2\":%ld,\"eom\":%s}}\n",
           n++, rc, vh::json_escape(exc).c_str(), act->ConfigHasChanged() ? "true" : "false", (int)act->GetVerbosity(),
           std::lround(upvg->GetSourcePosition().x() / CLHEP::micrometer), std::lround(upvg->GetSourcePosition().y() / CLHEP::micrometer),
           std::lround(upvg->GetSourcePosition().z() / CLHEP::micrometer),
           vh::json_escape(c.decay_category).c_str(), vh::json_escape(c.nuclide).c_str(), (int)c.seed, (int)c.dbd_mode, (int)c.dbd_level,
           r10(c.dbd_min_energy_MeV), r10(c.dbd_max_energy_MeV), c.debug ? "true" : "false", c.use_mdl ? "true" : "false",
           vh::json_escape(c.mdl_target_name).c_str(), (int)c.mdl_target_rank, std::lround(c.mdl_cone_longitude), std::lround(c.mdl_cone_colatitude),
           std::lround(c.mdl_cone_aperture), r10(c.mdl_cone_aperture2), c.mdl_error_on_missing_particle ? "true" : "false");
  }
  return 0;
}
