// Replays the behaviours of spec/History.tla on real generator instances and event objects (properties C07, C08).
//   A <aid> <name> <args...>     Create g c | ResetReinit g c | Shoot g e s | ShootMany g e | Destroy g | EventReset e | EventPrefill e | EventCopy e
//   E <src> <aid> <dst>          (the model is deterministic: one successor per (state, action))
//   I <sid>
// After every Shoot the event must be bit-identical to Canon(cfg, stream): the event a fresh instance with the same
// configuration, a fresh event object and the same deviate stream yields.
// Modes: --cover (every (state, action) pair of the graph, online walk), --walks N --walklen L (seeded), --seqfile.
#include <algorithm>
#include <unistd.h>
#include <cstdio>
#include <chrono>
#include <map>
#include <memory>
#include <random>
#include <set>

#include <bxdecay0/decay0_generator.h>
#include <bxdecay0/mdl_event_op.h>

#include "common/vh.h"

using bxdecay0::decay0_generator;

struct Action
{
  std::string name;
  std::vector<std::string> a;
};
static std::vector<Action> actions;
static std::vector<std::map<int, int>> succ;
static int init_sid = -1;
static bool with_op = false;
// OpMode "shared" of History.tla: ONE operation object, kept by the caller, registered with every generator of the behaviour
static vh::ambient g_ambient0;   // captured in main() before the first library call
static bool shared_op = false;
// OpMode "pair": two operations whose order matters (first electron locked with a rotation of the whole event, then every gamma
// locked into another cone), registered in that order with every generator - each generator has objects of its own
static bool pair_op = false;
// OpMode "strict": one operation that REFUSES events lacking its target (second electron, error_on_missing_particle): a shot may
// end with an exception the caller catches; the next shot of the same generator is canonical all the same
static bool strict_op = false;
static std::shared_ptr<bxdecay0::momentum_direction_lock_event_op> the_shared_op;

static void configure(decay0_generator & g, const std::string & c_)
{
  // "Co60" | "Bi207" (background) | "<iso>.<level>.<mode>[@<lo>:<hi>]" (double beta, optional energy-sum window in MeV)
  std::string win;
  std::string c = c_;
  size_t at = c.find('@');
  if (at != std::string::npos) {
    win = c.substr(at + 1);
    c   = c.substr(0, at);
  }
  size_t p = c.find('.');
  if (p == std::string::npos) {
    g.set_decay_category(decay0_generator::DECAY_CATEGORY_BACKGROUND);
    g.set_decay_isotope(c);
  } else {
    size_t q = c.find('.', p + 1);
    g.set_decay_category(decay0_generator::DECAY_CATEGORY_DBD);
    g.set_decay_isotope(c.substr(0, p));
    g.set_decay_dbd_level(std::atoi(c.substr(p + 1, q - p - 1).c_str()));
    g.set_decay_dbd_mode((bxdecay0::dbd_mode_type)std::atoi(c.substr(q + 1).c_str()));
    if (!win.empty()) {
      size_t colon = win.find(':');
      g.set_decay_dbd_esum_range(std::atof(win.substr(0, colon).c_str()), std::atof(win.substr(colon + 1).c_str()));
    }
  }
  if (with_op && strict_op) {
    auto op = std::make_shared<bxdecay0::momentum_direction_lock_event_op>();
    op->set(bxdecay0::ELECTRON, 1, 0.0, 0.0, 1.0, 0.5, true);   // the SECOND electron: Co60 decays are refused, double-beta ones are not
    g.add_operation(op);
  } else if (with_op && pair_op) {
    auto op1 = std::make_shared<bxdecay0::momentum_direction_lock_event_op>();
    op1->set(bxdecay0::ELECTRON, 0, 0.3, 0.4, 0.866, 0.3, false);
    g.add_operation(op1);
    auto op2 = std::make_shared<bxdecay0::momentum_direction_lock_event_op>();
    op2->set(bxdecay0::GAMMA, -1, 1.0, 0.0, 0.0, 0.2, false);
    g.add_operation(op2);
  } else if (with_op && shared_op) {
    if (!the_shared_op) {
      the_shared_op = std::make_shared<bxdecay0::momentum_direction_lock_event_op>();
      the_shared_op->set(bxdecay0::GAMMA, 0, 0.0, 0.0, 1.0, 0.5, false);
    }
    g.add_operation(the_shared_op);
  } else if (with_op) {
    auto op = std::make_shared<bxdecay0::momentum_direction_lock_event_op>();
    op->set(bxdecay0::GAMMA, 0, 0.0, 0.0, 1.0, 0.5, false);
    g.add_operation(op);
  }
}

static uint64_t seed_of(const std::string & s) { return 1000003ULL * (uint64_t)std::atoi(s.c_str() + 1) + 17; }

static std::map<std::string, std::string> canon_cache;
static long n_canon = 0;
static std::string self_exe;
// the event a fresh instance with this configuration, a fresh event object and this deviate stream yields
static std::string canon_here(const std::string & cfg, const std::string & s)
{
  decay0_generator g;
  configure(g, cfg);
  vh::stream ip(99);
  g.initialize(ip);
  bxdecay0::event ev;
  vh::stream st(seed_of(s));
  try {
    g.shoot(st, ev);
  } catch (std::exception &) {
    if (!strict_op) throw;
    return "REFUSED";
  }
  return vh::fingerprint(ev);
}
// ... computed in a process of its own (exec of this program with --canon): nothing an earlier request may have left behind
// in this process - a static table, a cached maximum - can have touched it
static std::string canon(const std::string & cfg, const std::string & s)
{
  std::string k = cfg + "|" + s;
  auto it = canon_cache.find(k);
  if (it != canon_cache.end()) return it->second;
  n_canon++;
  std::string out;
  if (!self_exe.empty()) {
    std::string cmd = "'" + self_exe + "' --canon '" + cfg + "' '" + s + "'" + (strict_op ? " --strict-op" : pair_op ? " --pair-op" : with_op ? " --with-op" : "") + " 2>/dev/null";
    FILE * pf = popen(cmd.c_str(), "r");
    if (pf) {
      char buf[4096];
      while (size_t n = fread(buf, 1, sizeof buf, pf)) out.append(buf, n);
      pclose(pf);
    }
    size_t a = out.find("CANON<"), b = out.rfind(">CANON");
    if (a != std::string::npos && b != std::string::npos && b > a) {
      out = out.substr(a + 6, b - a - 6);
    } else {
      out.clear();
    }
  }
  if (out.empty()) out = canon_here(cfg, s);
  return canon_cache[k] = out;
}

struct Viol
{
  std::string key, what, seq;
};
static std::vector<Viol> viols;
static std::set<std::string> vkeys;
static long n_seq = 0, n_steps = 0, n_shoots = 0;

struct Runner
{
  std::map<std::string, std::unique_ptr<decay0_generator>> gens;
  std::map<std::string, std::string> gcfg;
  std::map<std::string, bxdecay0::event> evs;
  std::map<std::string, std::string> prevcfg;
  std::map<std::string, long> shots;
  std::vector<int> seq;
  int cur;
  bool dead = false;
  Runner() : cur(init_sid) { n_seq++; }
  std::string seqstr() const
  {
    std::string s;
    for (int a : seq) {
      s += (s.empty() ? "" : " ; ") + actions[a].name + "(";
      for (size_t i = 0; i < actions[a].a.size(); i++) s += (i ? "," : "") + actions[a].a[i];
      s += ")";
    }
    return s;
  }
  bool step(int aid)
  {
    if (dead) return false;
    auto it = succ[cur].find(aid);
    if (it == succ[cur].end()) return false;
    const Action & a = actions[aid];
    seq.push_back(aid);
    n_steps++;
    try {
      if (a.name == "Create") {
        gens[a.a[0]].reset(new decay0_generator);
        configure(*gens[a.a[0]], a.a[1]);
        vh::stream ip(99);
        gens[a.a[0]]->initialize(ip);
        gcfg[a.a[0]]  = a.a[1];
        shots[a.a[0]] = 0;
      } else if (a.name == "ResetReinit") {
        auto & g = *gens[a.a[0]];
        prevcfg[a.a[0]] = gcfg[a.a[0]];
        g.reset();
        configure(g, a.a[1]);
        vh::stream ip(99);
        g.initialize(ip);
        gcfg[a.a[0]]  = a.a[1];
        shots[a.a[0]] = 0;
      } else if (a.name == "Shoot") {
        vh::stream st(seed_of(a.a[2]));
        bxdecay0::event & ev = evs[a.a[1]];
        bool refused = false;
        try {
          gens[a.a[0]]->shoot(st, ev);
        } catch (std::exception &) {
          if (!strict_op) throw;
          refused = true;
        }
        shots[a.a[0]]++;
        n_shoots++;
        std::string got = refused ? std::string("REFUSED") : vh::fingerprint(ev), want = canon(gcfg[a.a[0]], a.a[2]);
        if (got != want) {
          std::string key = "history-dependent:" + gcfg[a.a[0]];
          if (vkeys.insert(key).second)
            viols.push_back({key,
                             "shot of " + gcfg[a.a[0]] + " with stream " + a.a[2] + " after " + std::to_string(shots[a.a[0]] - 1)
                               + " earlier shots (previous configuration of the slot: '" + prevcfg[a.a[0]] + "') differs from the canonical event: got "
                               + vh::short_event(ev),
                             seqstr()});
          dead = true;
        }
      } else if (a.name == "ShootMany") {
        vh::stream st(777);
        bxdecay0::event & ev = evs[a.a[1]];
        for (int i = 0; i < 1000; i++) {
          try {
            gens[a.a[0]]->shoot(st, ev);
          } catch (std::exception &) {
            if (!strict_op) throw;   // strict: the caller catches the refusal and goes on with the next decay
          }
        }
        shots[a.a[0]] += 1000;
      } else if (a.name == "Destroy") {
        gens.erase(a.a[0]);
      } else if (a.name == "EventReset") {
        evs[a.a[0]].reset();
      } else if (a.name == "EventCopy") {
        bxdecay0::event copy(evs[a.a[0]]);     // capacity of the particle list = its size
        evs[a.a[0]] = std::move(copy);
      } else if (a.name == "EventPrefill") {
        bxdecay0::event & ev = evs[a.a[0]];
        ev.set_generator("junk");
        ev.set_time(12345.0);
        for (int i = 0; i < 3; i++) {
          bxdecay0::particle p;
          p.set_code(bxdecay0::ALPHA);
          p.set_time(1.0 + i);
          p.set_momentum(1., 2., 3.);
          ev.add_particle(p);
        }
      }
    } catch (std::exception & e) {
      std::string key = "exception:" + a.name;
      if (vkeys.insert(key).second) viols.push_back({key, std::string("unexpected exception in ") + a.name + ": " + e.what(), seqstr()});
      dead = true;
    }
    // whatever the call did, the process-wide registers are as the harness set them up
    {
      std::string reg = g_ambient0.diff(vh::ambient::capture());
      if (!reg.empty()) {
        std::string key = "ambient:" + reg;
        if (vkeys.insert(key).second)
          viols.push_back({key, "after " + a.name + " the process-wide " + reg + " is not what it was before the first library call: a later call (of this or "
                                  "of any other instance) runs in an environment that depends on the calls made before", seqstr()});
        dead = true;
      }
    }
    cur = it->second;
    return true;
  }
};

// a handler of the application's own: "restored" has to mean restored to THIS one
static void app_gsl_handler(const char * reason, const char * file, int line, int gsl_errno)
{
  fprintf(stderr, "gsl: %s:%d: ERROR: %s (%d)\n", file, line, reason, gsl_errno);
  abort();
}

int main(int argc, char ** argv)
{
  // the application's own process-wide settings, all different from the start-up defaults where that changes no result
  std::setlocale(LC_ALL, "C.UTF-8");
  ::umask(027);
  gsl_set_error_handler(&app_gsl_handler);
  g_ambient0 = vh::ambient::capture();
  std::string graph;
  bool do_cover = false;
  long walks = 0, walklen = 10;
  uint64_t seed = 1;
  double budget = 60;
  size_t maxlen = 400;
  {
    char buf[4096];
    ssize_t n = readlink("/proc/self/exe", buf, sizeof buf - 1);
    if (n > 0) self_exe.assign(buf, (size_t)n);
  }
  for (int i = 1; i < argc; i++) {
    std::string a = argv[i];
    if (a == "--canon" && i + 2 < argc) {
      for (int j = i + 3; j < argc; j++) {
        if (std::string(argv[j]) == "--with-op") with_op = true;
        if (std::string(argv[j]) == "--pair-op") with_op = pair_op = true;
        if (std::string(argv[j]) == "--strict-op") with_op = strict_op = true;
      }
      std::string fp = canon_here(argv[i + 1], argv[i + 2]);
      std::cout << "CANON<" << fp << ">CANON" << std::endl;
      return 0;
    }
    if (a == "--graph") graph = argv[++i];
    else if (a == "--cover") do_cover = true;
    else if (a == "--walks") walks = std::atol(argv[++i]);
    else if (a == "--walklen") walklen = std::atol(argv[++i]);
    else if (a == "--seed") seed = std::strtoull(argv[++i], nullptr, 10);
    else if (a == "--budget") budget = std::atof(argv[++i]);
    else if (a == "--with-op") with_op = true;
    else if (a == "--shared-op") with_op = shared_op = true;
    else if (a == "--pair-op") with_op = pair_op = true;
    else if (a == "--strict-op") with_op = strict_op = true;
  }
  std::ifstream in(graph);
  std::string line;
  while (std::getline(in, line)) {
    std::istringstream ls(line);
    char t;
    ls >> t;
    if (t == 'A') {
      int id;
      Action a;
      ls >> id >> a.name;
      std::string x;
      while (ls >> x) a.a.push_back(x);
      if ((int)actions.size() <= id) actions.resize(id + 1);
      actions[id] = a;
    } else if (t == 'E') {
      int s, a, d;
      ls >> s >> a >> d;
      if ((int)succ.size() <= std::max(s, d)) succ.resize(std::max(s, d) + 1);
      succ[s][a] = d;
    } else if (t == 'I') {
      ls >> init_sid;
    }
  }
  auto deadline = std::chrono::steady_clock::now() + std::chrono::milliseconds((long)(budget * 1000));
  long covered = 0, total = 0;
  bool complete = true;
  if (do_cover) {
    std::set<std::pair<int, int>> todo;
    std::vector<int> remaining(succ.size(), 0);
    for (size_t s = 0; s < succ.size(); s++)
      for (auto & kv : succ[s]) { todo.insert({(int)s, kv.first}); remaining[s]++; }
    total = (long)todo.size();
    int stuck = 0;
    std::vector<int> pred_s(succ.size()), pred_a(succ.size()), stamp(succ.size(), 0);
    int epoch = 0;
    while (!todo.empty()) {
      if (std::chrono::steady_clock::now() > deadline) { complete = false; break; }
      Runner r;
      size_t before = todo.size();
      std::vector<int> plan;
      while (r.seq.size() < maxlen && !r.dead && !todo.empty()) {
        int s = r.cur;
        if (plan.empty() && remaining[s] > 0)
          for (auto & kv : succ[s])
            if (todo.count({s, kv.first})) { plan.push_back(kv.first); break; }
        if (plan.empty()) {
          epoch++;
          std::vector<int> q{s};
          stamp[s] = epoch; pred_s[s] = -1;
          int target = -1;
          for (size_t qi = 0; qi < q.size() && target < 0; qi++) {
            int u = q[qi];
            for (auto & kv : succ[u]) {
              int d = kv.second;
              if (stamp[d] == epoch) continue;
              stamp[d] = epoch; pred_s[d] = u; pred_a[d] = kv.first;
              q.push_back(d);
              if (remaining[d] > 0) { target = d; break; }
            }
          }
          if (target < 0) break;
          for (int u = target; pred_s[u] >= 0; u = pred_s[u]) plan.push_back(pred_a[u]);
        }
        int pick = plan.back();
        plan.pop_back();
        if (todo.erase({r.cur, pick})) remaining[r.cur]--;
        if (!r.step(pick)) break;
      }
      if (todo.size() == before) { if (++stuck > 3) { complete = false; break; } } else stuck = 0;
    }
    covered = total - (long)todo.size();
  } else if (walks > 0) {
    std::mt19937_64 rng(seed);
    for (long w = 0; w < walks; w++) {
      if ((w & 63) == 0 && std::chrono::steady_clock::now() > deadline) { complete = false; break; }
      Runner r;
      for (long i = 0; i < walklen && !r.dead; i++) {
        auto & m = succ[r.cur];
        if (m.empty()) break;
        auto it = m.begin();
        std::advance(it, rng() % m.size());
        r.step(it->first);
      }
    }
  }
  std::cout << "{\"sequences\":" << n_seq << ",\"steps\":" << n_steps << ",\"shoots\":" << n_shoots << ",\"canon\":" << n_canon
            << ",\"pairs_total\":" << total << ",\"pairs_covered\":" << covered << ",\"complete\":" << (complete ? "true" : "false") << ",\"violations\":[";
  for (size_t i = 0; i < viols.size(); i++)
    std::cout << (i ? "," : "") << "{\"key\":\"" << vh::json_escape(viols[i].key) << "\",\"what\":\"" << vh::json_escape(viols[i].what) << "\",\"seq\":\""
              << vh::json_escape(viols[i].seq) << "\"}";
  std::cout << "]}" << std::endl;
  return 0;
}
