// C13 oracle: what the *library API* yields for the settings of a bxdecay0-run command line.
//
// Reads jobs (one per line) from the file given as argv[1], writes into the directory argv[2]:
//   <id>.d0t  the records "id time nuclide / np / particles / blank", produced with decay0_generator + std_random
//             seeded like the program documents (std::default_random_engine(seed)), event::store at the file's precision;
//             with an activity, the decay time is an exponential deviate drawn from the same engine after each shoot
//   <id>.set  key=value: the settings in effect, read back through the getters of the generator
//   <id>.err  the API refused the configuration (message)
// Job line:  id cat nuclide level mode emin emax seed n activity label rank phi theta aperture
//   cat = dbd|background ; emin/emax/activity = "nan" when not given ; label = "-" when no MDL option is used,
//   "''" for an MDL option group without particle label.
#include <cmath>
#include <fstream>
#include <iostream>
#include <limits>
#include <memory>
#include <random>
#include <sstream>
#include <string>

#include <bxdecay0/bb_utils.h>
#include <bxdecay0/decay0_generator.h>
#include <bxdecay0/event.h>
#include <bxdecay0/mdl_event_op.h>
#include <bxdecay0/std_random.h>

static double num(const std::string & s)
{
  if (s == "nan") return std::numeric_limits<double>::quiet_NaN();
  return std::stod(s);
}

int main(int argc, char ** argv)
{
  if (argc < 3) {
    std::cerr << "usage: driver_oracle <jobs> <outdir>\n";
    return 2;
  }
  std::ifstream jobs(argv[1]);
  std::string outdir = argv[2];
  std::string line;
  int njobs = 0, nerr = 0;
  while (std::getline(jobs, line)) {
    if (line.empty()) continue;
    std::istringstream in(line);
    std::string id, cat, nuclide, semin, semax, sact, label;
    int level, mode, rank;
    unsigned int seed;
    unsigned long n;
    std::string sphi, stheta, sap;
    in >> id >> cat >> nuclide >> level >> mode >> semin >> semax >> seed >> n >> sact >> label >> rank >> sphi >> stheta >> sap;
    if (!in) {
      std::cerr << "driver_oracle: bad job line: " << line << "\n";
      return 2;
    }
    njobs++;
    const double emin = num(semin), emax = num(semax), activity = num(sact);
    const bool window = !std::isnan(emin) || !std::isnan(emax);
    std::ostringstream rec, set;
    rec.precision(15);
    set.precision(15);
    try {
      std::default_random_engine engine(seed);
      bxdecay0::std_random prng(engine);
      bxdecay0::decay0_generator gen;
      const bool dbd = cat == "dbd";
      gen.set_decay_category(dbd ? bxdecay0::decay0_generator::DECAY_CATEGORY_DBD
                                 : bxdecay0::decay0_generator::DECAY_CATEGORY_BACKGROUND);
      gen.set_decay_isotope(nuclide);
      if (dbd) {
        gen.set_decay_dbd_level(level);
        gen.set_decay_dbd_mode(static_cast<bxdecay0::dbd_mode_type>(mode));
        if (window) {
          gen.set_decay_dbd_esum_range(std::isnan(emin) ? 0.0 : emin, std::isnan(emax) ? 5000.0 : emax);
        }
      }
      bxdecay0::momentum_direction_lock_event_op::config_type mc;
      if (label != "-") {
        mc.particle_label       = (label == "''") ? std::string() : label;
        mc.target_particle_rank = rank;
        mc.cone_phi_degree      = num(sphi);
        mc.cone_theta_degree    = num(stheta);
        mc.cone_aperture_degree = num(sap);
        auto * mdl = new bxdecay0::momentum_direction_lock_event_op(false);
        bxdecay0::event_op_ptr op(mdl);
        mdl->set(mc);
        gen.add_operation(op);
      }
      gen.initialize(prng);

      set << "decay-category=" << bxdecay0::decay0_generator::decay_category_to_label(gen.get_decay_category()) << "\n";
      set << "nuclide=" << gen.get_decay_isotope() << "\n";
      set << "seed=" << seed << "\n";
      set << "nb-events=" << n << "\n";
      if (!std::isnan(activity)) set << "activity-Bq=" << activity << "\n";
      if (dbd) {
        set << "dbd-daughter-level=" << gen.get_decay_dbd_level() << "\n";
        set << "dbd-mode=" << static_cast<int>(gen.get_decay_dbd_mode()) << "\n";
        if (gen.has_decay_dbd_esum_range()) {
          set << "erange-min-energy-MeV=" << gen.get_decay_dbd_esum_range_lower() << "\n";
          set << "erange-max-energy-MeV=" << gen.get_decay_dbd_esum_range_upper() << "\n";
          set << "erange-toallevents=" << gen.get_bb_params().toallevents << "\n";
        }
      }
      if (label != "-") {
        set << "mdl.particle_label=" << mc.particle_label << "\n";
        set << "mdl.target_particle_rank=" << mc.target_particle_rank << "\n";
        set << "mdl.cone_phi_degree=" << mc.cone_phi_degree << "\n";
        set << "mdl.cone_theta_degree=" << mc.cone_theta_degree << "\n";
        set << "mdl.cone_aperture_degree=" << mc.cone_aperture_degree << "\n";
      }

      std::exponential_distribution<> timer(std::isnan(activity) ? 1.0 : activity);
      bxdecay0::event ev;
      for (unsigned long i = 0; i < n; i++) {
        gen.shoot(prng, ev);
        double t = 0.0;
        if (!std::isnan(activity)) t = timer(engine);
        ev.set_time(t);
        rec << i << ' ';
        ev.store(rec, bxdecay0::event::STORE_EVENT_TIME);
        rec << '\n';
        ev.reset();
      }
      std::ofstream(outdir + "/" + id + ".d0t", std::ios::binary) << rec.str();
      std::ofstream(outdir + "/" + id + ".set", std::ios::binary) << set.str();
    } catch (std::exception & e) {
      nerr++;
      std::ofstream(outdir + "/" + id + ".err") << e.what() << "\n";
    }
  }
  std::cout << "{\"jobs\": " << njobs << ", \"refused\": " << nerr << "}" << std::endl;
  return 0;
}
