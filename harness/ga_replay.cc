// Conformance of the real gA code with spec/GaCodec.tla and spec/GaSampler.tla (property C14).
//
// For every dataset of the job file (written by checks/c14.py; the files themselves were written by the real
// Python encoder resources/data/dbd_gA/tools/mkocdfdata.py into <root>/data/dbd_gA/<version>/<nuclide>/<process>/):
//  1. every table line of tab_ocdf.data is decoded with the real bxdecay0::load_optimized_cdf_array and compared
//     with the expected table: family 1 = the table GaCodec's decoder yields for that line (float noise only),
//     family 2 = the values the encoder was given (to the encoding precision: half a unit of the 7th significant
//     digit after the run of nines, plus float noise); non-decreasing, in [0,1], ending at 1;
//  2. a real dbd_gA loads the dataset (inverse transform method) and shoot_e1_e2 is driven with scripted deviates
//     on, one ulp around and between all table values (and the deviate 0): the pair must lie in the cell the
//     cumulative tables select (family 1: the cell GaSampler.tla selects, exported by TLC), be >= 0, sum <= Qbb,
//     and be non-decreasing in each deviate;
//  3. shoot() must deliver two electrons with those kinetic energies and the sampled cos(theta12);
//  4. the rejection method on tab_pdf.data: bounds and event, random deviates plus the corners of the triangle
//     (family 3: hand-written tab_pdf.data whose grid exceeds Qbb, zero density beyond it).
// Output: one JSON line.
#include <algorithm>
#include <cfloat>
#include <cstdlib>
#include <cstring>
#include <map>
#include <set>
#include <stdexcept>

#include <bxdecay0/dbd_gA.h>
#include <bxdecay0/particle_utils.h>

#include "common/vh.h"

using bxdecay0::dbd_gA;

static const double TOL_E    = 1e-12;   // MeV, float noise allowed on energies / cell edges / sums
static const double TOL_DEC  = 4.5e-16; // two ulps of 1.0: float noise of "bias + digits * 10^-(k+1)"
static const double TOL_KIN  = 1e-11;   // MeV (+ relative), kinetic energy recomputed from a rotated momentum
static const double TOL_COS  = 1e-9;

struct Violation
{
  std::string key, what, ds;
};
static std::vector<Violation> violations;
static std::map<std::string, long> vcount;
static std::map<std::string, long> counters;
static std::vector<std::string> samples;

static void violate(const std::string & key, const std::string & ds, const std::string & what)
{
  if (vcount[key]++ < 3) {
    violations.push_back({key, what, ds});
  }
}

static std::string fmt(double x)
{
  char b[64];
  std::snprintf(b, sizeof b, "%.17g", x);
  return b;
}

// the selection function exported by TLC for GaSampler: (table of ranks, deviate) -> 1-based cell
static std::map<std::vector<int>, int> picks;

struct Dataset
{
  std::string id, version, nuclide, process;
  int family = 0, n = 0, M = 0, nevent = 0, nrej = 0, nrand = 0;
  uint64_t seed = 1;
  double emin = 0, emax = 0, qbb = 0;
  std::vector<double> P;                   // family 1: probability of each rank
  std::vector<std::vector<int>> ranks;     // family 1: ranks of each line
  std::vector<std::vector<double>> expect; // expected table per line
};

static dbd_gA::process_type proc_of(const std::string & s)
{
  if (s == "g0") return dbd_gA::PROCESS_G0;
  if (s == "g2") return dbd_gA::PROCESS_G2;
  if (s == "g22") return dbd_gA::PROCESS_G22;
  if (s == "g4") return dbd_gA::PROCESS_G4;
  throw std::runtime_error("bad process " + s);
}

// table lines of a tab_ocdf.data file, as the format documents them: '#' comments and blank lines skipped,
// first the energy sum, then the sampling header, then one table per line
static std::vector<std::string> table_lines(const std::string & path)
{
  std::ifstream f(path.c_str());
  if (!f) {
    throw std::runtime_error("cannot open " + path);
  }
  std::vector<std::string> out;
  std::string line;
  int seen = 0;
  while (std::getline(f, line)) {
    std::istringstream is(line);
    std::string w;
    is >> w;
    if (w.empty() || w[0] == '#') {
      continue;
    }
    if (seen++ < 2) {
      continue;
    }
    out.push_back(line);
  }
  return out;
}

// number of leading nines as the documented encoder classifies a value (16 = "one")
static int nines_class(double c)
{
  static const double th[16] = {0.9, 0.99, 0.999, 0.9999, 0.99999, 0.999999, 0.9999999, 0.99999999, 0.999999999,
                                0.9999999999, 0.99999999999, 0.999999999999, 0.9999999999999, 0.99999999999999,
                                0.999999999999999, 0.9999999999999999};
  for (int k = 0; k < 16; k++) {
    if (c < th[k]) {
      return k;
    }
  }
  return 16;
}

// first index with r <= c[k] (0-based), -1 if none: the cell the statement calls "selected by the deviate"
static int cell_of(const std::vector<double> & c, double r)
{
  for (size_t k = 0; k < c.size(); k++) {
    if (r <= c[k]) {
      return (int)k;
    }
  }
  return -1;
}

struct Cand
{
  double r;
  int model_r; // family 1: the deviate of GaSampler this real deviate stands for, -1 otherwise
};

// rank bracket of a real deviate: r = P[c] -> 2c ; P[c] < r < P[c+1] -> 2c+1
static int classify(double r, const std::vector<double> & P)
{
  int m = -1;
  for (size_t k = 0; k + 1 < P.size(); k++) {
    if (r == P[k]) {
      m = 2 * (int)k;
    } else if (r > P[k] && r < P[k + 1]) {
      m = 2 * (int)k + 1;
    }
  }
  return m;
}

// deviates on, one ulp around and between the grid values; grid holds 0 and 1
static std::vector<Cand> candidates(std::vector<double> grid, const std::vector<double> & P, vh::stream & rnd, int nrand)
{
  std::sort(grid.begin(), grid.end());
  grid.erase(std::unique(grid.begin(), grid.end()), grid.end());
  std::vector<double> rs;
  for (size_t k = 0; k < grid.size(); k++) {
    double v = grid[k];
    if (v < 1.0) {
      rs.push_back(v);
      rs.push_back(std::nextafter(v, 2.0));
    }
    if (v > 0.0) {
      rs.push_back(std::nextafter(v, -1.0));
    }
    if (k + 1 < grid.size()) {
      rs.push_back(v + 0.5 * (grid[k + 1] - v));
    }
  }
  for (int k = 0; k < nrand; k++) {
    rs.push_back(rnd());
  }
  std::sort(rs.begin(), rs.end());
  rs.erase(std::unique(rs.begin(), rs.end()), rs.end());
  std::vector<Cand> out;
  for (double r : rs) {
    if (!(r >= 0.0 && r < 1.0)) {
      continue;
    }
    out.push_back(Cand{r, classify(r, P)});
  }
  return out;
}

static int model_pick(const std::vector<int> & tab, int r)
{
  std::vector<int> key(tab);
  key.push_back(r);
  auto it = picks.find(key);
  if (it == picks.end()) {
    throw std::runtime_error("no PICK exported by the model for this table / deviate");
  }
  return it->second;
}

static double kinetic(const bxdecay0::particle & p)
{
  const double m = bxdecay0::decay0_emass();
  double q2      = p.get_px() * p.get_px() + p.get_py() * p.get_py() + p.get_pz() * p.get_pz();
  // sqrt(q2 + m^2) - m without cancellation
  return q2 / (std::sqrt(q2 + m * m) + m);
}

// shoot() with the two leading deviates scripted: the event must hold two electrons with the energies
// shoot_e1_e2 gives for the same deviates and the opening angle drawn by the angular sampler
static void check_event(dbd_gA & g, const Dataset & d, const std::string & method, const std::vector<double> & lead,
                        uint64_t seed)
{
  vh::scripted s1(seed), s2(seed);
  s1.plan = lead;
  s2.plan = lead;
  s1.max_draws = s2.max_draws = 2000000;
  double e1 = 0, e2 = 0;
  bxdecay0::event ev;
  try {
    g.shoot_e1_e2(s1, e1, e2);
    g.shoot(s2, ev);
  } catch (std::exception & x) {
    violate("event:" + method + ":throw", d.id, std::string("shoot threw: ") + x.what());
    return;
  }
  counters["events_checked"]++;
  size_t used = s1.log.size(); // deviates of the energy sampler
  if (s2.log.size() < used + 5) {
    violate("event:" + method + ":draws", d.id, "shoot consumed fewer deviates than energies + angle + rotation need");
    return;
  }
  const auto & ps = ev.get_particles();
  if (ps.size() != 2) {
    violate("event:" + method + ":count", d.id, "event has " + std::to_string(ps.size()) + " particles, expected 2");
    return;
  }
  if (!ps[0].is_electron() || !ps[1].is_electron()) {
    violate("event:" + method + ":species", d.id, "event particles are not two electrons: " + vh::short_event(ev));
    return;
  }
  double k1 = kinetic(ps[0]), k2 = kinetic(ps[1]);
  if (!(std::fabs(k1 - e1) <= TOL_KIN + 1e-11 * e1) || !(std::fabs(k2 - e2) <= TOL_KIN + 1e-11 * e2)) {
    violate("event:" + method + ":kinetic-energy", d.id,
            "sampled (e1,e2)=(" + fmt(e1) + "," + fmt(e2) + ") but the event's electrons carry (" + fmt(k1) + ","
                + fmt(k2) + ") MeV");
  }
  if (e1 > 1e-9 && e2 > 1e-9) {
    // the angular sampler draws (p, u) pairs and keeps cos12 = 1 - 2u of the accepted pair, then the rotation
    // takes three deviates: the accepted u is the 4th deviate from the end
    double cos_drawn = 1.0 - 2.0 * s2.log[s2.log.size() - 4];
    double dotp      = ps[0].get_px() * ps[1].get_px() + ps[0].get_py() * ps[1].get_py() + ps[0].get_pz() * ps[1].get_pz();
    double cos_ev    = dotp / (ps[0].get_p() * ps[1].get_p());
    // independent second opinion: the public angular sampler fed the same deviates
    vh::scripted s3(seed);
    s3.plan.assign(s2.log.begin() + used, s2.log.end());
    double cos_api = 2.0;
    g.shoot_cos_theta(s3, e1, e2, cos_api);
    if (!(std::fabs(cos_ev - cos_drawn) <= TOL_COS) || !(std::fabs(cos_api - cos_drawn) <= TOL_COS)) {
      violate("event:" + method + ":cos12", d.id,
              "sampled cos12=" + fmt(cos_drawn) + " (shoot_cos_theta: " + fmt(cos_api) + ") but the event's momenta give "
                  + fmt(cos_ev));
    }
    counters["angles_checked"]++;
  }
  if (samples.size() < 6) {
    samples.push_back("ds " + d.id + " " + method + " lead deviates (" + (lead.size() > 0 ? fmt(lead[0]) : "") + ","
                      + (lead.size() > 1 ? fmt(lead[1]) : "") + ") -> e1=" + fmt(e1) + " e2=" + fmt(e2) + " ; "
                      + vh::short_event(ev));
  }
}

static void run_dataset(const Dataset & d, const std::string & root, bool do_rej, bool do_itm)
{
  const std::string dir = root + "/data/dbd_gA/" + d.version + "/" + d.nuclide + "/" + d.process;
  counters["datasets"]++;
  std::vector<std::vector<double>> tabs;
  bool tables_ok = true;
  std::vector<double> P(d.P); // family 1: probability of each rank, as decoded wherever the rank occurs
  std::vector<bool> Pset(P.size(), false);
  if (d.family == 3) {
    do_itm = false; // p.d.f.-only dataset (grid larger than the allowed triangle, zero beyond Qbb)
  }
  if (do_itm) {
    // ---- 1. the decoder
    std::vector<std::string> lines = table_lines(dir + "/tab_ocdf.data");
    if ((int)lines.size() != d.n + 1 || (int)d.expect.size() != d.n + 1) {
      throw std::runtime_error("dataset " + d.id + ": " + std::to_string(lines.size()) + " table lines, expected "
                               + std::to_string(d.n + 1));
    }
    for (int l = 0; l <= d.n; l++) {
      std::vector<double> dec;
      try {
        bxdecay0::load_optimized_cdf_array(lines[l], dec);
      } catch (std::exception & x) {
        violate("codec:decode-throws", d.id, "line <" + lines[l] + "> written by the encoder is refused: " + x.what());
        tables_ok = false;
        tabs.push_back(dec);
        continue;
      }
      const std::vector<double> & ex = d.expect[l];
      counters["lines_decoded"]++;
      if (dec.size() != ex.size()) {
        violate("codec:decode-count", d.id,
                "line <" + lines[l] + "> decodes to " + std::to_string(dec.size()) + " values, encoder wrote "
                    + std::to_string(ex.size()));
        tables_ok = false;
        tabs.push_back(dec);
        continue;
      }
      for (size_t k = 0; k < dec.size(); k++) {
        counters["values_decoded"]++;
        int cls    = nines_class(ex[k]);
        double tol = TOL_DEC;
        if (d.family == 2) {
          // encoding precision: 7 significant digits of (c - 0.9..9); plus the noise of computing that difference
          double bias = cls >= 16 ? 1.0 : 1.0 - std::pow(10.0, -cls);
          tol         = 5.0e-7 * std::fabs(ex[k] - bias) * 1.000001 + 7e-16;
        }
        if (!(std::fabs(dec[k] - ex[k]) <= tol)) {
          violate("codec:decode-differs:class=" + std::to_string(cls), d.id,
                  "value #" + std::to_string(k) + " of line <" + lines[l] + ">: encoder was given " + fmt(ex[k])
                      + ", decoder yields " + fmt(dec[k]) + " (tolerance " + fmt(tol) + ")");
          tables_ok = false;
        }
        if (!(dec[k] >= 0.0 && dec[k] <= 1.0)) {
          violate("codec:out-of-unit-interval", d.id, "decoded value " + fmt(dec[k]) + " in line <" + lines[l] + ">");
          tables_ok = false;
        }
        if (k > 0 && !(dec[k] >= dec[k - 1] - TOL_DEC)) { // same float noise as above (a value rounded up to the class
                                                           // boundary, "^7 9", may sit one ulp above "^8 0")
          violate("codec:not-monotone", d.id, "decoded table decreases at #" + std::to_string(k) + " in line <" + lines[l] + ">");
          tables_ok = false;
        }
      }
      if (!dec.empty() && ex.back() == 1.0 && dec.back() != 1.0) {
        violate("codec:last-not-one", d.id, "table ends at " + fmt(dec.back()) + " in line <" + lines[l] + ">");
        tables_ok = false;
      }
      if (d.family == 1) {
        // deviates "on a table value" must be the decoded doubles themselves; one rank = one double
        for (size_t k = 0; k < dec.size(); k++) {
          int rk = d.ranks[l][k];
          if (Pset[rk] && P[rk] != dec[k]) {
            violate("codec:decode-inconsistent", d.id, "the same token decodes to " + fmt(P[rk]) + " and " + fmt(dec[k]));
            tables_ok = false;
          }
          P[rk]    = dec[k];
          Pset[rk] = true;
        }
      }
      tabs.push_back(dec);
    }
    for (size_t k = 0; k + 1 < P.size(); k++) {
      if (!(P[k] < P[k + 1])) {
        if (tables_ok) {
          throw std::runtime_error("dataset " + d.id + ": rank probabilities not strictly increasing after decoding");
        }
      }
    }
  }

  const double step = (d.emax - d.emin) / (d.n - 1);
  auto E            = [&](int k) { return k < 0 ? 0.0 : d.emin + k * step; }; // upper edge of 0-based cell k

  // ---- 2. inverse transform sampler
  if (do_itm && tables_ok) {
    dbd_gA g;
    bool ok = true;
    try {
      g.set_dataset_version(d.version);
      g.set_nuclide(d.nuclide);
      g.set_process(proc_of(d.process));
      g.set_shooting(dbd_gA::SHOOTING_INVERSE_TRANSFORM_METHOD);
      g.initialize();
    } catch (std::exception & x) {
      violate("init:itm:throws", d.id, std::string("well-formed tab_ocdf.data refused: ") + x.what());
      ok = false;
    }
    if (ok) {
      counters["datasets_itm"]++;
      vh::stream rnd(d.seed);
      std::vector<double> grid1(tabs[0]);
      grid1.push_back(0.0);
      grid1.push_back(1.0);
      grid1.insert(grid1.end(), P.begin(), P.end());
      std::vector<Cand> c1 = candidates(grid1, P, rnd, d.nrand);
      double prev_e1       = -1.0;
      std::set<int> swept;
      for (const Cand & a : c1) {
        int i = cell_of(tabs[0], a.r);
        if (i < 0) {
          throw std::runtime_error("dataset " + d.id + ": first table does not end at 1");
        }
        if (d.family == 1) {
          if (a.model_r < 0) {
            throw std::runtime_error("dataset " + d.id + ": deviate without model class");
          }
          int mi = model_pick(d.ranks[0], a.model_r) - 1;
          if (mi != i) {
            throw std::runtime_error("dataset " + d.id + ": rank mapping broken (model cell " + std::to_string(mi)
                                     + ", definition " + std::to_string(i) + ")");
          }
        }
        const std::vector<double> & row = tabs[1 + i];
        // second deviates: all candidates of the selected row for the first candidate of each model class /
        // cell, one mid-row deviate otherwise
        std::vector<Cand> c2;
        int sweep_key = d.family == 1 ? a.model_r : i;
        if (!swept.count(sweep_key) || a.r == tabs[0][i]) {
          swept.insert(sweep_key);
          std::vector<double> grid2(row);
          grid2.push_back(0.0);
          grid2.push_back(1.0);
          grid2.insert(grid2.end(), P.begin(), P.end());
          c2 = candidates(grid2, P, rnd, d.nrand);
        } else {
          double r2 = P.empty() ? 0.5 : 0.5 * (P[P.size() - 2] + 1.0);
          c2.push_back(Cand{r2, classify(r2, P)});
        }
        double prev_e2 = -1.0;
        double e1_here = std::numeric_limits<double>::quiet_NaN();
        for (const Cand & b : c2) {
          int j = cell_of(row, b.r);
          if (j < 0) {
            throw std::runtime_error("dataset " + d.id + ": a row does not end at 1");
          }
          if (d.family == 1) {
            int mj = model_pick(d.ranks[1 + i], b.model_r) - 1;
            if (mj != j) {
              throw std::runtime_error("dataset " + d.id + ": rank mapping broken in a row");
            }
          }
          vh::scripted src(d.seed);
          src.plan = {a.r, b.r};
          double e1 = 0, e2 = 0;
          counters["pairs"]++;
          if (d.family == 1) counters["pairs_model_datasets"]++;
          std::string at = " at (r1,r2)=(" + fmt(a.r) + "," + fmt(b.r) + "), cells (" + std::to_string(i) + ","
                           + std::to_string(j) + ") of tables <" + std::to_string(tabs[0].size()) + ">,<"
                           + std::to_string(row.size()) + ">";
          try {
            g.shoot_e1_e2(src, e1, e2);
          } catch (std::exception & x) {
            violate("sampler:itm:throws", d.id, std::string("shoot_e1_e2 threw ") + x.what() + at);
            continue;
          }
          auto edge = [&](const std::vector<double> & t, int, double r) {
            return r == 0.0 && t[0] == 0.0;
          };
          if (!std::isfinite(e1)) {
            violate(edge(tabs[0], i, a.r) ? "sampler:itm:not-finite:r=0:zero-width-first-cell" : "sampler:itm:e1:not-finite",
                    d.id, "e1=" + fmt(e1) + at);
          } else {
            if (e1 < 0.0) violate("sampler:itm:e1:negative", d.id, "e1=" + fmt(e1) + at);
            if (!(e1 >= E(i - 1) - TOL_E && e1 <= E(i) + TOL_E)) {
              violate("sampler:itm:e1:outside-cell", d.id,
                      "e1=" + fmt(e1) + " not in [" + fmt(E(i - 1)) + "," + fmt(E(i)) + "]" + at);
            }
            if (std::isnan(e1_here)) {
              e1_here = e1;
              if (e1 < prev_e1 - TOL_E) {
                violate("sampler:itm:e1:not-monotone", d.id, "e1 drops from " + fmt(prev_e1) + " to " + fmt(e1) + at);
              }
              prev_e1 = e1;
            } else if (e1 != e1_here) {
              violate("sampler:itm:e1:depends-on-r2", d.id, "e1 changes with the second deviate" + at);
            }
          }
          if (!std::isfinite(e2)) {
            violate(edge(row, j, b.r) ? "sampler:itm:not-finite:r=0:zero-width-first-cell" : "sampler:itm:e2:not-finite",
                    d.id, "e2=" + fmt(e2) + at);
          } else {
            if (e2 < 0.0) violate("sampler:itm:e2:negative", d.id, "e2=" + fmt(e2) + at);
            if (!(e2 >= E(j - 1) - TOL_E && e2 <= E(j) + TOL_E)) {
              violate("sampler:itm:e2:outside-cell", d.id,
                      "e2=" + fmt(e2) + " not in [" + fmt(E(j - 1)) + "," + fmt(E(j)) + "]" + at);
            }
            if (e2 < prev_e2 - TOL_E) {
              violate("sampler:itm:e2:not-monotone", d.id, "e2 drops from " + fmt(prev_e2) + " to " + fmt(e2) + at);
            }
            prev_e2 = e2;
          }
          if (std::isfinite(e1) && std::isfinite(e2) && !(e1 + e2 <= d.qbb + TOL_E)) {
            violate("sampler:itm:sum-above-max", d.id, "e1+e2=" + fmt(e1 + e2) + " > " + fmt(d.qbb) + at);
          }
          if (src.log.size() != 2) {
            violate("sampler:itm:draws", d.id, "shoot_e1_e2 consumed " + std::to_string(src.log.size()) + " deviates" + at);
          }
        }
      }
      // events
      for (int k = 0; k < d.nevent; k++) {
        double r1 = c1[(size_t)(rnd() * c1.size()) % c1.size()].r;
        double r2 = rnd();
        if (k == 0) {
          r1 = rnd();
        }
        if (r1 <= 0.0) {
          r1 = 0.5;
        }
        check_event(g, d, "itm", {r1, r2}, d.seed + 17 * k + 1);
      }
    }
  }

  // ---- 3b. object re-use: ONE dbd_gA object serves every dataset of the job in turn (reset, other nuclide / process / shooting
  //      method, initialise again) and must shoot exactly what a fresh object shoots on the same deviates
  if (do_itm && tables_ok) {
    static dbd_gA reused;
    static long nreuse = 0;
    bool rej = do_rej && d.nrej > 0 && (nreuse % 2 == 1);
    dbd_gA fresh;
    bool ok = true;
    try {
      if (reused.is_initialized()) reused.reset();
      for (dbd_gA * g : {&reused, &fresh}) {
        g->set_dataset_version(d.version);
        g->set_nuclide(d.nuclide);
        g->set_process(proc_of(d.process));
        g->set_shooting(rej ? dbd_gA::SHOOTING_REJECTION : dbd_gA::SHOOTING_INVERSE_TRANSFORM_METHOD);
        g->initialize();
      }
    } catch (std::exception & x) {
      violate("reuse:init:throws", d.id, std::string("a dbd_gA object that served another dataset before cannot be reset and initialised again: ") + x.what());
      ok = false;
    }
    nreuse++;
    for (int k = 0; ok && k < 24; k++) {
      vh::scripted s1(d.seed * 131 + k), s2(d.seed * 131 + k);
      s1.max_draws = s2.max_draws = 3000000;
      double a1 = 0, a2 = 0, b1 = 0, b2 = 0;
      try {
        reused.shoot_e1_e2(s1, a1, a2);
        fresh.shoot_e1_e2(s2, b1, b2);
      } catch (std::exception & x) {
        violate("reuse:shoot:throws", d.id, x.what());
        break;
      }
      counters["reuse_shots"]++;
      if (std::memcmp(&a1, &b1, sizeof a1) != 0 || std::memcmp(&a2, &b2, sizeof a2) != 0 || s1.log.size() != s2.log.size()) {
        violate("reuse:history-dependent", d.id,
                "a dbd_gA object re-initialised for this dataset after serving others shoots (" + fmt(a1) + "," + fmt(a2) + ") with "
                  + std::to_string(s1.log.size()) + " deviates, a fresh object (" + fmt(b1) + "," + fmt(b2) + ") with " + std::to_string(s2.log.size()));
        break;
      }
    }
  }

  // ---- 4. rejection sampler on tab_pdf.data
  if (do_rej && d.nrej > 0) {
    dbd_gA g;
    bool ok = true;
    try {
      g.set_dataset_version(d.version);
      g.set_nuclide(d.nuclide);
      g.set_process(proc_of(d.process));
      g.set_shooting(dbd_gA::SHOOTING_REJECTION);
      g.initialize();
    } catch (std::exception & x) {
      violate("init:rejection:throws", d.id, std::string("well-formed tab_pdf.data refused: ") + x.what());
      ok = false;
    }
    if (ok) {
      counters["datasets_rejection"]++;
      const double eps = 1.0 / 9007199254740992.0; // 2^-53
      std::vector<std::vector<double>> corners = {{0.0, 0.0, 0.0},           {1.0 - eps, 0.0, 0.0}, {0.0, 1.0 - eps, 0.0},
                                                  {0.5, 0.5, 0.0},           {1.0 - eps, eps, 0.0}, {eps, 1.0 - eps, 0.0},
                                                  {1.0 - eps, 1.0 - eps, 0.0}};
      for (int k = 0; k < d.nrej + (int)corners.size(); k++) {
        vh::scripted src(d.seed * 31 + k);
        src.max_draws = 3000000;
        if (k < (int)corners.size()) {
          src.plan = corners[k];
        }
        double e1 = 0, e2 = 0;
        counters["rejection_shots"]++;
        try {
          g.shoot_e1_e2(src, e1, e2);
        } catch (std::exception & x) {
          violate("sampler:rejection:no-termination", d.id, std::string("shoot_e1_e2: ") + x.what());
          break;
        }
        std::string at = " (shot " + std::to_string(k) + ", first deviates " + fmt(src.log[0]) + "," + fmt(src.log[1]) + ")";
        if (!std::isfinite(e1) || !std::isfinite(e2)) {
          violate("sampler:rejection:not-finite", d.id, "e1=" + fmt(e1) + " e2=" + fmt(e2) + at);
          continue;
        }
        if (e1 < 0.0 || e2 < 0.0) {
          violate("sampler:rejection:negative", d.id, "e1=" + fmt(e1) + " e2=" + fmt(e2) + at);
        }
        if (!(e1 + e2 <= d.qbb + TOL_E)) {
          violate("sampler:rejection:sum-above-max", d.id, "e1+e2=" + fmt(e1 + e2) + " > " + fmt(d.qbb) + at);
        }
        if (!(e1 >= d.emin - TOL_E && e1 <= d.emax + TOL_E && e2 >= d.emin - TOL_E && e2 <= d.emax + TOL_E)) {
          violate("sampler:rejection:outside-table", d.id, "e1=" + fmt(e1) + " e2=" + fmt(e2) + at);
        }
      }
      vh::stream rnd(d.seed + 5);
      for (int k = 0; k < std::min(d.nevent, 2); k++) {
        check_event(g, d, "rejection", {rnd(), 0.25 * rnd()}, d.seed + 29 * k + 3);
      }
    }
  }
}

int main(int argc, char ** argv)
{
  std::string job, root;
  bool do_rej = true, do_itm = true;
  for (int a = 1; a < argc; a++) {
    std::string s = argv[a];
    if (s == "--job" && a + 1 < argc) job = argv[++a];
    else if (s == "--root" && a + 1 < argc) root = argv[++a];
    else if (s == "--no-rejection") do_rej = false;
    else if (s == "--no-itm") do_itm = false;
    else {
      std::cerr << "usage: ga_replay --job <file> --root <dataset root> [--no-rejection] [--no-itm]\n";
      return 2;
    }
  }
  try {
    if (!root.empty()) {
      const char * env = std::getenv("BXDECAY0_DBD_GA_DATA_DIR");
      if (env == nullptr || root != env) {
        throw std::runtime_error("BXDECAY0_DBD_GA_DATA_DIR must be set to the --root directory");
      }
    }
    std::ifstream f(job.c_str());
    if (!f) {
      throw std::runtime_error("cannot open job file " + job);
    }
    std::string w;
    Dataset d;
    bool open = false;
    while (f >> w) {
      if (w == "PICKS") {
        std::string path;
        f >> path;
        std::ifstream pf(path.c_str());
        if (!pf) {
          throw std::runtime_error("cannot open picks file " + path);
        }
        int len;
        while (pf >> len) {
          std::vector<int> key(len + 1);
          for (int k = 0; k <= len; k++) pf >> key[k];
          int idx;
          pf >> idx;
          picks[key] = idx;
        }
      } else if (w == "DS") {
        d    = Dataset();
        open = true;
        std::string emin, emax, qbb;
        f >> d.id >> d.family >> d.version >> d.nuclide >> d.process >> d.n >> emin >> emax >> qbb >> d.M >> d.nevent
            >> d.nrej >> d.nrand >> d.seed;
        d.emin = std::strtod(emin.c_str(), nullptr);
        d.emax = std::strtod(emax.c_str(), nullptr);
        d.qbb  = std::strtod(qbb.c_str(), nullptr);
      } else if (w == "P" && open) {
        for (int k = 0; k <= d.M; k++) {
          std::string v;
          f >> v;
          d.P.push_back(std::strtod(v.c_str(), nullptr));
        }
      } else if (w == "T" && open) {
        int len;
        f >> len;
        std::vector<int> t(len);
        for (int k = 0; k < len; k++) f >> t[k];
        d.ranks.push_back(t);
      } else if (w == "L" && open) {
        int len;
        f >> len;
        std::vector<double> t(len);
        for (int k = 0; k < len; k++) {
          std::string v;
          f >> v;
          t[k] = std::strtod(v.c_str(), nullptr);
        }
        d.expect.push_back(t);
      } else if (w == "END" && open) {
        open = false;
        run_dataset(d, root, do_rej, do_itm);
      } else {
        throw std::runtime_error("job file: unexpected token '" + w + "'");
      }
    }
  } catch (std::exception & x) {
    std::cout << "{\"infra_error\":\"" << vh::json_escape(x.what()) << "\"}" << std::endl;
    return 3;
  }
  std::ostringstream o;
  o << "{";
  for (auto & c : counters) {
    o << "\"" << c.first << "\":" << c.second << ",";
  }
  o << "\"violation_counts\":{";
  bool first = true;
  for (auto & c : vcount) {
    o << (first ? "" : ",") << "\"" << vh::json_escape(c.first) << "\":" << c.second;
    first = false;
  }
  o << "},\"samples\":[";
  for (size_t k = 0; k < samples.size(); k++) {
    o << (k ? "," : "") << "\"" << vh::json_escape(samples[k]) << "\"";
  }
  o << "],\"violations\":[";
  for (size_t k = 0; k < violations.size(); k++) {
    o << (k ? "," : "") << "{\"key\":\"" << vh::json_escape(violations[k].key) << "\",\"ds\":\""
      << vh::json_escape(violations[k].ds) << "\",\"what\":\"" << vh::json_escape(violations[k].what) << "\"}";
  }
  o << "]}";
  std::cout << o.str() << std::endl;
  return 0;
}
