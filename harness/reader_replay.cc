// Replays the Reader specification's behaviours on a real bxdecay0::event_reader and binds the Codec
// specification to event::store / event_reader::load_next_event (property C11).
//
// Input (both written by checks/c11.py from TLC's state graphs):
//  --graph G : the state graph of spec/Reader.tla
//      C <cid> <start> <max> <nfiles> <count>...        one line per configuration (= initial state)
//      S <sid> <cid> <calls> <last> <delivered>          delivered = comma separated stream ranks or "-"
//      E <src> <H|L> <dst>                                has_next_event / load_next_event
//      I <sid>                                            initial state of configuration S.cid
//  --pool P  : the abstract events of spec/Codec.tla (states after LoadEvent)
//      P <pid> <labelclass> <timeclass> <np> {<code> <tcls> <pxcls> <pycls> <pzcls>}* <shape> <exactflags>
//      shape      = token kinds of the record as the spec stores it (i int, n num, w word, L end of line)
//      exactflags = per value field (time, then t px py pz per particle) e: must come back as the same double,
//                   r: must come back equal to 15 significant digits
//
// Mode --roundtrip: every pool event is rendered to concrete doubles (several salts), written the way
//   bxdecay0-run writes records (id, event::store(STORE_EVENT_TIME), blank line), the text is compared with the
//   spec's token stream, and the files are read back through a real event_reader and compared with what was stored.
// Mode replay (default): for every configuration the files are written with event::store (contents from the
//   pool, the stream rank travels in the generator label), then every maximal behaviour of the graph (all
//   interleavings of the two calls up to the model's bound) is executed on a fresh reader.  The specification is
//   followed as a nondeterministic automaton; after each call the projection
//       (answer of has_next_event | load_next_event threw / which event it delivered, sequence delivered so far,
//        loaded-events counter)
//   must be one the model allows.  Of is_terminated() only "terminated => no announce, Load throws" is required.
#include <algorithm>
#include <chrono>
#include <csignal>
#include <cstdlib>
#include <map>
#include <memory>
#include <random>
#include <set>
#include <stdexcept>
#include <unistd.h>

#include <bxdecay0/event.h>
#include <bxdecay0/event_reader.h>

#include "common/vh.h"

using bxdecay0::event;
using bxdecay0::event_reader;

// ----------------------------------------------------------------------------------------------- model data
struct Config
{
  int start = 0, max = 0;
  std::vector<int> files;
  int init_sid = -1;
  int total() const
  {
    int t = 0;
    for (int f : files) t += f;
    return t;
  }
  std::string str() const
  {
    std::ostringstream s;
    s << "files=";
    for (size_t i = 0; i < files.size(); i++) s << (i ? "," : "") << files[i];
    s << ";start=" << start << ";max=" << max;
    return s.str();
  }
};
struct MState
{
  int cid = -1, calls = 0;
  std::string last;
  std::vector<int> delivered;
  int succ[2][2]   = {{-1, -1}, {-1, -1}}; // [call][k] destination states (at most 2 kept; the model is deterministic)
  int nsucc[2]     = {0, 0};
};
struct PoolEvent
{
  std::string label, timecls;
  struct Part
  {
    int code;
    std::string cls[4];
  };
  std::vector<Part> parts;
  std::string shape, exact;
};

static std::vector<Config> configs;
static std::vector<MState> states;
static std::vector<PoolEvent> pool;

struct Viol
{
  std::string key, what, cfg, seq, extra;
};
static std::vector<Viol> viols;
static std::set<std::string> viol_keys;
static void report(const std::string & key, const std::string & what, const std::string & cfg, const std::string & seq,
                   const std::string & extra = "")
{
  if (viol_keys.insert(key).second) viols.push_back({key, what, cfg, seq, extra});
}
[[noreturn]] static void infra(const std::string & msg)
{
  std::cout << "INFRA " << msg << std::endl;
  std::exit(2);
}

// ----------------------------------------------------------------------------------------------- rendering
static uint64_t mix(uint64_t z)
{
  z += 0x9E3779B97F4A7C15ULL;
  z = (z ^ (z >> 30)) * 0xBF58476D1CE4E5B9ULL;
  z = (z ^ (z >> 27)) * 0x94D049BB133111EBULL;
  return z ^ (z >> 31);
}
static std::string d15(double v)
{
  char b[64];
  std::snprintf(b, sizeof b, "%.15g", v);
  return b;
}
// least number of significant digits whose decimal reads back as v
static int digits_needed(double v)
{
  for (int n = 1; n <= 17; n++) {
    char b[64];
    std::snprintf(b, sizeof b, "%.*g", n, v);
    if (std::strtod(b, nullptr) == v) return n;
  }
  return 18;
}
static double rnd17(uint64_t h, double scale)
{
  // scale * (a double in [1,10) with a full random mantissa), chosen so that it needs 16 or 17 digits
  for (int i = 0; i < 64; i++) {
    double m = 1.0 + 9.0 * ((mix(h + i) >> 11) + 0.5) / 9007199254740992.0;
    if (m < 10.0 && digits_needed(m * scale) > 15) return m * scale;
  }
  infra("no 17-digit double found");
}
// a concrete double of the value class; `salt` varies the member of the class
static double render(const std::string & c, uint64_t salt)
{
  uint64_t h   = mix(salt * 1315423911ULL + 17);
  double sign  = (h & 1) ? -1.0 : 1.0;
  int e        = (int)((h >> 8) % 19) - 13; // -13 .. 5
  char b[64];
  if (c == "zero") return 0.0;
  if (c == "negzero") return -0.0;
  if (c == "one") {
    std::snprintf(b, sizeof b, "%de%d", (int)((h >> 16) % 9) + 1, e);
    return sign * std::strtod(b, nullptr);
  }
  if (c == "d15") {
    // 15 significant digits, first and last digit non-zero
    unsigned long long m = 100000000000000ULL + (mix(h) % 900000000000000ULL);
    if (m % 10 == 0) m += 1 + (h >> 20) % 9;
    std::snprintf(b, sizeof b, "%llue%d", m, e - 14);
    return sign * std::strtod(b, nullptr);
  }
  if (c == "d17") {
    std::snprintf(b, sizeof b, "1e%d", e);
    return sign * rnd17(h, std::strtod(b, nullptr));
  }
  if (c == "carry") {
    // the largest double below a power of ten: its 15-digit rounding is the power of ten itself
    std::snprintf(b, sizeof b, "1e%d", e);
    return sign * std::nextafter(std::strtod(b, nullptr), 0.0);
  }
  if (c == "denorm") {
    uint64_t bits = 1 + (mix(h + 3) >> (12 + (h >> 24) % 50)); // mantissa only: subnormal
    bits &= 0x000FFFFFFFFFFFFFULL;
    if (bits == 0) bits = 1;
    double v;
    std::memcpy(&v, &bits, 8);
    return sign * v;
  }
  if (c == "tiny") return sign * rnd17(h, 1e-300);
  if (c == "huge") return sign * rnd17(h, 1e+300);
  if (c == "expfmt") {
    // around the places where the default float format changes notation
    static const double base[] = {1e-4, 1e-5, 9.9999e-5, 1e14, 1e15, 123456789012345678.0, 999999999999999.0, 0.0001234};
    double v = base[(h >> 16) % 8];
    if ((h >> 30) & 1) v = std::nextafter(v, ((h >> 31) & 1) ? 0.0 : 1e300);
    return sign * v;
  }
  infra("unknown value class " + c);
}
static const char * const kLong =
  "Lorem_ipsum_dolor_sit_amet,_consectetur_adipiscing_elit,_sed_do_eiusmod_tempor_incididunt_ut_labore_et_dolore_magna_aliqua."
  "_Ut_enim_ad_minim_veniam,_quis_nostrud_exercitation_ullamco_laboris_nisi_ut_aliquip_ex_ea_commodo_consequat."
  "_Duis_aute_irure_dolor_in_reprehenderit_in_voluptate_velit_esse_cillum_dolore_eu_fugiat_nulla_pariatur."
  "_Excepteur_sint_occaecat_cupidatat_non_proident,_sunt_in_culpa_qui_officia_deserunt_mollit_anim_id_est_laborum";
// the stream rank travels in the last four characters of the label
static std::string render_label(const std::string & c, int id)
{
  char suf[16];
  std::snprintf(suf, sizeof suf, "%04d", id);
  if (c == "short") return std::string("Co60_") + suf;
  if (c == "long") return std::string(kLong) + kLong + "_" + suf;
  if (c == "punct") return std::string("Mo100:0nubb(mn)[2+1]/g0;{x}'\"<&>|\\~#@!%^*=+?.$_") + suf;
  if (c == "digits") return std::string("137") + suf;
  infra("unknown label class " + c);
}
static int label_id(const std::string & l)
{
  if (l.size() < 4) return -2;
  int id = 0;
  for (size_t i = l.size() - 4; i < l.size(); i++) {
    if (l[i] < '0' || l[i] > '9') return -2;
    id = id * 10 + (l[i] - '0');
  }
  return id;
}
static void check_rendering()
{
  static const char * cls[] = {"one", "d15", "d17", "carry", "denorm", "tiny", "huge", "negzero", "zero", "expfmt"};
  for (const char * c : cls) {
    for (uint64_t s = 0; s < 400; s++) {
      double v = render(c, s);
      int n    = digits_needed(v);
      std::string cs(c);
      bool ok = std::isfinite(v);
      if (cs == "one") ok = ok && n == 1 && v != 0;
      if (cs == "d15") ok = ok && n == 15;
      if (cs == "d17" || cs == "tiny" || cs == "huge" || cs == "carry") ok = ok && n > 15;
      if (cs == "carry") ok = ok && d15(v).substr(0, d15(v).find('e')).find('9') == std::string::npos;
      if (cs == "denorm") ok = ok && v != 0 && std::fabs(v) < 2.2250738585072014e-308;
      if (cs == "tiny") ok = ok && std::fabs(v) < 1e-298 && std::fabs(v) >= 1e-300;
      if (cs == "huge") ok = ok && std::fabs(v) >= 1e300;
      if (cs == "negzero") ok = ok && v == 0 && std::signbit(v);
      if (cs == "zero") ok = ok && v == 0 && !std::signbit(v);
      if (!ok) infra("rendering of value class " + cs + " broken: " + vh::hexd(v) + " " + d15(v));
    }
  }
}

static event make_event(const PoolEvent & pe, uint64_t salt, int id)
{
  event ev;
  ev.set_generator(render_label(pe.label, id));
  ev.set_time(render(pe.timecls, salt * 64));
  int f = 1;
  for (const auto & pp : pe.parts) {
    bxdecay0::particle p;
    p.set_code((bxdecay0::particle_code)pp.code);
    p.set_time(render(pp.cls[0], salt * 64 + f));
    p.set_px(render(pp.cls[1], salt * 64 + f + 1));
    p.set_py(render(pp.cls[2], salt * 64 + f + 2));
    p.set_pz(render(pp.cls[3], salt * 64 + f + 3));
    f += 4;
    ev.add_particle(p);
  }
  return ev;
}

// the record as bxdecay0-run writes it
static void write_record(std::ostream & out, int id_in_file, const event & ev)
{
  out << id_in_file << ' ';
  ev.store(out, event::STORE_EVENT_TIME);
  out << '\n';
}

// "" when `got` is what the statement allows for the stored event `want`, else the kind of the first difference
// (label / count / species / event-time / particle-time / momentum); `detail` describes it
static bool same_bits(double a, double b) { return vh::hexd(a) == vh::hexd(b); }
static std::string g17(double v)
{
  char b[64];
  std::snprintf(b, sizeof b, "%.17g", v);
  return b;
}
static std::string brief(const std::string & label) { return label.size() <= 40 ? label : label.substr(0, 16) + "..." + label.substr(label.size() - 16); }
static std::string compare_events(const event & want, const event & got, const std::string & exact, std::string & detail,
                                  const PoolEvent & pe)
{
  detail.clear();
  if (want.get_generator() != got.get_generator()) {
    detail = "label class " + pe.label + ": stored '" + brief(want.get_generator()) + "' (" + std::to_string(want.get_generator().size())
             + " chars), loaded '" + brief(got.get_generator()) + "' (" + std::to_string(got.get_generator().size()) + " chars)";
    return "label";
  }
  if (want.get_particles().size() != got.get_particles().size()) {
    detail = "stored " + std::to_string(want.get_particles().size()) + " particles, loaded " + std::to_string(got.get_particles().size());
    return "count";
  }
  auto val = [&](double a, double b, size_t field, const std::string & name, const std::string & cls) {
    bool need_exact = field < exact.size() && exact[field] == 'e';
    if (d15(a) == d15(b) && (!need_exact || same_bits(a, b))) return true;
    detail = name + " (value class " + cls + "): stored " + g17(a) + ", loaded " + g17(b)
             + (d15(a) == d15(b) ? " (equal to 15 digits, but a value with a <=15 digit decimal must come back as the same double)"
                                 : " (differ within 15 significant digits: " + d15(a) + " vs " + d15(b) + ")");
    return false;
  };
  if (!val(want.get_time(), got.get_time(), 0, "event time", pe.timecls)) return "event-time";
  for (size_t i = 0; i < want.get_particles().size(); i++) {
    const auto & a = want.get_particles()[i];
    const auto & b = got.get_particles()[i];
    if (a.get_code() != b.get_code()) {
      detail = "particle " + std::to_string(i) + ": stored code " + std::to_string((int)a.get_code()) + ", loaded " + std::to_string((int)b.get_code());
      return "species";
    }
    const double av[4]       = {a.get_time(), a.get_px(), a.get_py(), a.get_pz()};
    const double bv[4]       = {b.get_time(), b.get_px(), b.get_py(), b.get_pz()};
    static const char * n[4] = {"time", "px", "py", "pz"};
    for (int k = 0; k < 4; k++)
      if (!val(av[k], bv[k], 1 + 4 * i + k, std::string(n[k]) + " of particle " + std::to_string(i), pe.parts[i].cls[k]))
        return k == 0 ? "particle-time" : "momentum";
  }
  return "";
}

// compares the text event::store produced with the token stream of the specification; "" if it conforms
static std::string check_shape(const std::string & text, const PoolEvent & pe, int id_in_file, const event & ev)
{
  std::vector<std::vector<std::string>> lines(1);
  {
    std::string tok;
    for (char ch : text) {
      if (ch == '\n' || ch == ' ' || ch == '\t' || ch == '\r') {
        if (!tok.empty()) lines.back().push_back(tok);
        tok.clear();
        if (ch == '\n') lines.emplace_back();
      } else {
        tok += ch;
      }
    }
    if (!tok.empty()) return "eol|text does not end with an end of line";
    lines.pop_back();
  }
  std::vector<std::string> want(1);
  for (char k : pe.shape) {
    if (k == 'L')
      want.emplace_back();
    else
      want.back() += k;
  }
  want.pop_back();
  if (lines.size() != want.size())
    return "lines|record has " + std::to_string(lines.size()) + " lines, the format has " + std::to_string(want.size());
  std::vector<double> nums{ev.get_time()};
  std::vector<long> ints{id_in_file, (long)ev.get_particles().size()};
  for (const auto & p : ev.get_particles()) {
    ints.push_back((long)p.get_code());
    nums.push_back(p.get_time());
    nums.push_back(p.get_px());
    nums.push_back(p.get_py());
    nums.push_back(p.get_pz());
  }
  size_t ni = 0, nn = 0;
  for (size_t l = 0; l < lines.size(); l++) {
    if (lines[l].size() != want[l].size())
      return "items|line " + std::to_string(l) + " has " + std::to_string(lines[l].size()) + " items, the format has "
             + std::to_string(want[l].size());
    for (size_t t = 0; t < want[l].size(); t++) {
      const std::string & s = lines[l][t];
      char * end            = nullptr;
      if (want[l][t] == 'i') {
        long v = std::strtol(s.c_str(), &end, 10);
        if (*end != 0 || ni >= ints.size() || v != ints[ni]) return "integer|line " + std::to_string(l) + ": integer item '" + s + "' wrong";
        ni++;
      } else if (want[l][t] == 'n') {
        double v = std::strtod(s.c_str(), &end);
        if (*end != 0 || nn >= nums.size() || d15(v) != d15(nums[nn]))
          return "number|line " + std::to_string(l) + ": number item '" + s + "' is not " + d15(nums[nn]) + " to 15 digits";
        nn++;
      } else {
        if (s != ev.get_generator()) return "label|line " + std::to_string(l) + ": label item differs";
      }
    }
  }
  return "";
}

// ----------------------------------------------------------------------------------------------- round trip
static long n_rt_events = 0, n_rt_values = 0, n_rt_exact = 0, n_shapes = 0;
static std::vector<std::string> rt_samples;

struct RtItem
{
  size_t pid;
  uint64_t salt;
  event ev;
};
static std::string rt_extra(const RtItem & it)
{
  return "pid=" + std::to_string(it.pid) + ";salt=" + std::to_string(it.salt % 1000);
}

static void roundtrip(const std::string & dir, int nsalts, long only_pid, long only_salt)
{
  // all (pool event, salt) pairs, spread over three files (the middle one gets fewer) and read back in one go
  std::vector<RtItem> items;
  for (size_t pid = 0; pid < pool.size(); pid++) {
    if (only_pid >= 0 && (long)pid != only_pid) continue;
    for (int s = 0; s < nsalts; s++) {
      if (only_salt >= 0 && s != only_salt) continue;
      uint64_t salt = pid * 1000 + s;
      items.push_back({pid, salt, make_event(pool[pid], salt, (int)(items.size() % 10000))});
    }
  }
  // (a) the text of each record against the token stream of the specification
  for (size_t i = 0; i < items.size(); i++) {
    std::ostringstream one;
    one.precision(15);
    write_record(one, (int)(i % 1000), items[i].ev);
    n_shapes++;
    std::string bad = check_shape(one.str(), pool[items[i].pid], (int)(i % 1000), items[i].ev);
    if (!bad.empty()) {
      report("shape:" + bad.substr(0, bad.find('|')),
             "record written by event::store does not have the documented structure: " + bad.substr(bad.find('|') + 1) + "\n"
               + one.str().substr(0, 400),
             "-", "-", rt_extra(items[i]));
    }
    const PoolEvent & spe = pool[items[i].pid];
    if (rt_samples.size() < 2 && spe.parts.size() == 2 && spe.label == "short" && spe.parts[0].cls[0] != spe.parts[0].cls[1]
        && i % 37 == 5)
      rt_samples.push_back(one.str().size() < 600 ? one.str() : one.str().substr(0, 600));
  }
  // (b) store, read back through a real reader, compare; a record the reader chokes on is reported, dropped, and
  //     the pass is repeated so that it cannot hide the others
  for (int attempt = 0; attempt < 25 && !items.empty(); attempt++) {
    event_reader::config_type cfg;
    std::vector<size_t> cuts{0, items.size() / 2, items.size() / 2 + items.size() / 5, items.size()};
    for (int f = 0; f < 3; f++) {
      std::string fn = dir + "/rt" + std::to_string(f) + ".d0t";
      std::ofstream out(fn, std::ios::trunc);
      if (!out) infra("cannot write " + fn);
      out.precision(15);
      for (size_t i = cuts[f]; i < cuts[f + 1]; i++) write_record(out, f == 1 ? (int)i : (int)(i - cuts[f]), items[i].ev);   // second file: global ids
      out.close();
      if (!out) infra("write error on " + fn);
      cfg.event_files.push_back(fn);
    }
    cfg.start_event   = 0;
    cfg.max_nb_events = 0;
    n_rt_events = n_rt_values = n_rt_exact = 0;
    size_t k = 0;
    try {
      event_reader r(cfg, 0);
      while (r.has_next_event()) {
        event got;
        r.load_next_event(got);
        if (k >= items.size()) {
          report("roundtrip:extra-event", "reader delivered more events than were stored", "-", "-");
          return;
        }
        const PoolEvent & pe = pool[items[k].pid];
        std::string detail;
        std::string diff = compare_events(items[k].ev, got, pe.exact, detail, pe);
        n_rt_events++;
        n_rt_values += 1 + 4 * pe.parts.size();
        for (char c : pe.exact) n_rt_exact += c == 'e';
        if (!diff.empty()) {
          report("roundtrip:" + diff, "stored event #" + std::to_string(k) + " read back differs: " + detail, "-", "-", rt_extra(items[k]));
        }
        k++;
      }
    } catch (const std::exception & x) {
      if (k >= items.size()) {
        report("roundtrip:throws-at-end", std::string("reader threw after the last stored event: ") + x.what(), "-", "-");
        return;
      }
      report("roundtrip:reader-throws:" + std::to_string(pool[items[k].pid].parts.size()) + "p",
             std::string("reading back stored events failed at event #") + std::to_string(k) + ": " + x.what() + " ; stored "
               + brief(items[k].ev.get_generator()) + " with " + std::to_string(items[k].ev.get_particles().size()) + " particles",
             "-", "-", rt_extra(items[k]));
      items.erase(items.begin() + (long)k);
      continue;
    }
    if (k != items.size()) {
      report("roundtrip:missing-events", "reader delivered " + std::to_string(k) + " of " + std::to_string(items.size()) + " stored events",
             "-", "-");
    }
    return;
  }
}

// ----------------------------------------------------------------------------------------------- reader replay
static long n_seq = 0, n_steps = 0, n_loads_ok = 0, n_loads_throw = 0, n_has_t = 0, n_has_f = 0, n_nontrivial = 0,
            n_events_cmp = 0, n_cfg_done = 0, n_cfg_sampled = 0, n_term_checks = 0, n_readers = 0;
static std::set<int> states_visited;
static bool counting = false; // inside the exhaustive enumeration (distinct behaviours by construction)
static std::vector<std::string> samples;

struct Stored
{
  std::vector<event> ev;       // by stream rank
  std::vector<size_t> pid;     // pool index of each
  std::vector<std::string> fn; // the files
};

static Stored write_config(const Config & c, int cid, const std::string & dir)
{
  Stored st;
  int rank = 0;
  for (size_t f = 0; f < c.files.size(); f++) {
    std::string fn = dir + "/f" + std::to_string(f) + ".d0t";
    std::ofstream out(fn, std::ios::trunc);
    if (!out) infra("cannot write " + fn);
    out.precision(15);
    for (int i = 0; i < c.files[f]; i++) {
      size_t pid = ((size_t)cid * 31 + (size_t)rank * 7) % pool.size();
      event ev   = make_event(pool[pid], (uint64_t)cid * 16 + rank + 5000000, rank);
      // the id column is whatever the writer chose: the reader numbers events by their position in the concatenated stream
      // (bxdecay0-run counts from 0 in each run; a run split into chunks, two runs concatenated, or a global numbering are as legal)
      int idcol = (cid % 4 == 0) ? i : (cid % 4 == 1) ? rank : (cid % 4 == 2) ? (i % 3) : (i + 1000);
      write_record(out, idcol, ev);
      st.ev.push_back(ev);
      st.pid.push_back(pid);
      rank++;
    }
    out.close();
    if (!out) infra("write error on " + fn);
    st.fn.push_back(fn);
  }
  return st;
}

static std::string ids_str(const std::vector<int> & v)
{
  if (v.empty()) return "<<>>";
  std::ostringstream s;
  s << "<<";
  for (size_t i = 0; i < v.size(); i++) s << (i ? "," : "") << v[i];
  s << ">>";
  return s.str();
}

// what is being executed, for the fatal-signal report (a crash inside the library is a finding, not a verdict lost)
static char current_case[256] = "";
static void on_fatal(int sig)
{
  const char * m = "\nFATAL-SIGNAL in case ";
  (void)!write(1, m, std::strlen(m));
  (void)!write(1, current_case, std::strlen(current_case));
  (void)!write(1, "\n", 1);
  std::signal(sig, SIG_DFL);
  std::raise(sig);
}

// one fresh reader driven along one call sequence, the model followed as an automaton
static void run_sequence(const Config & c, const Stored & st, const std::string & seq, bool verbose = false)
{
  n_seq++;
  std::snprintf(current_case, sizeof current_case, "cfg=%s seq=%s", c.str().c_str(), seq.c_str());
  if (counting && seq.find('L') != std::string::npos) n_nontrivial++;
  bool sampling = false;
  if (samples.size() < 2 && c.files.size() >= 2 && c.start >= 1 && c.total() >= c.start + 2 && seq.rfind("HLHL", 0) == 0)
    for (int f : c.files) sampling = sampling || f == 0;
  std::string trace;
  event_reader::config_type rc;
  rc.event_files   = st.fn;
  rc.start_event   = c.start;
  rc.max_nb_events = c.max;
  std::unique_ptr<event_reader> r;
  try {
    r.reset(new event_reader(rc, 0));
  } catch (const std::exception & x) {
    report("Configure:throws", std::string("set_configuration of a valid configuration threw: ") + x.what(), c.str(), "");
    return;
  }
  n_readers++;
  std::vector<int> cur{c.init_sid};
  std::vector<int> delivered;
  const bool beyond = c.start >= c.total();
  bool dead         = false; // verbose replay only: a divergence was reported, the remaining calls are just shown
  for (size_t i = 0; i < seq.size(); i++) {
    int call = seq[i] == 'H' ? 0 : 1;
    std::vector<int> cand;
    for (int s : cur)
      for (int k = 0; k < states[s].nsucc[call]; k++) cand.push_back(states[s].succ[call][k]);
    if (cand.empty() && !dead) return; // beyond the model's bound
    bool was_term = r->is_terminated();
    std::string obs, exwhat;
    event got;
    if (call == 0) {
      try {
        obs = r->has_next_event() ? "HasNext:T" : "HasNext:F";
      } catch (const std::exception & x) {
        obs    = "HasNext:throw";
        exwhat = x.what();
      }
    } else {
      try {
        r->load_next_event(got);
        obs = "Load:ok";
      } catch (const std::exception & x) {
        obs    = "Load:throw";
        exwhat = x.what();
      }
    }
    n_steps++;
    int got_id = -1;
    if (obs == "Load:ok") {
      got_id = label_id(got.get_generator());
      delivered.push_back(got_id);
      n_loads_ok++;
    } else if (obs == "Load:throw") {
      n_loads_throw++;
    } else if (obs == "HasNext:T") {
      n_has_t++;
    } else {
      n_has_f++;
    }
    if (sampling) trace += std::string(i ? ", " : "") + (call ? "load_next_event" : "has_next_event") + " -> " + obs
                           + (got_id >= 0 ? " rank " + std::to_string(got_id) : "");
    int counter         = r->get_loaded_event_counter();
    std::string prefix  = seq.substr(0, i + 1);
    if (verbose) {
      std::cout << "  call " << (call ? "load_next_event" : "has_next_event") << " -> " << obs << (got_id >= 0 ? " id=" + std::to_string(got_id) : "")
                << " delivered=" << ids_str(delivered) << " loaded_counter=" << counter << " terminated(before)=" << was_term
                << " | model: " << (dead ? std::string("(not followed after the divergence)") : states[cand[0]].last + " delivered=" + ids_str(states[cand[0]].delivered))
                << (exwhat.empty() ? "" : " [" + exwhat + "]") << std::endl;
    }
    if (dead) continue;
    // (1) the only thing required of the termination flag
    n_term_checks++;
    if (was_term && (obs == "HasNext:T" || obs == "Load:ok")) {
      report("terminated-but-serves:" + obs, "is_terminated() was true, yet the next call answered " + obs, c.str(), prefix);
      if (!verbose) return;
      dead = true;
      continue;
    }
    // (2) conformance with the model
    std::vector<int> next;
    for (int d : cand)
      if (states[d].last == obs && states[d].delivered == delivered) next.push_back(d);
    if (next.empty()) {
      const MState & e = states[cand[0]];
      std::string key, what;
      what = "after " + std::string(call ? "load_next_event" : "has_next_event") + " (call #" + std::to_string(i + 1) + "): model says " + e.last
             + " delivered=" + ids_str(e.delivered) + ", code says " + obs + " delivered=" + ids_str(delivered)
             + (exwhat.empty() ? "" : " [" + exwhat + "]");
      if (e.last != obs) {
        if (beyond && c.total() > 0 && e.last == "HasNext:F" && obs == "HasNext:T")
          key = "window-beyond-end"; // start >= number of stored events: a next event is announced that cannot be loaded
        else
          key = e.last + "->" + obs + (beyond ? "@empty-window" : "");
      } else {
        int want_id = e.delivered.empty() ? -1 : e.delivered.back();
        key         = "Load:delivers-rank" + std::string(got_id - want_id >= 0 ? "+" : "") + std::to_string(got_id - want_id);
        if (got_id < 0) key = "Load:delivers-unidentifiable-event";
      }
      report(key, what, c.str(), prefix);
      if (!verbose) return;
      dead = true;
      continue;
    }
    // (3) the loaded-events counter is the number of events delivered
    if (counter != (int)delivered.size()) {
      report("loaded-counter:" + obs, "get_loaded_event_counter() = " + std::to_string(counter) + " after " + std::to_string(delivered.size())
                                        + " delivered events (last call " + obs + ")",
             c.str(), prefix);
      if (!verbose) return;
      dead = true;
      continue;
    }
    // (4) the delivered event is the stored one
    if (obs == "Load:ok") {
      const PoolEvent & pe = pool[st.pid[got_id]];
      std::string detail;
      std::string diff = compare_events(st.ev[got_id], got, pe.exact, detail, pe);
      n_events_cmp++;
      if (!diff.empty()) {
        report("roundtrip:" + diff, "delivered event of rank " + std::to_string(got_id) + " differs from the stored one: " + detail, c.str(),
               prefix);
        if (!verbose) return;
        dead = true;
        continue;
      }
    }
    std::sort(next.begin(), next.end());
    next.erase(std::unique(next.begin(), next.end()), next.end());
    for (int d : next) states_visited.insert(d);
    cur = next;
  }
  if (sampling) samples.push_back("{\"configuration\":\"" + c.str() + "\",\"calls\":\"" + vh::json_escape(trace) + "\"}");
}

static std::chrono::steady_clock::time_point deadline;
static bool timed_out = false;

static void dfs(const Config & c, const Stored & st, std::string & seq, std::vector<int> & cur)
{
  if (timed_out) return;
  bool extended = false;
  for (int call = 0; call < 2; call++) {
    std::vector<int> nxt;
    for (int s : cur)
      for (int k = 0; k < states[s].nsucc[call]; k++) nxt.push_back(states[s].succ[call][k]);
    if (nxt.empty()) continue;
    std::sort(nxt.begin(), nxt.end());
    nxt.erase(std::unique(nxt.begin(), nxt.end()), nxt.end());
    extended = true;
    seq.push_back(call ? 'L' : 'H');
    dfs(c, st, seq, nxt);
    seq.pop_back();
    if (timed_out) return;
  }
  if (!extended && !seq.empty()) {
    counting = true;
    run_sequence(c, st, seq);
    counting = false;
    if ((n_seq & 255) == 0 && std::chrono::steady_clock::now() > deadline) timed_out = true;
  }
}

int main(int argc, char ** argv)
{
  std::string graph, poolf, dir, only_cfg, only_seq;
  int shard = 0, nshards = 1, nsalts = 4;
  double budget = 60;
  bool do_rt    = false;
  long only_pid = -1, only_salt = -1;
  uint64_t seed = 1;
  for (int i = 1; i < argc; i++) {
    std::string a = argv[i];
    if (a == "--graph") graph = argv[++i];
    else if (a == "--pool") poolf = argv[++i];
    else if (a == "--dir") dir = argv[++i];
    else if (a == "--shard") { shard = std::atoi(argv[++i]); nshards = std::atoi(argv[++i]); }
    else if (a == "--budget") budget = std::atof(argv[++i]);
    else if (a == "--roundtrip") do_rt = true;
    else if (a == "--salts") nsalts = std::atoi(argv[++i]);
    else if (a == "--only-pid") only_pid = std::atol(argv[++i]);
    else if (a == "--only-salt") only_salt = std::atol(argv[++i]);
    else if (a == "--only-cfg") only_cfg = argv[++i];
    else if (a == "--seq") only_seq = argv[++i];
    else if (a == "--seed") seed = std::strtoull(argv[++i], nullptr, 10);
    else infra("unknown option " + a);
  }
  std::clog.rdbuf(nullptr); // the reader's destructor prints a report on std::clog
#if defined(__SANITIZE_ADDRESS__)
#define VH_ASAN 1
#elif defined(__has_feature)
#if __has_feature(address_sanitizer)
#define VH_ASAN 1
#endif
#endif
#ifndef VH_ASAN
  std::signal(SIGSEGV, on_fatal);
  std::signal(SIGABRT, on_fatal);
  std::signal(SIGFPE, on_fatal);
#else
  (void)on_fatal;
#endif
  check_rendering();
  std::string line;
  {
    std::ifstream in(poolf);
    if (!in) infra("cannot open pool " + poolf);
    while (std::getline(in, line)) {
      std::istringstream ls(line);
      char t;
      size_t pid, np;
      PoolEvent pe;
      ls >> t >> pid >> pe.label >> pe.timecls >> np;
      if (t != 'P') continue;
      for (size_t k = 0; k < np; k++) {
        PoolEvent::Part p;
        ls >> p.code >> p.cls[0] >> p.cls[1] >> p.cls[2] >> p.cls[3];
        pe.parts.push_back(p);
      }
      ls >> pe.shape >> pe.exact;
      if (!ls || pe.exact.size() != 1 + 4 * np) infra("bad pool line: " + line);
      if (pool.size() <= pid) pool.resize(pid + 1);
      pool[pid] = pe;
    }
    if (pool.empty()) infra("empty pool");
  }
  deadline = std::chrono::steady_clock::now() + std::chrono::milliseconds((long)(budget * 1000));
  bool exhaustive = true;
  if (do_rt) {
    roundtrip(dir, nsalts, only_pid, only_salt);
  } else {
    std::ifstream in(graph);
    if (!in) infra("cannot open graph " + graph);
    while (std::getline(in, line)) {
      std::istringstream ls(line);
      char t;
      ls >> t;
      if (t == 'C') {
        size_t cid, nf;
        Config c;
        ls >> cid >> c.start >> c.max >> nf;
        c.files.resize(nf);
        for (auto & f : c.files) ls >> f;
        if (configs.size() <= cid) configs.resize(cid + 1);
        configs[cid] = c;
      } else if (t == 'S') {
        size_t sid;
        MState s;
        std::string del;
        ls >> sid >> s.cid >> s.calls >> s.last >> del;
        if (del != "-") {
          std::istringstream ds(del);
          std::string x;
          while (std::getline(ds, x, ',')) s.delivered.push_back(std::atoi(x.c_str()));
        }
        if (states.size() <= sid) states.resize(sid + 1);
        states[sid] = s;
      } else if (t == 'E') {
        int s, d;
        char c;
        ls >> s >> c >> d;
        int call = c == 'H' ? 0 : 1;
        if (states[s].nsucc[call] >= 2) infra("more than two successors for one call in the model graph");
        states[s].succ[call][states[s].nsucc[call]++] = d;
      } else if (t == 'I') {
        int sid;
        ls >> sid;
        configs[states[sid].cid].init_sid = sid;
      }
    }
    if (configs.empty()) infra("no configuration in graph");
    std::mt19937_64 rng(seed * 7919 + shard);
    for (size_t cid = 0; cid < configs.size(); cid++) {
      const Config & c = configs[cid];
      if (!only_cfg.empty()) {
        if (c.str() != only_cfg) continue;
      } else if ((int)(cid % nshards) != shard) {
        continue;
      }
      if (c.init_sid < 0) infra("configuration without initial state");
      Stored st = write_config(c, (int)cid, dir);
      if (!only_seq.empty()) {
        std::cout << "replaying " << c.str() << " calls " << only_seq << std::endl;
        run_sequence(c, st, only_seq, true);
        continue;
      }
      if (!timed_out) {
        std::string seq;
        std::vector<int> cur{c.init_sid};
        dfs(c, st, seq, cur);
        if (!timed_out) n_cfg_done++;
      }
      if (timed_out) {
        // out of time: seeded sample of maximal behaviours for the remaining configurations
        exhaustive = false;
        n_cfg_sampled++;
        for (int w = 0; w < 16; w++) {
          std::string seq;
          int s = c.init_sid;
          while (true) {
            int call = (int)(rng() & 1);
            if (states[s].nsucc[call] == 0) call = 1 - call;
            if (states[s].nsucc[call] == 0) break;
            seq.push_back(call ? 'L' : 'H');
            s = states[s].succ[call][0];
          }
          run_sequence(c, st, seq);
        }
      }
    }
  }
  std::cout << "{\"sequences\":" << n_seq << ",\"nontrivial\":" << n_nontrivial << ",\"steps\":" << n_steps << ",\"readers\":" << n_readers
            << ",\"loads_ok\":" << n_loads_ok << ",\"loads_throw\":" << n_loads_throw << ",\"has_true\":" << n_has_t
            << ",\"has_false\":" << n_has_f << ",\"events_compared\":" << n_events_cmp << ",\"configs_done\":" << n_cfg_done
            << ",\"configs_sampled\":" << n_cfg_sampled << ",\"states_visited\":" << states_visited.size()
            << ",\"term_checks\":" << n_term_checks << ",\"rt_events\":" << n_rt_events << ",\"rt_values\":" << n_rt_values
            << ",\"rt_exact_values\":" << n_rt_exact << ",\"shapes\":" << n_shapes << ",\"exhaustive\":" << (exhaustive ? "true" : "false")
            << ",\"rt_samples\":[";
  for (size_t i = 0; i < rt_samples.size(); i++) std::cout << (i ? "," : "") << "\"" << vh::json_escape(rt_samples[i]) << "\"";
  std::cout << "],\"samples\":[";
  for (size_t i = 0; i < samples.size(); i++) std::cout << (i ? "," : "") << samples[i];
  std::cout << "],\"violations\":[";
  for (size_t i = 0; i < viols.size(); i++) {
    if (i) std::cout << ",";
    std::cout << "{\"key\":\"" << vh::json_escape(viols[i].key) << "\",\"what\":\"" << vh::json_escape(viols[i].what) << "\",\"cfg\":\""
              << vh::json_escape(viols[i].cfg) << "\",\"seq\":\"" << vh::json_escape(viols[i].seq) << "\",\"extra\":\""
              << vh::json_escape(viols[i].extra) << "\"}";
  }
  std::cout << "]}" << std::endl;
  return 0;
}
