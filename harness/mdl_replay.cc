// Conformance harness for spec/MDL.tla (property C10): drives the real
// bxdecay0::momentum_direction_lock_event_op along the cases TLC enumerated.
//
// Modes
//   --cases <file>   replay model cases.  One line per case, written by checks/c10.py from TLC's state graph:
//                      C <entry> <filter> <rank> <err> <cone> <n> <s1..sn> <kind> <target> <maymask> <conemask> <acc>
//                    Each case is instantiated --variants times with seeded momenta / axis / apertures; the real
//                    operation (configured through the case's entry point) is applied with a counting deviate
//                    source.  Compared with the model (expected values come from TLC, not from this file):
//                    threw <=> Error, changed indices (bitwise) within `may`, get_last_target_index, deviates
//                    consumed = 2*(acc+k) with k = 0 for a circular cone.  Evaluated here in floating point:
//                    count/species/times identical, |p| kept, `conemask` particles inside the cone (inside both
//                    half-angles of the window when rectangular), Gram matrix and orientation kept in target mode,
//                    and the sibling entry point (same abstract configuration) gives the same output on the same
//                    deviates.
//   --gen            generator level: decay0_generator with [probe, MDL, probe] registered against the same
//                    generator without operations, same deviates per event.  Observations go to --trace (ndjson)
//                    and are decided by TLC (spec/TraceMDL.tla).
//   --random <n>     events beyond the model bounds (up to 8 particles, also neutrons/protons, ranks up to 6),
//                    op objects reused over several events; observations to --trace for TLC.
//
// Output: last line is one JSON object (counters + violations).
#include <algorithm>
#include <chrono>
#include <cstdlib>
#include <map>
#include <memory>
#include <set>
#include <stdexcept>

#include <bxdecay0/decay0_generator.h>
#include <bxdecay0/mdl_event_op.h>

#include "common/vh.h"

using bxdecay0::event;
using bxdecay0::particle;
typedef bxdecay0::momentum_direction_lock_event_op mdl_op;

// ------------------------------------------------------------------ deviate source

struct budget_exceeded
{
};

struct counting : public bxdecay0::i_random
{
  uint64_t s;
  uint64_t served = 0;
  uint64_t cap;
  explicit counting(uint64_t seed_ = 1, uint64_t cap_ = 200000) : s(seed_), cap(cap_) {}
  void reseed(uint64_t seed_)
  {
    s      = seed_;
    served = 0;
  }
  static uint64_t mix(uint64_t & st)
  {
    uint64_t z = (st += 0x9E3779B97F4A7C15ULL);
    z          = (z ^ (z >> 30)) * 0xBF58476D1CE4E5B9ULL;
    z          = (z ^ (z >> 27)) * 0x94D049BB133111EBULL;
    return z ^ (z >> 31);
  }
  double operator()() override
  {
    if (served >= cap) {
      throw budget_exceeded();
    }
    served++;
    return ((mix(s) >> 11) + 0.5) * (1.0 / 9007199254740992.0);
  }
};

// plain seeded helper for the harness' own choices
struct rng
{
  uint64_t s;
  explicit rng(uint64_t seed_) : s(seed_) {}
  uint64_t u64() { return counting::mix(s); }
  double u() { return ((u64() >> 11) + 0.5) * (1.0 / 9007199254740992.0); }
  int below(int n) { return (int)(u64() % (uint64_t)n); }
};

static uint64_t fnv(const std::string & s)
{
  uint64_t h = 1469598103934665603ULL;
  for (unsigned char c : s) {
    h ^= c;
    h *= 1099511628211ULL;
  }
  return h;
}

// ------------------------------------------------------------------ small vector algebra (independent of the library)

struct V3
{
  double x, y, z;
};
static V3 operator-(V3 a, V3 b) { return {a.x - b.x, a.y - b.y, a.z - b.z}; }
static double dot(V3 a, V3 b) { return a.x * b.x + a.y * b.y + a.z * b.z; }
static V3 cross(V3 a, V3 b) { return {a.y * b.z - a.z * b.y, a.z * b.x - a.x * b.z, a.x * b.y - a.y * b.x}; }
static double norm(V3 a) { return std::sqrt(dot(a, a)); }
static V3 mom(const particle & p) { return {p.get_px(), p.get_py(), p.get_pz()}; }
static double angle(V3 a, V3 b) { return std::atan2(norm(cross(a, b)), dot(a, b)); }

static const double TOL_ANG = 1e-12; // radians
static const double TOL_REL = 1e-12; // relative, on |p| and on Gram entries
static const double TOL_EQV = 1e-9;  // relative, entry-point equivalence (allows another rounding of deg->rad)

// ------------------------------------------------------------------ cases

struct Case
{
  std::string entry; // axis | angles | degrees
  int filter = 0;
  int rank   = -1;
  bool err   = false;
  bool rect  = false;
  std::vector<int> species;
  // expectation computed by TLC (only in --cases mode)
  std::string kind;
  int target    = -1;
  unsigned may  = 0;
  unsigned cone = 0;
  int acc       = 0;
  std::string line; // the input line (replay)
  std::string key() const
  {
    std::ostringstream o;
    o << filter << ' ' << rank << ' ' << err << ' ' << rect << ' ' << entry << " :";
    for (int s : species) o << ' ' << s;
    return o.str();
  }
};

// numeric instantiation of a case; the abstract configuration is held in DEGREES (the UI's unit),
// the radian entry points get deg*pi/180
struct Num
{
  double theta_deg = 0, phi_deg = 0; // cone axis
  double scale     = 1.0;            // length of the axis vector given to the "axis" entry point
  double a1_deg = 0, a2_deg = -1;    // aperture / half-angles
  int label_style = 0;
  std::string cone_label;            // circ | rect | rect-a1=0 | rect-a2=0 | rect-a1=a2=0
  std::string str() const
  {
    std::ostringstream o;
    o.precision(17);
    o << "axis(theta=" << theta_deg << "deg,phi=" << phi_deg << "deg,scale=" << scale << ") a1=" << a1_deg << "deg";
    if (a2_deg >= 0) o << " a2=" << a2_deg << "deg";
    return o.str();
  }
};

static double rad(double deg) { return deg * M_PI / 180.0; }

static V3 axis_of(const Num & n)
{
  // exact vectors for the canonical axes
  if (n.theta_deg == 0.0) return {0, 0, 1};
  if (n.theta_deg == 180.0) return {0, 0, -1};
  if (n.theta_deg == 90.0 && n.phi_deg == 0.0) return {1, 0, 0};
  if (n.theta_deg == 90.0 && n.phi_deg == 90.0) return {0, 1, 0};
  double t = rad(n.theta_deg), p = rad(n.phi_deg);
  return {std::cos(p) * std::sin(t), std::sin(p) * std::sin(t), std::cos(t)};
}

static const char * label_of(int filter, int style)
{
  switch (filter) {
  case 0:
    return style ? "*" : "all";
  case 1:
    return style ? "g" : "gamma";
  case 2:
    return style ? "e+" : "positron";
  case 3:
    return style ? "e-" : "electron";
  case 13:
    return style ? "n" : "neutron";
  case 14:
    return style ? "p" : "proton";
  case 47:
    return style ? "a" : "alpha";
  }
  return "?";
}

static void configure(mdl_op & op, const std::string & entry, const Case & c, const Num & n)
{
  bxdecay0::particle_code code = (bxdecay0::particle_code)c.filter;
  if (entry == "axis") {
    V3 a = axis_of(n);
    if (c.rect) {
      op.set_with_aperture_rectangular_cut(code, c.rank, a.x * n.scale, a.y * n.scale, a.z * n.scale, rad(n.a1_deg),
                                           rad(n.a2_deg), c.err);
    } else {
      op.set(code, c.rank, a.x * n.scale, a.y * n.scale, a.z * n.scale, rad(n.a1_deg), c.err);
    }
  } else if (entry == "angles") {
    if (c.rect) {
      op.set_with_aperture_rectangular_cut(code, c.rank, rad(n.phi_deg), rad(n.theta_deg), rad(n.a1_deg), rad(n.a2_deg),
                                           c.err);
    } else {
      op.set(code, c.rank, rad(n.phi_deg), rad(n.theta_deg), rad(n.a1_deg), c.err);
    }
  } else {
    mdl_op::config_type cfg;
    cfg.particle_label            = label_of(c.filter, n.label_style);
    cfg.target_particle_rank      = c.rank;
    cfg.cone_phi_degree           = n.phi_deg;
    cfg.cone_theta_degree         = n.theta_deg;
    cfg.cone_aperture_degree      = n.a1_deg;
    cfg.cone_aperture2_degree     = c.rect ? n.a2_deg : -1.0;
    cfg.error_on_missing_particle = c.err;
    op.set(cfg);
  }
}

// ------------------------------------------------------------------ violations

struct Viol
{
  std::string key, what, replay;
};
struct Bucket
{
  long count = 0;
  std::vector<Viol> first;
};
static std::map<std::string, Bucket> viols;               // definite
static std::map<std::string, Bucket> rectA, rectB;        // rectangular-window failures under either orientation convention
static long rect_checks = 0, rect_fail_A = 0, rect_fail_B = 0;

static void add_viol(std::map<std::string, Bucket> & m, const std::string & key, const std::string & what,
                     const std::string & replay)
{
  Bucket & b = m[key];
  b.count++;
  if (b.first.size() < 2) b.first.push_back({key, what, replay});
}

// ------------------------------------------------------------------ observation of one application

struct Obs
{
  bool threw   = false; // an exception of the library
  bool nonterm = false; // deviate budget exhausted
  std::string exc;
  std::set<int> changed; // indices whose momentum differs bitwise
  int last       = -99;
  uint64_t draws = 0;
  event after;
  bool shape_ok = true; // same number of particles
};

static bool same_bits(double a, double b) { return std::memcmp(&a, &b, sizeof a) == 0; }

static Obs apply(mdl_op & op, const event & before, uint64_t stream_seed, uint64_t cap)
{
  Obs o;
  o.after = before;
  counting src(stream_seed, cap);
  try {
    op(src, o.after);
  } catch (budget_exceeded &) {
    o.nonterm = true;
  } catch (std::exception & e) {
    o.threw = true;
    o.exc   = e.what();
  }
  o.draws = src.served;
  o.last  = op.get_last_target_index();
  const auto & pb = before.get_particles();
  const auto & pa = o.after.get_particles();
  o.shape_ok      = pb.size() == pa.size();
  for (size_t i = 0; i < std::min(pb.size(), pa.size()); i++) {
    if (!same_bits(pb[i].get_px(), pa[i].get_px()) || !same_bits(pb[i].get_py(), pa[i].get_py())
        || !same_bits(pb[i].get_pz(), pa[i].get_pz())) {
      o.changed.insert((int)i);
    }
  }
  return o;
}

// what the property says unconditionally: number, species, times, |p|.  Returns "" or the name of the broken clause.
static std::string invariants(const event & before, const event & after, std::string & detail)
{
  const auto & pb = before.get_particles();
  const auto & pa = after.get_particles();
  std::ostringstream d;
  d.precision(17);
  if (pb.size() != pa.size()) {
    d << "particle count " << pb.size() << " -> " << pa.size();
    detail = d.str();
    return "count";
  }
  if (!same_bits(before.get_time(), after.get_time())) {
    d << "event time " << before.get_time() << " -> " << after.get_time();
    detail = d.str();
    return "times";
  }
  for (size_t i = 0; i < pb.size(); i++) {
    if (pb[i].get_code() != pa[i].get_code()) {
      d << "particle " << i << " species " << (int)pb[i].get_code() << " -> " << (int)pa[i].get_code();
      detail = d.str();
      return "species";
    }
    if (!same_bits(pb[i].get_time(), pa[i].get_time())) {
      d << "particle " << i << " time " << pb[i].get_time() << " -> " << pa[i].get_time();
      detail = d.str();
      return "times";
    }
    double nb = norm(mom(pb[i])), na = norm(mom(pa[i]));
    if (!(std::abs(na - nb) <= TOL_REL * nb)) {
      d << "particle " << i << " |p| " << nb << " -> " << na;
      detail = d.str();
      return "norm";
    }
  }
  return "";
}

// Gram matrix and orientation of the whole event preserved (first 8 particles for the triple products)
static bool rigid(const event & before, const event & after, std::string & detail)
{
  const auto & pb = before.get_particles();
  const auto & pa = after.get_particles();
  if (pb.size() != pa.size()) return false;
  size_t n = pb.size();
  std::ostringstream d;
  d.precision(17);
  for (size_t i = 0; i < n; i++) {
    for (size_t j = i; j < n; j++) {
      V3 bi = mom(pb[i]), bj = mom(pb[j]), ai = mom(pa[i]), aj = mom(pa[j]);
      double gb = dot(bi, bj), ga = dot(ai, aj);
      if (!(std::abs(gb - ga) <= TOL_REL * norm(bi) * norm(bj))) {
        d << "p" << i << ".p" << j << " " << gb << " -> " << ga;
        detail = d.str();
        return false;
      }
    }
  }
  size_t m = std::min<size_t>(n, 8);
  for (size_t i = 0; i < m; i++) {
    for (size_t j = i + 1; j < m; j++) {
      for (size_t k = j + 1; k < m; k++) {
        V3 bi = mom(pb[i]), bj = mom(pb[j]), bk = mom(pb[k]);
        double tb = dot(bi, cross(bj, bk));
        double ta = dot(mom(pa[i]), cross(mom(pa[j]), mom(pa[k])));
        if (!(std::abs(tb - ta) <= 3 * TOL_REL * norm(bi) * norm(bj) * norm(bk))) {
          d << "triple product (" << i << "," << j << "," << k << ") " << tb << " -> " << ta << " (orientation)";
          detail = d.str();
          return false;
        }
      }
    }
  }
  return true;
}

// cone membership.  Circular: angle to the axis <= a1.  Rectangular window: in the frame (x' = e_theta, y' = e_phi,
// z' = axis) the angles of the projections on the (x',z') and (y',z') planes are within the two half-angles.
// Convention A gives a1 to x' (meridian plane) and a2 to y'; convention B the other way round.  A run is consistent
// if one of the two conventions has no failure at all.
struct Cone
{
  V3 ax, ex, ey;
  bool rect;
  double a1, a2;
};

static Cone make_cone(const Num & n, bool rect)
{
  Cone c;
  c.rect = rect;
  c.a1   = rad(n.a1_deg);
  c.a2   = rect ? rad(n.a2_deg) : -1;
  c.ax   = axis_of(n);
  double t = rad(n.theta_deg), p = rad(n.phi_deg);
  if (n.theta_deg == 0.0 || n.theta_deg == 180.0) p = 0.0; // polar axes are only used with phi = 0
  double ct = (n.theta_deg == 0.0) ? 1.0 : (n.theta_deg == 180.0 ? -1.0 : (n.theta_deg == 90.0 ? 0.0 : std::cos(t)));
  double st = (n.theta_deg == 0.0 || n.theta_deg == 180.0) ? 0.0 : (n.theta_deg == 90.0 ? 1.0 : std::sin(t));
  double cp = (n.phi_deg == 0.0) ? 1.0 : (n.phi_deg == 90.0 ? 0.0 : std::cos(p));
  double sp = (n.phi_deg == 0.0) ? 0.0 : (n.phi_deg == 90.0 ? 1.0 : std::sin(p));
  if (n.theta_deg == 0.0 || n.theta_deg == 180.0) {
    cp = 1.0;
    sp = 0.0;
  }
  c.ex = {ct * cp, ct * sp, -st};
  c.ey = {-sp, cp, 0.0};
  return c;
}

// A particle at rest (zero momentum: the zero-energy X-rays of some capture decays) has no direction: it is neither inside nor
// outside a cone, the statement "emitted into the cone" holds for it vacuously.
static bool at_rest(V3 d) { return dot(d, d) == 0.0; }

static bool in_circ(const Cone & c, V3 d, double & ang)
{
  if (at_rest(d)) {
    ang = 0.0;
    return true;
  }
  ang = angle(d, c.ax);
  return ang <= c.a1 + TOL_ANG;
}

static void in_rect(const Cone & c, V3 d, bool & okA, bool & okB, double & angx, double & angy)
{
  if (at_rest(d)) {
    angx = angy = 0.0;
    okA = okB = true;
    return;
  }
  double z = dot(d, c.ax), x = dot(d, c.ex), y = dot(d, c.ey);
  angx = std::atan2(std::abs(x), z);
  angy = std::atan2(std::abs(y), z);
  okA  = z > 0 && angx <= c.a1 + TOL_ANG && angy <= c.a2 + TOL_ANG;
  okB  = z > 0 && angx <= c.a2 + TOL_ANG && angy <= c.a1 + TOL_ANG;
}

// ------------------------------------------------------------------ building events

static event make_event(const std::vector<int> & species, rng & r, const Num & n, const std::string & label)
{
  event ev;
  ev.set_generator(label);
  if (r.below(2)) ev.set_time(r.u() * 1e3);
  double t    = 0.0;
  int special = r.below(8);
  int who     = species.empty() ? 0 : r.below((int)species.size());
  for (size_t i = 0; i < species.size(); i++) {
    particle p;
    p.set_code((bxdecay0::particle_code)species[i]);
    if (r.below(3)) t += -std::log(r.u()) * std::pow(10.0, -9 + 9 * r.u());
    p.set_time(t);
    double mag = 0.05 * std::pow(100.0, r.u()); // 0.05 .. 5 MeV/c
    double cz = 2 * r.u() - 1, ph = 2 * M_PI * r.u(), sz = std::sqrt(1 - cz * cz);
    V3 d = {sz * std::cos(ph), sz * std::sin(ph), cz};
    if ((int)i == who) {
      if (special == 0) d = {0, 0, 1};
      if (special == 1) d = {0, 0, -1};
      if (special == 2) d = axis_of(n);
      if (special == 3) d = {1, 0, 0};
    }
    p.set_momentum(mag * d.x, mag * d.y, mag * d.z);
    ev.add_particle(p);
  }
  return ev;
}

static std::string ev_str(const event & ev)
{
  std::ostringstream o;
  o.precision(17);
  o << "n=" << ev.get_particles().size();
  for (const auto & p : ev.get_particles()) {
    o << " [" << (int)p.get_code() << " t=" << p.get_time() << " p=(" << p.get_px() << "," << p.get_py() << ","
      << p.get_pz() << ")]";
  }
  return o.str();
}

// ------------------------------------------------------------------ numeric variants

static const double AXES[6][2] = {{0, 0}, {180, 0}, {90, 0}, {90, 90}, {35, 30}, {137.5, -110.25}}; // theta, phi (deg)
static const double RECT[3]    = {0.05, 0.3, 1.2};

static Num make_num(const Case & c, uint64_t h, int v, rng & r, int edge)
{
  Num n;
  int ai = (int)((h + (uint64_t)v) % 8);
  if (ai < 6) {
    n.theta_deg = AXES[ai][0];
    n.phi_deg   = AXES[ai][1];
  } else {
    n.theta_deg = 5.0 + 170.0 * r.u();
    n.phi_deg   = -180.0 + 360.0 * r.u();
  }
  static const double SC[3] = {1.0, 0.5, 7.25};
  n.scale                   = SC[(h / 8 + (uint64_t)v) % 3];
  n.label_style             = (int)((h / 24 + (uint64_t)v) % 2);
  if (!c.rect) {
    int k = (int)((h / 48 + (uint64_t)v) % 6);
    double a;
    switch (k) {
    case 0:
      a = 0.0;
      break;
    case 1:
      a = 0.1;
      break;
    case 2:
      a = M_PI / 4;
      break;
    case 3:
      a = M_PI / 2 - 1e-6;
      break;
    case 4:
      a = 3.0;
      break;
    default:
      a = M_PI * r.u();
    }
    n.a1_deg     = a * 180.0 / M_PI;
    n.a2_deg     = -1;
    n.cone_label = "circ";
  } else if (edge == 0) {
    int k = (int)((h / 48 + (uint64_t)v) % 10);
    double a1, a2;
    if (k < 9) {
      a1 = RECT[k / 3];
      a2 = RECT[k % 3];
    } else {
      a1 = 0.02 + 1.4 * r.u();
      a2 = 0.02 + 1.4 * r.u();
    }
    n.a1_deg     = a1 * 180.0 / M_PI;
    n.a2_deg     = a2 * 180.0 / M_PI;
    n.cone_label = "rect";
  } else {
    // degenerate windows: the property quantifies over half-angles in [0, pi/2)
    double a1 = (edge == 2) ? 0.3 : 0.0;
    double a2 = (edge == 1) ? 0.3 : 0.0;
    n.a1_deg  = a1 * 180.0 / M_PI;
    n.a2_deg  = a2 * 180.0 / M_PI;
    n.cone_label = edge == 1 ? "rect-a1=0" : (edge == 2 ? "rect-a2=0" : "rect-a1=a2=0");
  }
  return n;
}

// ------------------------------------------------------------------ counters

static std::map<std::string, long> ctr;
static bool verbose = false;

// ------------------------------------------------------------------ case mode

static std::string sibling(const std::string & entry) { return entry == "angles" ? "degrees" : "angles"; }
static std::string pair_name(const std::string & a, const std::string & b) { return a < b ? a + "~" + b : b + "~" + a; }

static void run_variant(const Case & c, int v, int edge, uint64_t seed)
{
  uint64_t h = fnv(c.key());
  rng r(seed ^ (h * 0x9E3779B97F4A7C15ULL) ^ ((uint64_t)(v + 1) << 40) ^ ((uint64_t)edge << 56));
  Num n        = make_num(c, h, v, r, edge);
  event before = make_event(c.species, r, n, "case");
  uint64_t sseed = r.u64();
  std::ostringstream rp;
  rp << c.line << " | variant " << v << " edge " << edge;
  std::string replay = rp.str();
  std::string ksuf   = c.entry + ":" + n.cone_label;
  std::string ctx    = c.kind + " " + n.str() + " event " + ev_str(before);
  ctr["applications"]++;
  if (edge) ctr["degenerate_window_applications"]++;

  mdl_op op;
  try {
    configure(op, c.entry, c, n);
  } catch (std::exception & e) {
    add_viol(viols, "configure-refused:" + ksuf, std::string("valid configuration refused: ") + e.what() + " | " + n.str(), replay);
    return;
  }
  Obs o = apply(op, before, sseed, 200000);
  if (verbose) {
    std::cout << "case " << c.line << "\n  " << n.str() << "\n  before " << ev_str(before) << "\n  after  "
              << ev_str(o.after) << "\n  threw=" << o.threw << " nonterm=" << o.nonterm << " draws=" << o.draws
              << " last=" << o.last << " changed={";
    for (int i : o.changed) std::cout << i << ' ';
    std::cout << "}\n";
  }
  if (o.nonterm) {
    add_viol(viols, "no-termination:" + ksuf, "more than 200000 deviates consumed by one application (" + ctx + ")", replay);
    return;
  }
  // ---- decided by the model
  bool expect_throw = c.kind == "Error";
  if (o.threw != expect_throw) {
    add_viol(viols, "outcome:" + ksuf,
             std::string(o.threw ? "exception '" + o.exc + "' where the model says " : "no exception where the model says ")
               + c.kind + " (" + ctx + ")",
             replay);
    return;
  }
  std::string detail;
  std::string broken = invariants(before, o.after, detail);
  if (!broken.empty()) {
    add_viol(viols, broken + ":" + ksuf, detail + " (" + ctx + ")", replay);
    return;
  }
  for (int i : o.changed) {
    if (!((c.may >> i) & 1u)) {
      std::ostringstream w;
      w << "particle " << i << " was modified but the model (" << c.kind << ") leaves it untouched (" << ctx << ") after "
        << ev_str(o.after);
      add_viol(viols, "touched:" + ksuf, w.str(), replay);
      return;
    }
  }
  if (!o.threw && o.last != c.target) {
    std::ostringstream w;
    w << "get_last_target_index() = " << o.last << ", model says " << c.target << " (" << ctx << ")";
    add_viol(viols, "last-target-index:" + ksuf, w.str(), replay);
  }
  {
    long d = (long)o.draws, need = 2L * c.acc;
    bool ok = d >= need && (d - need) % 2 == 0 && (c.rect || d == need) && (c.acc > 0 || d == 0);
    if (!ok) {
      std::ostringstream w;
      w << o.draws << " deviates consumed, model says 2*(" << c.acc << "+k)" << (c.rect ? ", k>=0" : ", k=0") << " (" << ctx << ")";
      add_viol(viols, "draws:" + ksuf, w.str(), replay);
    } else if (d > need) {
      ctr["applications_with_rejected_trials"]++;
      ctr["rejected_trials"] += (d - need) / 2;
    }
  }
  // ---- decided here, in floating point
  Cone cone       = make_cone(n, c.rect);
  const auto & pa = o.after.get_particles();
  for (size_t i = 0; i < pa.size(); i++) {
    if (!((c.cone >> i) & 1u)) continue;
    V3 d = mom(pa[i]);
    std::ostringstream w;
    w.precision(17);
    if (!c.rect) {
      double ang;
      ctr["cone_checks"]++;
      if (!in_circ(cone, d, ang)) {
        w << "particle " << i << " at " << ang << " rad from the axis, aperture " << cone.a1 << " (" << ctx << ") after "
          << ev_str(o.after);
        add_viol(viols, "in-cone:" + ksuf, w.str(), replay);
      }
    } else {
      bool okA, okB;
      double ax, ay;
      in_rect(cone, d, okA, okB, ax, ay);
      rect_checks++;
      ctr["cone_checks"]++;
      w << "particle " << i << " outside the window: projected angles (meridian " << ax << ", parallel " << ay
        << ") rad, half-angles (" << cone.a1 << ", " << cone.a2 << ") (" << ctx << ") after " << ev_str(o.after);
      if (!okA) {
        rect_fail_A++;
        add_viol(rectA, "in-cone:" + ksuf, w.str(), replay);
      }
      if (!okB) {
        rect_fail_B++;
        add_viol(rectB, "in-cone:" + ksuf, w.str(), replay);
      }
    }
  }
  if (c.kind == "RotateAll") {
    ctr["rigid_checks"]++;
    if (!rigid(before, o.after, detail)) {
      add_viol(viols, "rigid:" + ksuf, detail + " (" + ctx + ") after " + ev_str(o.after), replay);
    }
  }
  if (c.kind == "RotateAll" || c.kind == "Force") {
    ctr["nontrivial_applications"]++;
  }
  // ---- the sibling entry point, same abstract configuration, same deviates
  {
    std::string sib = sibling(c.entry);
    mdl_op op2;
    bool cfg_ok = true;
    try {
      configure(op2, sib, c, n);
    } catch (std::exception & e) {
      cfg_ok = false;
      add_viol(viols, "configure-refused:" + sib + ":" + n.cone_label,
               std::string("valid configuration refused: ") + e.what() + " | " + n.str(), replay);
    }
    if (cfg_ok) {
      Obs o2 = apply(op2, before, sseed, 200000);
      ctr["entry_equivalence_checks"]++;
      std::string ekey = "entry-equiv:" + pair_name(c.entry, sib) + ":" + n.cone_label;
      std::ostringstream w;
      w.precision(17);
      bool bad = false;
      if (o2.nonterm) {
        add_viol(viols, "no-termination:" + sib + ":" + n.cone_label,
                 "more than 200000 deviates consumed by one application (" + ctx + ")", replay);
      } else if (o2.threw != o.threw || o2.draws != o.draws || o2.last != o.last
                 || o2.after.get_particles().size() != pa.size()) {
        w << c.entry << ": threw=" << o.threw << " draws=" << o.draws << " last=" << o.last << "; " << sib
          << ": threw=" << o2.threw << " draws=" << o2.draws << " last=" << o2.last;
        bad = true;
      } else {
        const auto & p2 = o2.after.get_particles();
        for (size_t i = 0; i < pa.size() && !bad; i++) {
          V3 d    = mom(pa[i]) - mom(p2[i]);
          double m = norm(mom(pa[i]));
          if (!(norm(d) <= TOL_EQV * m)) {
            w << "particle " << i << ": " << c.entry << " gives (" << pa[i].get_px() << "," << pa[i].get_py() << ","
              << pa[i].get_pz() << "), " << sib << " gives (" << p2[i].get_px() << "," << p2[i].get_py() << ","
              << p2[i].get_pz() << ")";
            bad = true;
          }
        }
      }
      if (bad) {
        add_viol(viols, ekey, "same abstract configuration, same deviates, different result: " + w.str() + " (" + ctx + ")",
                 replay);
      }
    }
  }
  // ---- the same op object applied to a second, different event must behave as a fresh one (Chain = TRUE in the model)
  if (v == 0 && !c.species.empty()) {
    std::vector<int> sp2(c.species.rbegin(), c.species.rend());
    sp2.pop_back();
    event b2  = make_event(sp2, r, n, "chain");
    uint64_t s2 = r.u64();
    mdl_op fresh;
    configure(fresh, c.entry, c, n);
    Obs oa = apply(op, b2, s2, 200000);
    Obs ob = apply(fresh, b2, s2, 200000);
    ctr["chain_checks"]++;
    if (oa.threw != ob.threw || oa.draws != ob.draws || oa.last != ob.last || oa.nonterm != ob.nonterm
        || vh::fingerprint(oa.after) != vh::fingerprint(ob.after)) {
      std::ostringstream w;
      w << "a used operation and a fresh one differ on the same event and deviates: used threw=" << oa.threw
        << " draws=" << oa.draws << " last=" << oa.last << " fresh threw=" << ob.threw << " draws=" << ob.draws
        << " last=" << ob.last << " (" << n.str() << " event " << ev_str(b2) << ")";
      add_viol(viols, "history:" + ksuf, w.str(), replay);
    }
  }
}

static bool parse_case(const std::string & line, Case & c)
{
  std::istringstream in(line);
  std::string tag, cone;
  int err, n;
  if (!(in >> tag >> c.entry >> c.filter >> c.rank >> err >> cone >> n) || tag != "C") return false;
  c.err  = err != 0;
  c.rect = cone == "rect";
  c.species.resize(n);
  for (int i = 0; i < n; i++) in >> c.species[i];
  if (!(in >> c.kind >> c.target >> c.may >> c.cone >> c.acc)) return false;
  c.line = line;
  return true;
}

// ------------------------------------------------------------------ trace output (for TLC)

static std::ofstream trace;

static std::string jlist(const std::set<int> & s)
{
  std::ostringstream o;
  o << '[';
  bool first = true;
  for (int i : s) {
    o << (first ? "" : ",") << i;
    first = false;
  }
  o << ']';
  return o.str();
}

static void trace_configure(const Case & c)
{
  trace << "{\"e\":\"Configure\",\"filter\":" << c.filter << ",\"rank\":" << c.rank << ",\"err\":" << (c.err ? "true" : "false")
        << ",\"cone\":\"" << (c.rect ? "rect" : "circ") << "\",\"entry\":\"" << c.entry << "\"}\n";
}

// measured predicates of one application; TLC decides with the spec whether they are what MDL.tla allows
static void trace_apply(const event & before, const Obs & o, const Cone & cone)
{
  std::set<int> incone;
  const auto & pa = o.after.get_particles();
  for (size_t i = 0; i < pa.size(); i++) {
    double a, b;
    bool ok, okB;
    if (cone.rect) {
      in_rect(cone, mom(pa[i]), ok, okB, a, b);
    } else {
      ok = in_circ(cone, mom(pa[i]), a);
    }
    if (ok) incone.insert((int)i);
  }
  std::string detail;
  bool rg = rigid(before, o.after, detail);
  trace << "{\"e\":\"Apply\",\"species\":[";
  const auto & pb = before.get_particles();
  for (size_t i = 0; i < pb.size(); i++) trace << (i ? "," : "") << (int)pb[i].get_code();
  trace << "],\"threw\":" << (o.threw ? "true" : "false") << ",\"changed\":" << jlist(o.changed)
        << ",\"incone\":" << jlist(incone) << ",\"rigid\":" << (rg ? "true" : "false") << ",\"last\":" << o.last
        << ",\"draws\":" << o.draws << "}\n";
}

// ------------------------------------------------------------------ random mode (beyond the model bounds)

static void run_random(long count, uint64_t seed)
{
  static const int SP[6] = {1, 2, 3, 47, 13, 14};
  static const int FL[7] = {0, 1, 2, 3, 47, 13, 14};
  static const char * EN[3] = {"axis", "angles", "degrees"};
  rng r(seed * 7919 + 17);
  auto gen_cfg = [&](Case & c, Num & n) {
    c.entry  = EN[r.below(3)];
    c.filter = FL[r.below(7)];
    c.rank   = r.below(8) - 1;
    c.err    = r.below(2);
    c.rect   = r.below(3) == 0;
    n.theta_deg   = 5.0 + 170.0 * r.u();
    n.phi_deg     = -180.0 + 360.0 * r.u();
    n.scale       = 0.1 + 10 * r.u();
    n.label_style = r.below(2);
    if (c.rect) {
      // square window only: the two orientation conventions coincide
      n.a1_deg = n.a2_deg = (0.02 + 1.4 * r.u()) * 180.0 / M_PI;
      n.cone_label        = "rect";
    } else {
      n.a1_deg     = r.below(6) == 0 ? 0.0 : 179.9 * r.u();
      n.cone_label = "circ";
    }
  };
  for (long it = 0; it < count; it++) {
    Case c;
    Num n;
    gen_cfg(c, n);
    std::ostringstream rp;
    rp << "random it=" << it << " seed=" << seed;
    mdl_op op;
    try {
      configure(op, c.entry, c, n);
    } catch (std::exception & e) {
      add_viol(viols, "configure-refused:" + c.entry + ":" + n.cone_label, std::string("valid configuration refused: ") + e.what() + " | " + n.str(), rp.str());
      continue;
    }
    trace_configure(c);
    Cone cone = make_cone(n, c.rect);
    int napp  = 1 + r.below(3);
    for (int a = 0; a < napp; a++) {
      int len = r.below(9);
      std::vector<int> sp(len);
      for (int i = 0; i < len; i++) sp[i] = SP[r.below(r.below(4) ? 4 : 6)];
      event before = make_event(sp, r, n, "random");
      Obs o        = apply(op, before, r.u64(), 2000000);
      ctr["applications"]++;
      std::string ksuf = c.entry + ":" + n.cone_label;
      if (o.nonterm) {
        add_viol(viols, "no-termination:" + ksuf, "deviate budget exhausted (" + n.str() + " event " + ev_str(before) + ")", rp.str());
        break;
      }
      std::string detail, broken = invariants(before, o.after, detail);
      if (!broken.empty()) {
        add_viol(viols, broken + ":" + ksuf, detail + " (" + n.str() + " event " + ev_str(before) + ")", rp.str());
      }
      trace_apply(before, o, cone);
      if (trace.is_open()) ctr["trace_events"]++;
    }
    // the same operation OBJECT configured again (no reset of the object in between) behaves like a fresh object with the
    // new settings: same deviates consumed, bit-identical momenta (MDL.tla: Configure is enabled in every phase)
    {
      Case c2;
      Num n2;
      gen_cfg(c2, n2);
      bool ok2 = true;
      mdl_op fresh;
      try {
        configure(op, c2.entry, c2, n2);
        configure(fresh, c2.entry, c2, n2);
      } catch (std::exception &) {
        ok2 = false; // refusals of valid configurations are reported by the fresh-object path above
      }
      if (ok2) {
        trace_configure(c2);
        Cone cone2 = make_cone(n2, c2.rect);
        int len    = 1 + r.below(6);
        std::vector<int> sp(len);
        for (int i = 0; i < len; i++) sp[i] = SP[r.below(4)];
        event before = make_event(sp, r, n2, "random");
        uint64_t ss  = r.u64();
        Obs o1       = apply(op, before, ss, 2000000);
        Obs o2       = apply(fresh, before, ss, 2000000);
        ctr["applications"] += 2;
        ctr["reconfigured_objects"]++;
        bool same = o1.threw == o2.threw && o1.nonterm == o2.nonterm && o1.draws == o2.draws && o1.changed == o2.changed;
        const auto & p1 = o1.after.get_particles();
        const auto & p2 = o2.after.get_particles();
        same            = same && p1.size() == p2.size();
        for (size_t i = 0; same && i < p1.size(); i++)
          same = same_bits(p1[i].get_px(), p2[i].get_px()) && same_bits(p1[i].get_py(), p2[i].get_py()) && same_bits(p1[i].get_pz(), p2[i].get_pz());
        if (!same) {
          add_viol(viols, "history:reconfigured-object:" + n.cone_label + "-then-" + n2.cone_label,
                   "an operation object configured (" + n.cone_label + "), used, and configured again (" + n2.str() + ") differs from a fresh object with the same settings on the same event and deviates: "
                     + std::to_string(o1.draws) + " vs " + std::to_string(o2.draws) + " deviates (event " + ev_str(before) + ")",
                   rp.str());
        }
        if (!o1.nonterm) {
          trace_apply(before, o1, cone2);
          if (trace.is_open()) ctr["trace_events"]++;
        }
      }
    }
    trace << "{\"e\":\"Reset\"}\n";
    if (trace.is_open()) ctr["trace_executions"]++;
  }
}

// ------------------------------------------------------------------ generator level

struct probe_op : public bxdecay0::i_event_op
{
  counting * src = nullptr;
  uint64_t served = 0;
  event snap;
  bool called = false;
  std::string name() const override { return "probe"; }
  void operator()(bxdecay0::i_random &, event & ev) override
  {
    called = true;
    served = src->served;
    snap   = ev;
  }
  void smart_dump(std::ostream &, const std::string &) const override {}
};

struct GenCfg
{
  bool dbd;
  const char * nuclide;
  int level, mode;
};

static void run_gen(long events_per_conf, int confs_per_nuclide, uint64_t seed)
{
  static const GenCfg G[] = {{false, "Cs137", 0, 0}, {false, "Co60", 0, 0},  {false, "Na22", 0, 0},  {false, "Am241", 0, 0},
                             {false, "Bi207", 0, 0}, {false, "K40", 0, 0},   {false, "Tl208", 0, 0}, {false, "Bi214", 0, 0},
                             {true, "Mo100", 0, 1},  {true, "Cd106", 0, 10}, {true, "Xe136", 0, 20},
                             {false, "Kr81", 0, 0}};   // Kr81: X-rays of zero energy (particles at rest) in a few per cent of the decays
  static const int FL[6]     = {0, 1, 2, 3, 47, 13};
  static const char * EN[3]  = {"axis", "angles", "degrees"};
  rng r(seed * 104729 + 5);
  for (const GenCfg & g : G) {
    for (int ci = 0; ci < confs_per_nuclide; ci++) {
      Case c;
      c.entry  = EN[(ci + r.below(3)) % 3];
      c.filter = FL[r.below(6)];
      c.rank   = ci % 2 ? -1 : r.below(4);
      c.err    = r.below(4) == 0;
      c.rect   = r.below(3) == 0;
      Num n;
      n.theta_deg   = 5.0 + 170.0 * r.u();
      n.phi_deg     = -180.0 + 360.0 * r.u();
      n.scale       = 1.0;
      n.label_style = r.below(2);
      if (c.rect) {
        n.a1_deg = n.a2_deg = (0.05 + 1.2 * r.u()) * 180.0 / M_PI;
        n.cone_label        = "rect";
      } else {
        n.a1_deg     = 120.0 * r.u();
        n.cone_label = "circ";
      }
      std::ostringstream rp;
      rp << "gen nuclide=" << g.nuclide << " conf#" << ci << " seed=" << seed << " " << c.key() << " " << n.str();
      std::string ksuf = std::string("generator:") + c.entry + ":" + n.cone_label;

      counting src(seed ^ fnv(g.nuclide), 50000000);
      auto setup = [&](bxdecay0::decay0_generator & gen) {
        if (g.dbd) {
          gen.set_decay_category(bxdecay0::decay0_generator::DECAY_CATEGORY_DBD);
          gen.set_decay_isotope(g.nuclide);
          gen.set_decay_dbd_level(g.level);
          gen.set_decay_dbd_mode((bxdecay0::dbd_mode_type)g.mode);
        } else {
          gen.set_decay_category(bxdecay0::decay0_generator::DECAY_CATEGORY_BACKGROUND);
          gen.set_decay_isotope(g.nuclide);
        }
      };
      bxdecay0::decay0_generator ga, gb;
      auto pa  = std::make_shared<probe_op>();
      auto pb  = std::make_shared<probe_op>();
      auto mdl = std::make_shared<mdl_op>();
      pa->src = pb->src = &src;
      try {
        configure(*mdl, c.entry, c, n);
        setup(ga);
        setup(gb);
        gb.add_operation(pa);
        gb.add_operation(mdl);
        gb.add_operation(pb);
        src.reseed(seed + 1);
        ga.initialize(src);
        src.reseed(seed + 1);
        gb.initialize(src);
      } catch (std::exception & e) {
        throw std::runtime_error(std::string("generator set-up failed for ") + g.nuclide + ": " + e.what());
      }
      trace_configure(c);
      Cone cone = make_cone(n, c.rect);
      for (long i = 0; i < events_per_conf; i++) {
        uint64_t es = r.u64();
        event ea, eb;
        src.reseed(es);
        ga.shoot(src, ea);
        uint64_t na = src.served;
        src.reseed(es);
        pa->called = pb->called = false;
        Obs o;
        try {
          gb.shoot(src, eb);
        } catch (budget_exceeded &) {
          o.nonterm = true;
        } catch (std::exception & e) {
          o.threw = true;
          o.exc   = e.what();
        }
        ctr["generator_events"]++;
        ctr["applications"]++;
        if (o.nonterm) {
          add_viol(viols, "no-termination:" + ksuf, "deviate budget exhausted", rp.str());
          break;
        }
        // the decay was generated first, from the same deviates, and is the event the bare generator produces
        if (!pa->called || pa->served != na || vh::fingerprint(pa->snap) != vh::fingerprint(ea)) {
          std::ostringstream w;
          w << "event " << i << ": the event handed to the operation is not the bare generator's (deviates before the operation "
            << pa->served << ", bare generator " << na << "): " << vh::short_event(pa->snap) << " vs " << vh::short_event(ea);
          add_viol(viols, "decay-sample:" + ksuf, w.str(), rp.str());
          continue;
        }
        const event & before = pa->snap;
        o.after              = o.threw ? before : eb;
        if (!o.threw && pb->called) o.after = pb->snap;
        o.draws = src.served - na;
        o.last  = mdl->get_last_target_index();
        const auto & p0 = before.get_particles();
        const auto & p1 = o.after.get_particles();
        for (size_t k = 0; k < std::min(p0.size(), p1.size()); k++) {
          if (!same_bits(p0[k].get_px(), p1[k].get_px()) || !same_bits(p0[k].get_py(), p1[k].get_py())
              || !same_bits(p0[k].get_pz(), p1[k].get_pz())) {
            o.changed.insert((int)k);
          }
        }
        if (!o.threw) {
          // what shoot() returned is what the operation left
          if (vh::fingerprint(eb) != vh::fingerprint(o.after)) {
            add_viol(viols, "decay-sample:" + ksuf, "event returned by shoot differs from the event left by the operation", rp.str());
          }
          std::string detail, broken = invariants(ea, eb, detail);
          if (!broken.empty()) {
            std::ostringstream w;
            w << "event " << i << " with the operation vs without: " << detail << " | " << vh::short_event(ea);
            add_viol(viols, broken + ":" + ksuf, w.str(), rp.str());
          }
        }
        trace_apply(before, o, cone);
        if (trace.is_open()) ctr["trace_events"]++;
        if (!o.changed.empty()) ctr["generator_events_modified"]++;
        if ((long)p0.size() > 4) ctr["generator_events_longer_than_model_bound"]++;
      }
      trace << "{\"e\":\"Reset\"}\n";
      if (trace.is_open()) ctr["trace_executions"]++;
    }
  }
}

// ------------------------------------------------------------------ main

struct nullbuf : public std::streambuf
{
  int overflow(int c) override { return c; }
};

static void dump_bucket(std::ostream & o, const std::map<std::string, Bucket> & m, bool & first)
{
  for (const auto & kv : m) {
    for (const auto & v : kv.second.first) {
      o << (first ? "" : ",") << "{\"key\":\"" << vh::json_escape(v.key) << "\",\"count\":" << kv.second.count
        << ",\"what\":\"" << vh::json_escape(v.what) << "\",\"replay\":\"" << vh::json_escape(v.replay) << "\"}";
      first = false;
    }
  }
}


// Events at the upper end of what a decay can hold (dozens of particles, all selected): every selected particle ends in the cone
// with its magnitude, whatever their number; under ASan/UBSan (C08) any working storage sized for "a dozen particles" shows.
static void run_many(uint64_t seed)
{
  rng r(seed * 7919 + 23);
  for (int np : {17, 24, 40, 100}) {
    for (int mode = 0; mode < 2; mode++) {
      auto op = std::make_shared<bxdecay0::momentum_direction_lock_event_op>();   // the library's own class, exactly its size
      const int rank = mode == 0 ? -1 : np - 1;
      op->set(bxdecay0::GAMMA, rank, 0.3, -0.5, 0.8, 0.35, false);
      event ev;
      std::vector<double> mag;
      for (int i = 0; i < np; i++) {
        bxdecay0::particle p;
        p.set_code(bxdecay0::GAMMA);
        p.set_time(1e-9 * i);
        double ct = -1.0 + 2.0 * r.u(), ph = 2.0 * M_PI * r.u(), e = 0.05 + 2.0 * r.u(), st = std::sqrt(1.0 - ct * ct);
        p.set_momentum(e * st * std::cos(ph), e * st * std::sin(ph), e * ct);
        mag.push_back(p.get_p());
        ev.add_particle(p);
      }
      counting src(seed + np, 5000000);
      std::ostringstream rp;
      rp << "many np=" << np << " rank=" << rank << " seed=" << seed;
      try {
        (*op)(src, ev);
      } catch (std::exception & e) {
        add_viol(viols, "many-particles:exception", std::string("operation throws on an event of ") + std::to_string(np) + " particles: " + e.what(), rp.str());
        continue;
      }
      ctr["applications"]++;
      ctr["many_particle_events"]++;
      const double ax[3] = {0.3, -0.5, 0.8};
      const double an    = std::sqrt(ax[0] * ax[0] + ax[1] * ax[1] + ax[2] * ax[2]);
      bool bad = ev.get_particles().size() != (size_t)np;
      for (int i = 0; i < np && !bad; i++) {
        const auto & p = ev.get_particles()[i];
        if (!(std::fabs(p.get_p() - mag[i]) <= 1e-9 * mag[i])) bad = true;
        if (mode == 0 || i == rank) {
          double c = (p.get_px() * ax[0] + p.get_py() * ax[1] + p.get_pz() * ax[2]) / (p.get_p() * an);
          if (!(c >= std::cos(0.35) - 1e-9)) bad = true;
        }
      }
      if (bad) add_viol(viols, "many-particles:" + std::string(mode == 0 ? "selection" : "target"),
                        "event of " + std::to_string(np) + " gammas: a selected particle is outside the cone, a magnitude changed or the number of particles changed", rp.str());
    }
  }
}

int main(int argc, char ** argv)
{
  std::string cases_path, trace_path;
  int variants = 4, shard = 0, nshards = 1, edge_mod = 0, only_variant = -1, only_edge = -1;
  long nrandom = 0, gen_events = 0;
  int gen_confs = 4;
  bool gen = false;
  double budget = 1e9;
  uint64_t seed = 12345;
  for (int i = 1; i < argc; i++) {
    std::string a = argv[i];
    auto next     = [&]() { return std::string(i + 1 < argc ? argv[++i] : ""); };
    if (a == "--cases") cases_path = next();
    else if (a == "--variants") variants = std::atoi(next().c_str());
    else if (a == "--shard") {
      shard   = std::atoi(next().c_str());
      nshards = std::atoi(next().c_str());
    } else if (a == "--seed") seed = std::strtoull(next().c_str(), nullptr, 10);
    else if (a == "--budget") budget = std::atof(next().c_str());
    else if (a == "--edge-mod") edge_mod = std::atoi(next().c_str());
    else if (a == "--only-variant") only_variant = std::atoi(next().c_str());
    else if (a == "--only-edge") only_edge = std::atoi(next().c_str());
    else if (a == "--random") nrandom = std::atol(next().c_str());
    else if (a == "--gen") gen = true;
    else if (a == "--gen-events") gen_events = std::atol(next().c_str());
    else if (a == "--gen-confs") gen_confs = std::atoi(next().c_str());
    else if (a == "--trace") trace_path = next();
    else if (a == "--verbose") verbose = true;
    else {
      std::cerr << "unknown option " << a << std::endl;
      return 2;
    }
  }
  // the operation prints every momentum on std::cerr in target mode, debug or not: keep it out of the way
  static nullbuf nb;
  std::streambuf * old_cerr = std::cerr.rdbuf(&nb);
  auto t0   = std::chrono::steady_clock::now();
  auto secs = [&]() { return std::chrono::duration<double>(std::chrono::steady_clock::now() - t0).count(); };
  bool complete = true;
  long cases_done = 0, cases_total = 0;
  try {
    if (!trace_path.empty()) {
      trace.open(trace_path);
      if (!trace) throw std::runtime_error("cannot write " + trace_path);
    }
    if (!cases_path.empty()) {
      std::ifstream in(cases_path);
      if (!in) throw std::runtime_error("cannot read " + cases_path);
      std::string line;
      long idx = 0;
      while (std::getline(in, line)) {
        if (line.empty() || line[0] != 'C') continue;
        long my = idx++;
        if (my % nshards != shard) continue;
        cases_total++;
        if (!complete) continue;
        if ((cases_done & 255) == 0 && secs() > budget) {
          complete = false;
          continue;
        }
        Case c;
        if (!parse_case(line, c)) throw std::runtime_error("bad case line: " + line);
        if (only_variant >= 0 || only_edge >= 0) {
          run_variant(c, std::max(only_variant, 0), std::max(only_edge, 0), seed);
        } else {
          for (int v = 0; v < variants; v++) run_variant(c, v, 0, seed);
          if (c.rect && edge_mod > 0 && fnv(c.key()) % (uint64_t)edge_mod == 0) {
            for (int e = 1; e <= 3; e++) run_variant(c, 0, e, seed);
          }
        }
        cases_done++;
      }
    }
    if (nrandom > 0) run_random(nrandom, seed);
    if (gen) run_gen(gen_events, gen_confs, seed);
    run_many(seed);
    if (trace.is_open()) trace.close();
  } catch (std::exception & e) {
    std::cerr.rdbuf(old_cerr);
    std::cerr << "mdl_replay: " << e.what() << std::endl;
    return 3;
  }
  std::cerr.rdbuf(old_cerr);
  std::ostringstream o;
  o << "{\"cases_done\":" << cases_done << ",\"cases_total\":" << cases_total << ",\"complete\":" << (complete ? "true" : "false")
    << ",\"wall\":" << secs() << ",\"rect_checks\":" << rect_checks << ",\"rect_fail_A\":" << rect_fail_A
    << ",\"rect_fail_B\":" << rect_fail_B << ",\"counters\":{";
  bool first = true;
  for (const auto & kv : ctr) {
    o << (first ? "" : ",") << "\"" << kv.first << "\":" << kv.second;
    first = false;
  }
  o << "},\"violations\":[";
  first = true;
  dump_bucket(o, viols, first);
  o << "],\"rectA\":[";
  first = true;
  dump_bucket(o, rectA, first);
  o << "],\"rectB\":[";
  first = true;
  dump_bucket(o, rectB, first);
  o << "]}";
  std::cout << o.str() << std::endl;
  return 0;
}
