// Catalogue / dispatch probe for property C05.
//   A                         print the catalogue sets the library publishes through its API
//   P <cat> <name>            probe: initialisation verdict, and for accepted names 5 events (particle counts, routines entered)
//   T <cat> <name> <seed> <n> record the dispatch trace of n events (ndjson on the file given by --trace)
//   X <name> <seed> <n> <k> r1 [u1] .. rk [uk]   background only: n events through genbbsub and through direct calls of the
//                             chain's scheme routines (ri, ui = 1: only unless the event starts with an alpha); must be bit-identical
#include <cstdlib>
#include <functional>
#include <map>

#include <bxdecay0/bb.h>
#include <bxdecay0/bb_utils.h>
#include <bxdecay0/event.h>
#include <bxdecay0/genbbsub.h>

#include "common/vtrace.h"
#include "genbb_table.inc"

static FILE * tr = nullptr;

int main(int argc, char ** argv)
{
  for (int i = 1; i < argc; i++)
    if (std::string(argv[i]) == "--trace" && i + 1 < argc) tr = std::fopen(argv[++i], "w");
  std::string line;
  while (std::getline(std::cin, line)) {
    std::istringstream ls(line);
    std::string k;
    ls >> k;
    if (k == "A") {
      std::printf("{\"api\":true,\"bkg\":[");
      bool f = true;
      for (const auto & s : bxdecay0::background_isotopes()) { std::printf("%s\"%s\"", f ? "" : ",", s.c_str()); f = false; }
      std::printf("],\"dbd\":[");
      f = true;
      for (const auto & s : bxdecay0::dbd_isotopes()) { std::printf("%s\"%s\"", f ? "" : ",", s.c_str()); f = false; }
      std::printf("],\"modes\":[");
      f = true;
      for (const auto & m : bxdecay0::dbd_modes()) {
        std::printf("%s[%d,\"%s\",%d]", f ? "" : ",", (int)m.first, m.second.unique_label.c_str(), (int)m.second.legacy_modebb);
        f = false;
      }
      std::printf("],\"labels_roundtrip\":");
      bool ok = true;
      for (const auto & m : bxdecay0::dbd_modes())
        if (bxdecay0::dbd_mode_from_label(m.second.unique_label) != m.first || bxdecay0::dbd_mode_label(m.first) != m.second.unique_label) ok = false;
      std::printf("%s}\n", ok ? "true" : "false");
    } else if (k == "P" || k == "T") {
      std::string cat, name;
      uint64_t seed = 1;
      int n = 5;
      ls >> cat >> name;
      if (k == "T") ls >> seed >> n;
      int i2 = cat == "dbd" ? bxdecay0::GENBBSUB_I2BBS_DBD : bxdecay0::GENBBSUB_I2BBS_BACKGROUND;
      int level = cat == "dbd" ? 0 : -1, mode = cat == "dbd" ? 1 : -1;
      std::string opt;
      if (ls >> opt) { level = std::atoi(opt.c_str()); ls >> mode; }
      bxdecay0::bbpars pars;
      bxdecay0::event ev;
      vh::stream s0(seed);
      int ier = 0;
      bool threw = false;
      try {
        bxdecay0::genbbsub(s0, ev, i2, name, level, mode, bxdecay0::GENBBSUB_ISTART_INIT, ier, pars);
      } catch (std::exception &) {
        threw = true;
      }
      bool acc = !threw && ier == 0;
      size_t npmin = 1000, npmax = 0;
      std::string routines;
      for (int i = 0; acc && i < n; i++) {
        vh::Recorder rec;
        vh::PlanSource src(seed * 977 + i);
        src.rec = &rec;
        rec.draws_ptr = &src.ndraws;
        ev.reset();
        rec.install();
        try {
          bxdecay0::genbbsub(src, ev, i2, name, level, mode, bxdecay0::GENBBSUB_ISTART_GENERATE, ier, pars);
        } catch (std::exception &) {
          threw = true;
        }
        vh::Recorder::uninstall();
        npmin = std::min(npmin, ev.get_particles().size());
        npmax = std::max(npmax, ev.get_particles().size());
        bool alpha = !ev.get_particles().empty() && ev.get_particles().front().is_alpha();
        std::string rs;
        if (tr) std::fprintf(tr, "{\"e\":\"Reset\"}\n{\"e\":\"Genbb\",\"cat\":\"%s\",\"name\":\"%s\"}\n", cat.c_str(), name.substr(0, name.find('+')).c_str());
        for (const auto & e : rec.evs) {
          if (e.kind != 0) continue;
          std::string r;
          if (e.name.compare(0, 7, "scheme:") == 0) r = e.name.substr(7);
          else if (e.name == "bb") r = "bb";
          else continue;
          rs += (rs.empty() ? "" : ",") + r;
          if (tr) std::fprintf(tr, "{\"e\":\"Enter\",\"s\":\"%s\",\"alpha\":%d}\n", r.c_str(), alpha ? 1 : 0);
        }
        if (tr) std::fprintf(tr, "{\"e\":\"Exit\"}\n");
        if (routines.empty()) routines = rs;
      }
      std::printf("{\"probe\":\"%s\",\"cat\":\"%s\",\"accepted\":%s,\"threw\":%s,\"npmin\":%zu,\"npmax\":%zu,\"routines\":\"%s\"}\n", name.c_str(), cat.c_str(),
                  acc ? "true" : "false", threw ? "true" : "false", acc ? npmin : 0, npmax, routines.c_str());
    } else if (k == "X") {
      std::string name;
      uint64_t seed;
      int n, kk;
      ls >> name >> seed >> n >> kk;
      std::vector<std::pair<std::string, int>> chain;
      for (int i = 0; i < kk; i++) {
        std::string r;
        int u;
        ls >> r >> u;
        chain.push_back({r, u});
      }
      int nbad = 0;
      std::string first;
      bxdecay0::bbpars pars;
      for (int i = 0; i < n; i++) {
        vh::stream s1(seed * 7907 + i), s2(seed * 7907 + i);
        bxdecay0::event e1, e2;
        int ier = 0;
        bxdecay0::genbbsub(s1, e1, bxdecay0::GENBBSUB_I2BBS_BACKGROUND, name, -1, -1, bxdecay0::GENBBSUB_ISTART_GENERATE, ier, pars);
        // direct: the documented composition of the nuclide's own scheme and its daughters
        e2.set_generator(name);
        e2.set_time(0.0); // documented: the event reference time is forced to 0
        bool ok = true;
        for (size_t c = 0; c < chain.size(); c++) {
          auto it = scheme_table().find(chain[c].first);
          if (it == scheme_table().end()) { ok = false; break; }
          if (c > 0 && chain[c].second && !e2.get_particles().empty() && e2.get_particles().front().is_alpha()) continue;
          size_t np0 = e2.get_particles().size();
          double td = 0;
          it->second(s2, e2, 0., td);
          if (c > 0) e2.shift_particles_time(td, (int)np0);
        }
        if (!ok || vh::fingerprint(e1) != vh::fingerprint(e2) || s1.served != s2.served) {
          nbad++;
          if (first.empty()) first = "event " + std::to_string(i) + ": genbbsub " + vh::short_event(e1) + " | direct " + vh::short_event(e2);
        }
      }
      std::printf("{\"direct\":\"%s\",\"n\":%d,\"bad\":%d,\"first\":\"%s\"}\n", name.c_str(), n, nbad, vh::json_escape(first).c_str());
    }
    std::fflush(stdout);
  }
  if (tr) std::fclose(tr);
  return 0;
}
