/* API of the compiled Decay0 reference library (libdecay0ref.so) */
#ifndef REFAPI_H
#define REFAPI_H
#include <setjmp.h>
#include <stddef.h>
#ifdef __cplusplus
extern "C" {
#endif
#define REF_MAXARGS 12
#define REF_NAMELEN 32
typedef struct { char name[REF_NAMELEN]; int n; double a[REF_MAXARGS]; } ref_event;

void ref_set_script(const double * u, size_t n);
size_t ref_script_pos(void);
int ref_exhausted(void);
void ref_arm_overrun(jmp_buf * jb); /* longjmp(*jb, 1) once the reference has asked for 2e6 deviates beyond its script */
void ref_trace_clear(void);
void ref_trace_enable(int on);
size_t ref_trace_size(void);
const ref_event * ref_trace_get(size_t i);

/* the reference program's own entry point and COMMON blocks (REAL = 8 bytes) */
void genbbsub_(int * i2bbs, char * chnuclide, int * ilevel, int * modebb, int * istart, int * ier, long len);
extern struct { double tevst; int npfull; int npgeant[100]; double pmoment[100][3]; double ptime[100]; } genevent_;
extern struct { double ebb1, ebb2, toallevents; int levelE; char chdspin[4]; } enrange_;
extern struct { double chi_GTw, chi_Fw, chip_GT, chip_F, chip_T, chip_P, chip_R; } eta_nme_;
#ifdef __cplusplus
}
#endif
#endif
