/* C side of the compiled Decay0 reference: deviate service, trace buffer, complex gamma via GSL.
   All Fortran REALs are 8 bytes (-fdefault-real-8). */
#include <math.h>
#include <setjmp.h>
#include <stdio.h>
#include <stdlib.h>
#include <string.h>
#include <gsl/gsl_errno.h>
#include <gsl/gsl_sf_gamma.h>

#include "refapi.h"

static const double * g_script = NULL;
static size_t g_n = 0, g_pos = 0;
static int g_exhausted = 0;
static jmp_buf * g_overrun_jmp = NULL;   /* armed by the driver: leave the reference when it runs away on an exhausted script */
#define REF_OVERRUN_LIMIT 2000000

void ref_arm_overrun(jmp_buf * jb) { g_overrun_jmp = jb; }

void ref_set_script(const double * u, size_t n) { g_script = u; g_n = n; g_pos = 0; g_exhausted = 0; }
size_t ref_script_pos(void) { return g_pos; }
int ref_exhausted(void) { return g_exhausted; }

static double next_deviate(void)
{
  if (g_pos >= g_n) {
    g_exhausted = 1;
    g_pos++;
    if (g_overrun_jmp && g_pos > g_n + REF_OVERRUN_LIMIT) {
      jmp_buf * jb  = g_overrun_jmp;
      g_overrun_jmp = NULL;
      longjmp(*jb, 1);
    }
    return 0.5;
  }
  return g_script[g_pos++];
}

void ranlux_(double * r, int * n) { for (int i = 0; i < *n; i++) r[i] = next_deviate(); }

void cgamc_(double * re, double * im, double * ore, double * oim)
{
  gsl_sf_result lnr, arg;
  gsl_error_handler_t * h = gsl_set_error_handler_off();
  gsl_sf_lngamma_complex_e(*re, *im, &lnr, &arg);
  gsl_set_error_handler(h);
  double m = exp(lnr.val);
  *ore = m * cos(arg.val);
  *oim = m * sin(arg.val);
}

/* ---- trace buffer ---- */
static ref_event * g_ev = NULL;
static size_t g_nev = 0, g_cap = 0;
static int g_trace_on = 1;

void ref_trace_clear(void) { g_nev = 0; }
void ref_trace_enable(int on) { g_trace_on = on; }
size_t ref_trace_size(void) { return g_nev; }
const ref_event * ref_trace_get(size_t i) { return &g_ev[i]; }

static void push(const char * name, int n, const double * a)
{
  if (!g_trace_on) return;
  if (g_nev == g_cap) { g_cap = g_cap ? 2 * g_cap : 1024; g_ev = (ref_event *)realloc(g_ev, g_cap * sizeof(ref_event)); }
  ref_event * e = &g_ev[g_nev++];
  strncpy(e->name, name, sizeof e->name - 1);
  e->name[sizeof e->name - 1] = 0;
  e->n = n;
  for (int i = 0; i < n && i < REF_MAXARGS; i++) e->a[i] = a[i];
}

#define D double *
void vtrpart_(int * np, D e1, D e2, D t1, D t2, D p1, D p2, D tc, D th) { double a[] = {(double)*np, *e1, *e2, *t1, *t2, *p1, *p2, *tc, *th}; push("particle", 9, a); }
void vtrgam_(D e, D tc, D th) { double a[] = {*e, *tc, *th}; push("gamma", 3, a); }
void vtrele_(D e, D tc, D th) { double a[] = {*e, *tc, *th}; push("electron", 3, a); }
void vtrpos_(D e, D tc, D th) { double a[] = {*e, *tc, *th}; push("positron", 3, a); }
void vtralp_(D e, D tc, D th) { double a[] = {*e, *tc, *th}; push("alpha", 3, a); }
void vtrpair_(D e, D tc, D th) { double a[] = {*e, *tc, *th}; push("pair", 3, a); }
void vtrbeta_(D q, D z, D tc, D th) { double a[] = {*q, *z, *tc, *th}; push("beta", 4, a); }
void vtrbeta1_(D q, D z, D tc, D th, D c1, D c2, D c3, D c4) { double a[] = {*q, *z, *tc, *th, *c1, *c2, *c3, *c4}; push("beta1", 8, a); }
void vtrbeta2_(D q, D z, D tc, D th, int * kf, D c1, D c2, D c3, D c4) { double a[] = {*q, *z, *tc, *th, (double)*kf, *c1, *c2, *c3, *c4}; push("beta2", 9, a); }
void vtrbeta1fu_(D q, D z, D tc, D th, D c1, D c2, D c3, D c4) { double a[] = {*q, *z, *tc, *th, *c1, *c2, *c3, *c4}; push("beta_1fu", 8, a); }
void vtrntk_(D eg, D eb, D ce, D cp, D tc, D th) { double a[] = {*eg, *eb, *ce, *cp, *tc, *th}; push("nucltransK", 6, a); }
void vtrntkl_(D eg, D ek, D ck, D el, D cl, D cp, D tc, D th) { double a[] = {*eg, *ek, *ck, *el, *cl, *cp, *tc, *th}; push("nucltransKL", 8, a); }
void vtrntklm_(D eg, D ek, D ck, D el, D cl, D em, D cm, D cp, D tc, D th) { double a[] = {*eg, *ek, *ck, *el, *cl, *em, *cm, *cp, *tc, *th}; push("nucltransKLM", 10, a); }
void vtrntklmpb_(D eg, D ek, D ck, D el, D cl, D em, D cm, D cp, D tc, D th) { double a[] = {*eg, *ek, *ck, *el, *cl, *em, *cm, *cp, *tc, *th}; push("nucltransKLM_Pb", 10, a); }
void vtrpbat_(int * klm, D tc, D th) { double a[] = {(double)*klm, *tc, *th}; push("PbAtShell", 3, a); }
void vtrbb_(int * modebb, int * istart, D q, D edl, D ek, D z, D ad) { double a[] = {(double)*modebb, (double)*istart, *q, *edl, *ek, *z, *ad}; push("bb", 7, a); }

static void pushname(const char * s, long len, double v)
{
  char nm[REF_NAMELEN];
  long n = len;
  while (n > 0 && s[n - 1] == ' ') n--;
  if (n > (long)sizeof nm - 8) n = sizeof nm - 8;
  memcpy(nm, "scheme:", 7);
  memcpy(nm + 7, s, n);
  nm[7 + n] = 0;
  push(nm, 1, &v);
}
void vtrsch_(const char * s, D tcnuc, long len) { pushname(s, len, *tcnuc); }
void vtrlow_(const char * s, int * lev, long len) { pushname(s, len, (double)*lev); }
