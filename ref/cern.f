c     Independent re-implementations of the CERNLIB routines DECAY0 uses (spike)
      function gauss(f,a,b,eps)
      external f
      dimension w(12),x(12)
      data x/0.96028985649753623d0,0.79666647741362674d0,
     +       0.52553240991632899d0,0.18343464249564980d0,
     +       0.98940093499164993d0,0.94457502307323258d0,
     +       0.86563120238783174d0,0.75540440835500303d0,
     +       0.61787624440264375d0,0.45801677765722739d0,
     +       0.28160355077925891d0,0.09501250983763744d0/
      data w/0.10122853629037626d0,0.22238103445337447d0,
     +       0.31370664587788729d0,0.36268378337836198d0,
     +       0.02715245941175409d0,0.06225352393864789d0,
     +       0.09515851168249278d0,0.12462897125553387d0,
     +       0.14959598881657673d0,0.16915651939500254d0,
     +       0.18260341504492359d0,0.18945061045506850d0/
      const=1.0d-12
      delta=const*abs(a-b)
      gauss=0.
      aa=a
 5    y=b-aa
      if(abs(y).le.delta) return
 2    bb=aa+y
      c1=0.5d0*(aa+bb)
      c2=c1-aa
      s8=0.
      s16=0.
      do i=1,4
         u=x(i)*c2
         s8=s8+w(i)*(f(c1+u)+f(c1-u))
      enddo
      do i=5,12
         u=x(i)*c2
         s16=s16+w(i)*(f(c1+u)+f(c1-u))
      enddo
      s8=s8*c2
      s16=s16*c2
      if(abs(s16-s8).gt.eps*(1.+abs(s16))) go to 4
      gauss=gauss+s16
      aa=bb
      go to 5
 4    y=0.5d0*y
      if(abs(y).gt.delta) go to 2
      print *,'GAUSS: too high accuracy required'
      gauss=0.
      return
      end

      function dgmltx(fsub,a,b,ni,ng,x)
      double precision dgmltx,a,b,x(*),w(14),t(14),v(64),u(64),f(64)
      double precision d,r,ra,s,rta
      external fsub
      data w/0.171324492379170345d0,0.360761573048138608d0,
     + 0.467913934572691047d0,0.467913934572691047d0,
     + 0.360761573048138608d0,0.171324492379170345d0,
     + 0.101228536290376259d0,0.222381034453374471d0,
     + 0.313706645877887287d0,0.362683783378361983d0,
     + 0.362683783378361983d0,0.313706645877887287d0,
     + 0.222381034453374471d0,0.101228536290376259d0/
      data t/-0.932469514203152028d0,-0.661209386466264514d0,
     + -0.238619186083196909d0,0.238619186083196909d0,
     + 0.661209386466264514d0,0.932469514203152028d0,
     + -0.960289856497536232d0,-0.796666477413626740d0,
     + -0.525532409916328986d0,-0.183434642495649805d0,
     + 0.183434642495649805d0,0.525532409916328986d0,
     + 0.796666477413626740d0,0.960289856497536232d0/
      m0=ng
      if(m0.ne.8) m0=6
      i0=0
      if(m0.eq.8) i0=6
      d=(b-a)/ni
      r=0.5d0*d
      ra=r+a
      mv=mod(m0*ni-1,64)+1
      s=0.d0
      j=0
      do i=1+i0,m0+i0
         rta=r*t(i)+ra
         do k=1,ni
            j=j+1
            v(j)=w(i)
            u(j)=rta+(k-1)*d
            if(j.eq.mv) then
               call fsub(mv,u,f,x)
               do jj=1,mv
                  s=s+v(jj)*f(jj)
               enddo
               mv=64
               j=0
            endif
         enddo
      enddo
      dgmltx=r*s
      return
      end
      function dgmlt1(fsub,a,b,ni,ng,x)
      double precision dgmlt1,dgmltx,a,b,x(*)
      external fsub
      dgmlt1=dgmltx(fsub,a,b,ni,ng,x)
      end
      function dgmlt2(fsub,a,b,ni,ng,x)
      double precision dgmlt2,a,b,x(*),w(14),t(14),v(64),u(64),f(64)
      double precision d,r,ra,s,rta
      external fsub
      data w/0.171324492379170345d0,0.360761573048138608d0,
     + 0.467913934572691047d0,0.467913934572691047d0,
     + 0.360761573048138608d0,0.171324492379170345d0,
     + 0.101228536290376259d0,0.222381034453374471d0,
     + 0.313706645877887287d0,0.362683783378361983d0,
     + 0.362683783378361983d0,0.313706645877887287d0,
     + 0.222381034453374471d0,0.101228536290376259d0/
      data t/-0.932469514203152028d0,-0.661209386466264514d0,
     + -0.238619186083196909d0,0.238619186083196909d0,
     + 0.661209386466264514d0,0.932469514203152028d0,
     + -0.960289856497536232d0,-0.796666477413626740d0,
     + -0.525532409916328986d0,-0.183434642495649805d0,
     + 0.183434642495649805d0,0.525532409916328986d0,
     + 0.796666477413626740d0,0.960289856497536232d0/
      m0=ng
      if(m0.ne.8) m0=6
      i0=0
      if(m0.eq.8) i0=6
      d=(b-a)/ni
      r=0.5d0*d
      ra=r+a
      mv=mod(m0*ni-1,64)+1
      s=0.d0
      j=0
      do i=1+i0,m0+i0
         rta=r*t(i)+ra
         do k=1,ni
            j=j+1
            v(j)=w(i)
            u(j)=rta+(k-1)*d
            if(j.eq.mv) then
               call fsub(mv,u,f,x)
               do jj=1,mv
                  s=s+v(jj)*f(jj)
               enddo
               mv=64
               j=0
            endif
         enddo
      enddo
      dgmlt2=r*s
      return
      end

      function divdif(f,a,nn,x,mm)
c     CERNLIB E105: Newton divided-difference interpolation of order mm in table (a,f), nn points
      dimension a(nn),f(nn),t(20),d(20)
      logical extra
      logical mflag,rflag
      data mmax/10/
      n=nn
      m=min0(mm,mmax,n-1)
      mplus=m+1
      ix=0
      iy=n+1
      if(a(1).gt.a(n)) go to 4
 1    mid=(ix+iy)/2
      if(x.ge.a(mid)) go to 2
      iy=mid
      go to 3
 2    ix=mid
 3    if(iy-ix.gt.1) go to 1
      go to 7
 4    mid=(ix+iy)/2
      if(x.le.a(mid)) go to 5
      iy=mid
      go to 6
 5    ix=mid
 6    if(iy-ix.gt.1) go to 4
 7    npts=m+2-mod(m,2)
      ip=0
      l=0
      go to 9
 8    l=-l
      if(l.ge.0) l=l+1
 9    isub=ix+l
      if((1.le.isub).and.(isub.le.n)) go to 10
      npts=mplus
      go to 11
 10   ip=ip+1
      t(ip)=a(isub)
      d(ip)=f(isub)
 11   if(ip.lt.npts) go to 8
      extra=npts.ne.mplus
      do l=1,m
         if(.not.extra) go to 12
         isub=mplus-l
         d(m+2)=(d(m+2)-d(m))/(t(m+2)-t(isub))
 12      i=mplus
         do j=l,m
            isub=i-l
            d(i)=(d(i)-d(i-1))/(t(i)-t(isub))
            i=i-1
         enddo
      enddo
      sum=d(mplus)
      if(extra) sum=0.5*(sum+d(m+2))
      j=m
      do l=1,m
         sum=d(j)+(x-t(j))*sum
         j=j-1
      enddo
      divdif=sum
      return
      end
      complex function cgamma(z)
      complex z
      real re,im,ore,oim
      re=real(z)
      im=aimag(z)
      call cgamc(re,im,ore,oim)
      cgamma=cmplx(ore,oim)
      return
      end
      subroutine datime(id,it)
      id=0
      it=0
      end
      function rndm(d)
      rndm=rnd1(d)
      end
