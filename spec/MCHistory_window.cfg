SPECIFICATION Spec
CONSTANTS
  Gens <- MCGens
  Evs <- MCEvsQuick
  Streams <- MCStreams
  Cfgs <- MCCfgsWindow
VIEW view
INVARIANTS TypeOK OutcomeFromLiveGenerator
PROPERTY OutcomeIsCanonical
CHECK_DEADLOCK FALSE
