-------------------------- MODULE TraceGslHandler --------------------------
(* Validation of executions recorded from the REAL quadrature wrapper against  *)
(* GslHandler with UseLock = TRUE ("Safe").                                     *)
(*                                                                             *)
(* The log (ndjson, env TRACE) is a concatenation of executions:                *)
(*   {"e":"Reset","x":id,"n":threads,"q":quadratures per thread,"t":0,"a":""}   *)
(*   {"e":"Save","t":t,"a":seen}       gsl_set_error_handler_off() returned seen *)
(*   {"e":"Integrate","t":t,"a":r}     one QNG call returned ok | etol          *)
(*   {"e":"Restore","t":t,"a":h}       gsl_set_error_handler(h)                 *)
(*   {"e":"Abort","t":t,"a":""}        the process died in t's call             *)
(*   {"e":"End","t":0,"a":h}           all threads done, process-wide handler h *)
(*   {"e":"Eof",...}                   last line                                *)
(* in the order in which the calls REALLY happened (records are appended under  *)
(* the scheduler's lock by the interposed GSL functions).                       *)
(*                                                                             *)
(* A critical section is not observable from outside, so Acquire and Release   *)
(* are silent steps placed where they constrain least: Acquire immediately     *)
(* before the thread's Save, Release immediately after its Restore.  If any    *)
(* placement makes the execution a behaviour of Safe, this one does.           *)
(*                                                                             *)
(* The module is a monitor: a line that Safe does not allow marks the          *)
(* execution as rejected (with the reason), the rest of that execution is      *)
(* skipped and validation goes on with the next one, so one TLC run judges     *)
(* every execution.  Each verdict is printed (<<"C12REJ", ...>>); the Eof line  *)
(* writes the number of lines read and of rejections to env C12_REJ.           *)
EXTENDS GslHandler, Sequences, Json, IOUtils, TLC

Log == ndJsonDeserialize(IOEnv.TRACE)
TraceThreads == 1..4

VARIABLES
  l,         \* next line
  skipping,  \* the current execution is already rejected (or none started)
  rej,       \* number of rejected executions so far (each verdict is printed: <<"C12REJ", x, line, e, t, why>>)
  xid        \* id of the current execution

mon == <<l, skipping, rej, xid>>
tvars == <<vars, mon>>

Ev == Log[l]
HasLine == l <= Len(Log)

TInit ==
  /\ handler = InitHandler
  /\ saved = [t \in Threads |-> "none"]
  /\ pc = [t \in Threads |-> "idle"]
  /\ left = [t \in Threads |-> 0]
  /\ tries = [t \in Threads |-> 0]
  /\ lock = Free
  /\ aborted = FALSE
  /\ l = 1 /\ skipping = TRUE /\ rej = 0 /\ xid = 0

\* a new execution: fresh process
Reset ==
  /\ HasLine /\ Ev.e = "Reset"
  /\ handler' = InitHandler
  /\ saved' = [t \in Threads |-> "none"]
  /\ pc' = [t \in Threads |-> "idle"]
  /\ left' = [t \in Threads |-> IF t <= Ev.n THEN Ev.q ELSE 0]
  /\ tries' = [t \in Threads |-> 0]
  /\ lock' = Free
  /\ aborted' = FALSE
  /\ l' = l + 1 /\ skipping' = FALSE /\ xid' = Ev.x /\ rej' = rej

NoneReleasing == \A u \in Threads : pc[u] # "release"

\* unobservable steps of Safe, at their least constraining place
Silent ==
  /\ \/ \E t \in Threads : Release(t)
     \/ /\ NoneReleasing
        /\ Ev.e = "Save" /\ Ev.t \in Threads /\ pc[Ev.t] = "idle"
        /\ Acquire(Ev.t)
  /\ UNCHANGED mon

\* the line is what Safe allows next
Consume ==
  /\ NoneReleasing
  /\ \/ /\ Ev.e = "Save" /\ Ev.t \in Threads
        /\ Ev.a = handler
        /\ Save(Ev.t)
     \/ /\ Ev.e = "Integrate" /\ Ev.t \in Threads
        /\ Ev.a \in Results
        /\ Integrate(Ev.t, Ev.a)
     \/ /\ Ev.e = "Restore" /\ Ev.t \in Threads
        /\ Ev.a = saved[Ev.t]
        /\ Restore(Ev.t)
     \/ /\ Ev.e = "End"
        /\ AllDone
        /\ Ev.a = handler /\ handler = InitHandler
        /\ UNCHANGED vars
  /\ l' = l + 1 /\ UNCHANGED <<skipping, rej, xid>>

Progress == Silent \/ Consume

Why ==
  CASE Ev.e = "Save" ->
         IF Ev.t \in Threads /\ lock \notin {Free, Ev.t} THEN "overlap"
         ELSE IF Ev.a # handler THEN "seen" ELSE "order"
    [] Ev.e = "Integrate" ->
         IF Ev.t \in Threads /\ pc[Ev.t] # "integ" THEN "integrate-outside" ELSE "order"
    [] Ev.e = "Restore" ->
         IF Ev.t \in Threads /\ pc[Ev.t] = "integ" THEN "restore-early"
         ELSE IF Ev.t \in Threads /\ pc[Ev.t] = "restore" THEN "restore-value" ELSE "order"
    [] Ev.e = "End" -> IF ~AllDone THEN "incomplete" ELSE "not-restored"
    [] Ev.e = "Abort" -> "abort"
    [] OTHER -> "unknown-event"

Reject ==
  /\ HasLine /\ ~skipping /\ Ev.e \notin {"Reset", "Eof"}
  /\ ~ENABLED Progress
  /\ PrintT(<<"C12REJ", xid, l, Ev.e, Ev.t, Why>>)
  /\ rej' = rej + 1
  /\ skipping' = TRUE /\ l' = l + 1 /\ xid' = xid
  /\ UNCHANGED vars

Skip ==
  /\ HasLine /\ skipping /\ Ev.e \notin {"Reset", "Eof"}
  /\ l' = l + 1 /\ UNCHANGED <<skipping, rej, xid>> /\ UNCHANGED vars

Eof ==
  /\ HasLine /\ Ev.e = "Eof"
  /\ JsonSerialize(IOEnv.C12_REJ, [consumed |-> l, rejected |-> rej])
  /\ PrintT(<<"C12EOF", l, rej>>)
  /\ l' = l + 1 /\ UNCHANGED <<skipping, rej, xid>> /\ UNCHANGED vars

TNext ==
  \/ Reset
  \/ (HasLine /\ ~skipping /\ Ev.e \notin {"Reset", "Eof"} /\ Progress)
  \/ Reject
  \/ Skip
  \/ Eof

TSpec == TInit /\ [][TNext]_tvars

\* every state the monitor passes through is a Safe state
TNoAbort == NoAbort
TOneSaver == OneSaver
TSilenced == Silenced

\* machinery check: the whole log was read
AllConsumed == TLCGet("stats").diameter - 1 >= Len(Log)
=============================================================================
