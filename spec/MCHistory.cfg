SPECIFICATION Spec
CONSTANTS
  Gens <- MCGens
  Evs <- MCEvsQuick
  Streams <- MCStreams
  Cfgs <- MCCfgsSmall
VIEW view
INVARIANTS TypeOK OutcomeFromLiveGenerator
PROPERTY OutcomeIsCanonical
CHECK_DEADLOCK FALSE
