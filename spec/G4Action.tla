------------------------------ MODULE G4Action ------------------------------
(* Property C17: the Geant4 primary-generator action of the bxdecay0_g4       *)
(* extension (bxdecay0_g4::PrimaryGeneratorAction), written as the state      *)
(* machine the property states.  One action per public call of the class.     *)
(*                                                                            *)
(*   SetConfiguration(c)   the user submits an interface configuration         *)
(*   ApplyConfiguration    the user asks for it to be applied now              *)
(*   DestroyConfiguration  the user drops the configuration                    *)
(*   GeneratePrimaries     Geant4 asks for the primaries of one event; a       *)
(*                         configuration submitted since the last application  *)
(*                         is applied first (implicit ApplyConfiguration)      *)
(*   SetVertexGenerator(v, owned)  the user installs a vertex generator        *)
(*   TouchGun              the user changes the multiplicity of the action's   *)
(*                         particle gun (public accessor, /gun/number)          *)
(*                                                                            *)
(* What the property demands, and what is therefore fixed here:               *)
(*  (V) a submitted configuration is REFUSED in exactly the cases in which    *)
(*      the core tools refuse the same request (CoreAccept below: the checks  *)
(*      of bxdecay0-run's command line, of bxdecay0::driver, the published    *)
(*      catalogues background_isotopes()/dbd_isotopes() and                   *)
(*      decay0_generator::initialize), for background as for double-beta      *)
(*      requests.  "Refused" = the call aborts the run, raises, or (for an     *)
(*      explicit ApplyConfiguration) reports an error.  The refusal of an     *)
(*      explicitly applied configuration may be DEFERRED to the first request *)
(*      of primaries (the generator is instantiated lazily); it may not be    *)
(*      skipped.                                                              *)
(*  (H) every accepted request of primaries hands over the particles of ONE   *)
(*      decay of the configured generator: `handed` names that decay as       *)
(*      (configuration, index in the stream of a generator freshly seeded     *)
(*      with the configuration's seed, vertex source).  The harness expands   *)
(*      the name into the list of primaries (one per BxDecay0 particle, same  *)
(*      order, species map gamma/e+/e-/alpha, momentum in MeV, time in        *)
(*      seconds, common vertex = the installed generator's, origin if none)   *)
(*      and compares it with what the real class pushed into the G4Event.     *)
(*                                                                            *)
(* Named deviations from an idealised protocol (allowed, not demanded):       *)
(*  - KeepPrivate : DestroyConfiguration resets the interface configuration   *)
(*    and the generator, but the private driver configuration may survive; a  *)
(*    later GeneratePrimaries may either be refused or re-instantiate it      *)
(*    (stream restarted from the seed).  The property is silent on Destroy.   *)
(*  - KeepOld : a refused configuration may leave the "changed" flag set and  *)
(*    the previous generator untouched (it is then re-evaluated, and refused  *)
(*    again, by the next call) or clear everything.                           *)
(*  - SeedZero : the core tools accept seed 0, the extension documents        *)
(*    "seed > 0" for one command and "seed >= 0" for the others: either       *)
(*    verdict is allowed for seed 0.                                          *)
(*  - verbosity / debug flags are management state, not configuration.        *)
EXTENDS Integers, Sequences, FiniteSets, TLC

CONSTANTS
  Configs,      \* interface configurations the environment may submit (records, see ConfigSpace)
  Vertexers,    \* vertex sources that can be installed: subset of {"p1", "p2", "seq", "none"}
  MaxShots      \* model bound on the number of decays drawn from one generator instance

VARIABLES
  iface,    \* the interface configuration (what GetConfiguration() shows)
  changed,  \* "configuration has changed" flag
  cur,      \* configuration held by the private driver (applied, possibly not yet instantiated) or NoCfg
  live,     \* a generator instantiated from `cur` exists and is initialised
  shots,    \* decays drawn from it so far
  vg,       \* installed vertex source ("none": no vertex generator)
  last,     \* verdict of the last call: "ok", or the criterion on which the configuration was refused
  handed    \* what the last call handed over: <<>> or <<[cfg, idx, vtx]>>

vars == <<iface, changed, cur, live, shots, vg, last, handed>>

-----------------------------------------------------------------------------
(* Configuration classes.  Concrete representatives are chosen by the harness *)
(* (harness/g4_replay.cc): nuclide "pub" = a published name (Co60 / Mo100),   *)
(* "pubp" / "puba" = names published as background only whose decays contain  *)
(* positrons / alphas (Na22, Am241; "pubz": Kr81 with a seed whose first decay *)
(* contains a zero-momentum X-ray; as double-beta requests they are names     *)
(* of the wrong catalogue), "unpub" = a name the library's dispatcher accepts *)
(* but the catalogue does not publish, "unk" = a name nobody knows,           *)
(* "empty" = "".                                                              *)
Cats   == {"bkg", "dbd", "bad", "none"}      \* "background", "dbd", any other string, "" (reset value)
\* "pubb": a name published in BOTH catalogues (Pb214, Po218, Rn222); instantiated on the background side only
Nucs   == {"pub", "pubp", "puba", "pubz", "pubb", "unpub", "unk", "empty"}
BkgPublished == {"pub", "pubp", "puba", "pubz", "pubb"}
Seeds  == {"s1", "s2", "zero", "neg", "dflt"} \* two positive seeds, 0, a negative one, the reset value (1)
Modes  == {0, 1, 4, 7, 20, 25}                \* 0 = undefined, 25 = beyond the last mode
Levels == {-1, 0, 1, 9}
Wins   == {"none", "ok", "inv"}               \* no window / 0.5..2.0 MeV / 2.0..1.0 MeV
Mdls   == {"off", "on", "rect"}   \* rect: momentum-direction lock with the rectangular cut (second half-angle)

ConfigSpace == [cat : Cats, nuc : Nucs, seed : Seeds, mode : Modes, level : Levels, win : Wins, mdl : Mdls]

\* the value a fresh or reset interface configuration has
Default == [cat |-> "none", nuc |-> "empty", seed |-> "dflt", mode |-> 0, level |-> 0, win |-> "none", mdl |-> "off"]

NoCfg == [cat |-> "none", nuc |-> "empty", seed |-> "dflt", mode |-> 0, level |-> 0, win |-> "none", mdl |-> "nocfg"]

-----------------------------------------------------------------------------
(* What the core tools refuse (the double-beta emitter of the model is Mo100: *)
(* daughter levels 0..4, level 1 and 3 are 2+, the others 0+).                *)
WindowModes == {4, 5, 6, 8, 10, 13, 14, 15, 16, 19}
ModesFor0   == {1, 2, 3, 4, 5, 6, 9, 10, 11, 12, 13, 14, 15, 17, 18, 19, 20}
ModesFor2   == {3, 7, 8, 9, 10, 11, 12, 16}
PubLevels   == 0..4
Spin(l)     == IF l \in {1, 3} THEN 2 ELSE 0

\* First criterion on which the core tools refuse c, "ok" if they accept it.  "malformed:*" are the
\* requests the command line / the driver refuse before looking anything up.
Criterion(c) ==
  IF c.cat \notin {"bkg", "dbd"} THEN "malformed:category"
  ELSE IF c.nuc = "empty" THEN "malformed:nuclide"
  ELSE IF c.seed = "neg" THEN "malformed:seed"
  ELSE IF c.cat = "bkg" THEN (IF c.nuc \in BkgPublished THEN "ok" ELSE "bkg-catalogue")
  ELSE IF c.mode < 1 THEN "malformed:mode"
  ELSE IF c.level < 0 THEN "malformed:level"
  ELSE IF c.nuc # "pub" THEN "dbd-catalogue"
  ELSE IF c.mode > 24 THEN "mode-range"
  ELSE IF c.win = "inv" THEN "window-order"
  ELSE IF c.win = "ok" /\ c.mode \notin WindowModes THEN "window-mode"
  ELSE IF c.level \notin PubLevels THEN "level-table"
  ELSE IF Spin(c.level) = 0 /\ c.mode \notin ModesFor0 THEN "mode-spin"
  ELSE IF Spin(c.level) = 2 /\ c.mode \notin ModesFor2 THEN "mode-spin"
  ELSE IF c.mode \in {9, 10, 11, 12} THEN "mode-nuclide"
  ELSE IF c.mode = 20 THEN "mode-4b"
  ELSE "ok"

CoreAccept(c) == Criterion(c) = "ok"

\* SeedZero deviation
MayAccept(c) == c # NoCfg /\ CoreAccept(c)
MayRefuse(c) == c = NoCfg \/ ~CoreAccept(c) \/ c.seed = "zero"
Why(c) == IF c = NoCfg THEN "no-configuration"
          ELSE IF CoreAccept(c) THEN "seed-zero" ELSE Criterion(c)

-----------------------------------------------------------------------------
TypeOK ==
  /\ iface \in Configs \cup {Default}
  /\ changed \in BOOLEAN
  /\ cur \in Configs \cup {NoCfg, Default}
  /\ live \in BOOLEAN
  /\ shots \in 0..MaxShots
  /\ vg \in Vertexers \cup {"none"}
  /\ last \in STRING
  /\ Len(handed) \in {0, 1}

Init ==
  /\ iface = Default /\ changed = FALSE /\ cur = NoCfg /\ live = FALSE /\ shots = 0
  /\ vg = "none" /\ last = "ok" /\ handed = <<>>

SetConfiguration(c) ==
  /\ iface' = c /\ changed' = TRUE /\ last' = "ok" /\ handed' = <<>>
  /\ UNCHANGED <<cur, live, shots, vg>>

\* outcome "refused on criterion w" of a call that evaluated a configuration
Refuse(w) ==
  /\ last' = w /\ handed' = <<>> /\ UNCHANGED <<iface, vg>>
  /\ \/ UNCHANGED <<changed, cur, live, shots>>                               \* KeepOld
     \/ changed' = FALSE /\ cur' = NoCfg /\ live' = FALSE /\ shots' = 0

\* a generator for c is instantiated (stream restarted from c's seed) and its first decay handed over
ServeFirst(c) ==
  /\ cur' = c /\ live' = TRUE /\ shots' = 1 /\ changed' = FALSE /\ last' = "ok"
  /\ handed' = <<[cfg |-> c, idx |-> 0, vtx |-> vg]>>
  /\ UNCHANGED <<iface, vg>>

ApplyConfiguration ==
  \/ /\ last' = "ok" /\ handed' = <<>>                                        \* accepted, or refusal deferred
     /\ changed' = FALSE /\ cur' = iface /\ live' = FALSE /\ shots' = 0
     /\ UNCHANGED <<iface, vg>>
  \/ MayRefuse(iface) /\ Refuse(Why(iface))

GeneratePrimaries ==
  IF changed
  THEN \/ MayAccept(iface) /\ ServeFirst(iface)                               \* implicit ApplyConfiguration
       \/ MayRefuse(iface) /\ Refuse(Why(iface))
  ELSE IF live
  THEN /\ shots < MaxShots                                                    \* model bound
       /\ shots' = shots + 1 /\ last' = "ok"
       /\ handed' = <<[cfg |-> cur, idx |-> shots, vtx |-> vg]>>
       /\ UNCHANGED <<iface, changed, cur, live, vg>>
  ELSE \/ MayAccept(cur) /\ ServeFirst(cur)                                   \* lazy instantiation / KeepPrivate revival
       \/ MayRefuse(cur) /\ Refuse(Why(cur))

DestroyConfiguration ==
  /\ iface' = Default /\ changed' = FALSE /\ live' = FALSE /\ shots' = 0
  /\ last' = "ok" /\ handed' = <<>> /\ UNCHANGED vg
  /\ cur' \in {cur, NoCfg}                                                    \* KeepPrivate

\* owned = TRUE: pointer overload (the action owns and deletes it), FALSE: reference overload
SetVertexGenerator(v, owned) ==
  /\ (v = "none" => owned)
  /\ vg' = v /\ last' = "ok" /\ handed' = <<>>
  /\ UNCHANGED <<iface, changed, cur, live, shots>>

\* between two events the user (or the macro command /gun/number) changes the multiplicity of the action's particle gun
\* (GetParticleGun() is public).  Nothing of the protocol state moves: the action re-arms the gun for single shots before every
\* particle, the next request of primaries hands over one primary per BxDecay0 particle as before.
TouchGun ==
  /\ last' = "ok" /\ handed' = <<>>
  /\ UNCHANGED <<iface, changed, cur, live, shots, vg>>

Next ==
  \/ \E c \in Configs : SetConfiguration(c)
  \/ TouchGun
  \/ ApplyConfiguration
  \/ DestroyConfiguration
  \/ GeneratePrimaries
  \/ \E v \in Vertexers, o \in BOOLEAN : SetVertexGenerator(v, o)

Spec == Init /\ [][Next]_vars

-----------------------------------------------------------------------------
(* The statement of C17 on this machine (checked by TLC on every model).      *)

Refused == last # "ok"

\* (V) nothing is ever served from a configuration the core tools refuse ...
ServedOnlyIfCoreAccepts == handed # <<>> => (~Refused /\ MayAccept(handed[1].cfg))
LiveOnlyIfCoreAccepts   == live => MayAccept(cur)
RefusedHandsNothing     == Refused => handed = <<>>
\* ... a submitted configuration is never bypassed: primaries requested after a change are the first decay
\* of a generator freshly seeded for the NEW configuration, which the core tools accept ...
ChangeIsEvaluated ==
  [][(changed /\ handed' # <<>>) =>
        (handed'[1].cfg = iface /\ handed'[1].idx = 0 /\ MayAccept(iface))]_vars
\* ... and a call refuses only a configuration the core tools refuse (the one it had to evaluate)
NoFalseRefusal ==
  [][Refused' => \/ (last' = Why(iface) /\ MayRefuse(iface))
                 \/ (~changed /\ ~live /\ last' = Why(cur) /\ MayRefuse(cur))]_vars
\* the decay counter moves only when a decay is handed over or the generator goes away
ShotsAccounting ==
  [][shots' # shots => \/ (shots' = 0 /\ handed' = <<>>)
                       \/ (handed' # <<>> /\ ~Refused' /\ shots' = handed'[1].idx + 1)]_vars

\* (H) decays are handed over in stream order, one per request, with the vertex source installed at that time
InOrder ==
  [][handed' # <<>> => /\ handed'[1].idx = (IF live /\ ~changed THEN shots ELSE 0)
                       /\ shots' = handed'[1].idx + 1
                       /\ handed'[1].vtx = vg
                       /\ handed'[1].cfg = cur' /\ live']_vars
=============================================================================
