------------------------------- MODULE Loader -------------------------------
(* Property C15: "Feeding a truncated, corrupted or adversarial event file, gA   *)
(* table or catalogue list [or command line] to the corresponding loader either  *)
(* raises an error or loads data that satisfies the loader's own validity        *)
(* predicate; it never crashes, reads out of bounds, allocates without bound or  *)
(* loops forever."                                                               *)
(*                                                                               *)
(* The model is a token-level grammar model of the input formats:                *)
(*   a document = a sequence of typed tokens  <<kind, role, text>>               *)
(*   a case     = a valid document x ONE injected fault x a token position       *)
(* TLC enumerates the cases (one state per case; the state carries the faulted   *)
(* document, which the harness renders to bytes and feeds to the real loader),   *)
(* and the same module states which observations of the real loader are          *)
(* acceptable (operator Accept, used by TraceLoader to validate what the         *)
(* harness observed).                                                            *)
(*                                                                               *)
(* What the property allows is deliberately weak and the spec does not add to    *)
(* it: for EVERY case both "error raised" and "loaded" are acceptable; what is   *)
(* never acceptable is a crash, an out-of-bounds / undefined access, an          *)
(* allocation beyond the cap, non-termination, or a loaded object that fails     *)
(* the loader's own validity predicate.  The only thing the spec derives from    *)
(* the document itself are the "no invention" bounds: a loader cannot deliver    *)
(* more values than the document holds (see Bound).                              *)
(*                                                                               *)
(* Token kinds : "nl" line end, "comment" one whole comment line, "kw" keyword,  *)
(*   "int", "count", "real" numeric fields, "name" free identifier, "word" free  *)
(*   text, "cum" / "one" the '^n' and '!1' tokens of the compact c.d.f. codec,   *)
(*   "opt" a command line option, "raw" a token rewritten by a fault.            *)
(* Special texts rendered by the harness: "<LONGD>" / "<LONGA>" a 10^6 character *)
(*   run of digits / letters, "<WS>" blanks and tabs, "<BASE>" a scratch path,   *)
(*   "<NEARPREV>" / "<SAMEPREV>" the previous field's value + 3 ulp / unchanged, *)
(*   "<FLOOD0>" 5000 blank-separated zeros.                                      *)
EXTENDS Integers, Sequences, FiniteSets, TLC

CONSTANTS
  Formats,   \* set of format names; names starting the set ArgvFormats are command lines
  ArgvFormats,
  Doc        \* [Formats -> Seq(<<kind, role, text>>)] : one valid document per format

VARIABLES fmt, doc, fault, verdict

vars == <<fmt, doc, fault, verdict>>

-----------------------------------------------------------------------------
(* Helpers on token sequences *)

Kind(t) == t[1]
Role(t) == t[2]
Text(t) == t[3]

NumericKinds == {"int", "count", "real"}
IsNum(t) == Kind(t) \in NumericKinds
IsNl(t) == Kind(t) = "nl"

Min(S) == CHOOSE x \in S : \A y \in S : x <= y

RemoveRange(s, a, b) == SubSeq(s, 1, a - 1) \o SubSeq(s, b + 1, Len(s))
InsertAfter(s, i, ts) == SubSeq(s, 1, i) \o ts \o SubSeq(s, i + 1, Len(s))
Raw(t, v) == <<"raw", Role(t), v>>

LineStart(s, i) == ~IsNl(s[i]) /\ (IF i = 1 THEN TRUE ELSE IsNl(s[i - 1]))
LineEnd(s, i) == LET js == {j \in i..Len(s) : IsNl(s[j])} IN IF js = {} THEN Len(s) ELSE Min(js)

NumTok(s) == Cardinality({i \in 1..Len(s) : ~IsNl(s[i])})
NumLines(s) == Cardinality({i \in 1..Len(s) : LineStart(s, i)})

-----------------------------------------------------------------------------
(* Fault kinds *)

PosKinds == {"truncate", "nonnumeric", "negative", "zero", "one", "hugecount", "overflow", "nan", "inf",
             "missing", "extra", "long", "dupline", "dropline", "emptytok", "nearprev", "sameprev", "flood", "bigcount", "widecount"}
DocKinds == {"empty", "wsonly", "crlf", "nofinalnl", "unknownopt"}

(* Roles for which a huge-but-representable number is a legitimate (if expensive) *)
(* request and not a malformed input: the number of events to generate.          *)
LegitHugeRoles == {"nev"}

FaultText(k, t) ==
  LET cum == Kind(t) = "cum" IN
  CASE k = "nonnumeric" -> IF cum THEN "^abc" ELSE "abc"
    [] k = "negative"   -> IF cum THEN "^-5" ELSE "-5"
    [] k = "zero"       -> "0"
    [] k = "one"        -> "1"
    [] k = "hugecount"  -> IF cum THEN "^2000000000" ELSE "2000000000"
    [] k = "bigcount"   -> "30000"        \* large but inside the ranges the loaders accept: whatever is sized from it (squared!) before
    [] k = "widecount"  -> "65536"        \* the data is seen must stay bounded; 65536^2 wraps a 32-bit product to 0
    [] k = "overflow"   -> IF cum THEN "^99999999999999999999"
                           ELSE IF Kind(t) = "real" THEN "1e999" ELSE "99999999999999999999"
    [] k = "nan"        -> "nan"
    [] k = "inf"        -> "inf"
    [] k = "long"       -> IF IsNum(t) THEN "<LONGD>" ELSE "<LONGA>"
    [] k = "emptytok"   -> ""
    [] k = "nearprev"   -> "<NEARPREV>"      \* the value of the previous field plus a few units in the last place
    [] k = "sameprev"   -> "<SAMEPREV>"      \* the text of the previous field (degenerate range)
    [] OTHER            -> Text(t)

Rewrites == {"nonnumeric", "negative", "zero", "one", "hugecount", "overflow", "nan", "inf", "long", "emptytok",
             "nearprev", "sameprev", "bigcount", "widecount"}

(* Is fault k injectable at token i of the valid document of format f ? *)
Applicable(f, k, i) ==
  LET s == Doc[f]
      t == s[i]
      argv == f \in ArgvFormats
  IN /\ i \in 1..Len(s)
     /\ CASE k = "truncate" -> i >= 2                     \* i = 1 is the fault "empty"
          [] k \in {"nonnumeric", "negative", "overflow"} -> IsNum(t) \/ Kind(t) = "cum"
          [] k \in {"zero", "one"} -> Kind(t) = "count"
          [] k = "hugecount" -> Kind(t) \in {"int", "count", "cum"} /\ Role(t) \notin LegitHugeRoles
          [] k \in {"bigcount", "widecount"} -> Kind(t) = "count" /\ Role(t) \notin LegitHugeRoles
          [] k \in {"nan", "inf"} -> Kind(t) = "real"
          [] k \in {"nearprev", "sameprev"} -> Kind(t) = "real" /\ i > 1 /\ Kind(s[i - 1]) = "real"
          [] k \in {"missing", "extra", "long"} -> ~IsNl(t)
          [] k = "flood" -> ~argv /\ IsNum(t)            \* a row that goes on and on: thousands of surplus zero values
          [] k \in {"dupline", "dropline"} -> ~argv /\ LineStart(s, i)
          [] k = "emptytok" -> argv
          [] OTHER -> FALSE
     /\ (k \in Rewrites => FaultText(k, t) # Text(t))   \* the fault must change the document

ApplicableDoc(f, k) ==
  LET argv == f \in ArgvFormats IN
  CASE k \in {"empty", "wsonly"} -> TRUE
    [] k = "crlf" -> ~argv
    [] k = "nofinalnl" -> ~argv /\ Len(Doc[f]) > 0 /\ IsNl(Doc[f][Len(Doc[f])])
    [] k = "unknownopt" -> argv
    [] OTHER -> FALSE

RECURSIVE StripNl(_)
StripNl(s) == IF s # <<>> /\ IsNl(s[Len(s)]) THEN StripNl(SubSeq(s, 1, Len(s) - 1)) ELSE s

(* The faulted document.  Position 0 = document-level fault.  "crlf" does not   *)
(* change the token sequence: it changes how every "nl" token is rendered.      *)
Apply(f, k, i) ==
  LET s == Doc[f] IN
  CASE k = "truncate"   -> SubSeq(s, 1, i - 1)
    [] k \in Rewrites   -> [s EXCEPT ![i] = Raw(s[i], FaultText(k, s[i]))]
    [] k = "missing"    -> RemoveRange(s, i, i)
    [] k = "extra"      -> InsertAfter(s, i, <<s[i]>>)
    [] k = "flood"      -> InsertAfter(s, i, << <<"raw", Role(s[i]), "<FLOOD0>">> >>)
    [] k = "dupline"    -> InsertAfter(s, LineEnd(s, i), SubSeq(s, i, LineEnd(s, i)))
    [] k = "dropline"   -> RemoveRange(s, i, LineEnd(s, i))
    [] k = "empty"      -> <<>>
    [] k = "wsonly"     -> IF f \in ArgvFormats THEN << <<"raw", "ws", "<WS>">> >>
                           ELSE << <<"raw", "ws", "<WS>">>, <<"nl", "nl", "">>, <<"raw", "ws", "<WS>">> >>
    [] k = "crlf"       -> s
    [] k = "nofinalnl"  -> StripNl(s)
    [] k = "unknownopt" -> Append(s, <<"opt", "bogus", "--bogus-option">>)
    [] OTHER            -> s

-----------------------------------------------------------------------------
(* What the property requires of the real loader on a case.                    *)

Allowed == {"error", "loaded"}   \* the same for every case: the property allows both

(* Symptoms the harness can report; everything outside Allowed is a violation: *)
(*   "crash"  signal / abort / unexplained exit                                  *)
(*   "oob"    out-of-bounds or use-after-free access (ASan, libstdc++ assertions)*)
(*   "ub"     other undefined behaviour reported by UBSan                        *)
(*   "alloc"  a single allocation or a resident set beyond the cap               *)
(*   "hang"   wall-clock limit, or a sampler that exhausts its draw budget       *)
Symptoms == Allowed \cup {"crash", "oob", "ub", "alloc", "hang"}

(* "No invention": every value a loader delivers was read from the document.   *)
(* One token can feed at most two fields ("0.25" read as an integer yields 0    *)
(* and leaves ".25" for the next field), hence the factor 2.                    *)
(* A catalogue list yields at most one entry per non-empty line.                *)
Floods(s) == Cardinality({i \in 1..Len(s) : Text(s[i]) = "<FLOOD0>"})
(* When the fault leaves every remaining token whole and in place (a truncation, another line-end convention) there is   *)
(* no such split: a delivered value then needs a token of its own - a record cut in the middle cannot be delivered with   *)
(* its missing fields filled in from somewhere else (tight = TRUE).                                                       *)
AlignedKinds == {"none", "truncate", "crlf", "nofinalnl", "empty", "wsonly"}
Bound(s, tight) == [values |-> (IF tight THEN 1 ELSE 2) * (NumTok(s) + 5000 * Floods(s)), entries |-> NumLines(s) + 5000 * Floods(s)]

Required(s, tight) == [allowed |-> Allowed, bound |-> Bound(s, tight)]

(* An observation of the real loader on a case (all fields integers/strings):  *)
(*   sym      one of Symptoms                                                    *)
(*   values   number of values delivered as loaded data                         *)
(*            (event file: 4 per event + 5 per particle)                        *)
(*   entries  number of entries of a loaded catalogue list                      *)
(*   invalid  number of delivered objects failing the loader's OWN validity     *)
(*            predicate (event::is_valid, p.d.f. value >= 0, first word of a    *)
(*            non-comment line); what a later shoot computes from an accepted   *)
(*            table is not judged, only that it does not crash / hang           *)
(*   alien    number of delivered entries that do not occur in the document     *)
Accept(b, o) ==
  /\ o.sym \in Allowed
  /\ o.invalid = 0
  /\ o.alien = 0
  /\ o.values <= b.values
  /\ o.entries <= b.entries

Why(b, o) ==
  IF o.sym \notin Allowed THEN o.sym
  ELSE IF o.invalid # 0 \/ o.alien # 0 THEN "garbage"
  ELSE IF o.values > b.values \/ o.entries > b.entries THEN "invented"
  ELSE "ok"

-----------------------------------------------------------------------------
(* The enumeration as a transition system: Gen picks a format (initial state  *)
(* = its valid document), Inject(kind, pos) produces the case.                 *)

NoFault == [kind |-> "none", pos |-> 0, role |-> "", crlf |-> FALSE]

Init ==
  /\ fmt \in Formats
  /\ doc = Doc[fmt]
  /\ fault = NoFault
  /\ verdict = Required(doc, TRUE)

Inject(k, i) ==
  /\ fault = NoFault
  \* (= TRUE: evaluate the guard as a plain expression, with short-circuit, not as an action)
  /\ (IF i = 0 THEN k \in DocKinds /\ ApplicableDoc(fmt, k) ELSE k \in PosKinds /\ Applicable(fmt, k, i)) = TRUE
  /\ doc' = Apply(fmt, k, i)
  /\ fault' = [kind |-> k, pos |-> i, role |-> IF i = 0 THEN "doc" ELSE Role(Doc[fmt][i]), crlf |-> (k = "crlf")]
  /\ verdict' = Required(doc', k \in AlignedKinds)
  /\ UNCHANGED fmt

Next == \/ \E k \in PosKinds, i \in 1..Len(Doc[fmt]) : Inject(k, i)
        \/ \E k \in DocKinds : Inject(k, 0)

Spec == Init /\ [][Next]_vars

-----------------------------------------------------------------------------
(* Properties of the enumeration itself, checked by TLC.                       *)

TokenOK(t) == /\ Len(t) = 3
              /\ Kind(t) \in {"nl", "comment", "kw", "int", "count", "real", "name", "word", "cum", "one", "opt", "raw"}

TypeOK ==
  /\ fmt \in Formats
  /\ \A i \in 1..Len(doc) : TokenOK(doc[i])
  /\ fault.kind \in PosKinds \cup DocKinds \cup {"none"}
  /\ fault.pos \in 0..Len(Doc[fmt])
  /\ verdict.allowed = Allowed

(* exactly one fault, and it is effective *)
Effective == fault.kind # "none" => (doc # Doc[fmt] \/ fault.crlf)

(* positions are token indices of the valid document: everything before the    *)
(* fault position is untouched                                                  *)
PrefixKept == fault.pos >= 1 => \A j \in 1..(fault.pos - 1) : j <= Len(doc) /\ doc[j] = Doc[fmt][j]

(* a single fault edits at most one line *)
OneEdit ==
  fault.pos >= 1 /\ fault.kind \notin {"truncate"} =>
    LET s == Doc[fmt]
        a == fault.pos
        tail(x, n) == SubSeq(x, Len(x) - n + 1, Len(x))
        keep == Len(s) - LineEnd(s, a)       \* tokens after the line of the fault
    IN keep <= Len(doc) /\ tail(doc, keep) = tail(s, keep)

(* the bounds never exceed what a document one line longer could hold (plus the values of a flooded row) *)
BoundSane == verdict.bound.values <= 2 * (NumTok(Doc[fmt]) + Len(Doc[fmt]) + 5000 * Floods(doc)) /\ verdict.bound.values >= 0

=============================================================================
