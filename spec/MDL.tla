-------------------------------- MODULE MDL --------------------------------
(* Discrete semantics of the momentum-direction-lock post-generation          *)
(* operation (bxdecay0::momentum_direction_lock_event_op), property C10.      *)
(*                                                                             *)
(* An event is seen as the sequence of its particles' species codes (GEANT3    *)
(* codes: 1 gamma, 2 e+, 3 e-, 13 neutron, 14 proton, 47 alpha).  A            *)
(* configuration is (species filter, rank, error-on-missing flag, cone kind,   *)
(* entry point).  Everything continuous (axis, apertures, momenta, the value   *)
(* of each deviate) is outside the model: the conformance harness              *)
(* (harness/mdl_replay.cc) instantiates every model case with numbers and      *)
(* evaluates the geometric side-conditions in floating point.                  *)
(*                                                                             *)
(* The action Apply is written in the shape of the code (one scan over the     *)
(* particles with a rank counter that stops at the first hit); the statement   *)
(* of the property is written independently, declaratively, as the invariants  *)
(* at the end.  TLC checks the one against the other for every case.           *)
(*                                                                             *)
(* Indices are 0-based in `out` (they are compared with                        *)
(* get_last_target_index() and with positions in the particle vector).         *)
(*                                                                             *)
(* Deviate ledger (documented sampling scheme: one (longitude, cos colatitude) *)
(* pair per trial direction): 2 deviates per accepted direction, 2 more per    *)
(* trial rejected by the rectangular cut; how many trials are rejected depends *)
(* on the deviates, i.e. on the environment: parameter k of Apply.             *)
EXTENDS Integers, Sequences, FiniteSets, TLC

CONSTANTS
  Species,   \* codes that may occur in an event, e.g. {1, 2, 3, 47}
  Filters,   \* species filters: 0 = any (INVALID_PARTICLE), or a code (possibly of a species absent from all events)
  Ranks,     \* -1 = "all selected particles" (selection mode), r >= 0 = target-particle mode
  MaxLen,    \* model bound: particles per event
  MaxRej,    \* model bound: rejected rectangular trials per application
  Chain      \* TRUE: the same configured operation may be applied to further events, and configured again

VARIABLES
  phase,     \* "fresh" | "ready" | "applied"
  conf,      \* the configuration given to the operation
  species,   \* the event of the last application
  out,       \* what the last application did (see Result)
  draws      \* deviates consumed by the last application

vars == <<phase, conf, species, out, draws>>

AnySpecies == 0
Cones == {"circ", "rect"}
Entries == {"axis", "angles", "degrees"}   \* set(code,rank,x,y,z,..), set(code,rank,phi,theta,..) [radians], set(config_type) [degrees]
Confs == [filter : Filters, rank : Ranks, err : BOOLEAN, cone : Cones, entry : Entries]
NoConf == [filter |-> AnySpecies, rank |-> -1, err |-> FALSE, cone |-> "circ", entry |-> "axis"]
Events == UNION {[1..n -> Species] : n \in 0..MaxLen}
Kinds == {"None", "Error", "Unchanged", "RotateAll", "Force"}

\* kind   : outcome class
\* target : index of the target particle (RotateAll) or -1
\* may    : indices whose momentum may differ afterwards (every other particle is bit-identical)
\* cone   : indices whose direction must lie in the requested cone afterwards
\* acc    : number of directions drawn and accepted
\* last   : what get_last_target_index() reports afterwards
Result(k, t, m, c, a) == [kind |-> k, target |-> t, may |-> m, cone |-> c, acc |-> a, last |-> t]
NoResult == Result("None", -1, {}, {}, 0)

-----------------------------------------------------------------------------
(* The operation, in the shape of the code. *)

Match(c, code) == c.filter = AnySpecies \/ code = c.filter

\* One pass over the particles: i = next position (1-based), seen = selected particles passed so far,
\* forced = positions retained.  In target mode the scan stops at the rank-th selected particle.
RECURSIVE Scan(_, _, _, _, _)
Scan(e, c, i, seen, forced) ==
  IF i > Len(e) THEN forced
  ELSE IF ~Match(c, e[i]) THEN Scan(e, c, i + 1, seen, forced)
  ELSE IF c.rank < 0 THEN Scan(e, c, i + 1, seen, forced \cup {i})
  ELSE IF seen = c.rank THEN forced \cup {i}
  ELSE Scan(e, c, i + 1, seen + 1, forced)

Decide(e, c) ==
  LET F == Scan(e, c, 1, 0, {})
      all == {i - 1 : i \in 1..Len(e)}
  IN IF F = {} THEN (IF c.err THEN Result("Error", -1, {}, {}, 0) ELSE Result("Unchanged", -1, {}, {}, 0))
     ELSE IF c.rank >= 0
          THEN LET t == (CHOOSE i \in F : TRUE) - 1 IN Result("RotateAll", t, all, {t}, 1)
          ELSE LET S == {i - 1 : i \in F} IN Result("Force", -1, S, S, Cardinality(S))

Init ==
  /\ phase = "fresh" /\ conf = NoConf /\ species = <<>> /\ out = NoResult /\ draws = 0

\* an operation object may be configured again at any time: it then behaves like a fresh object with the new settings
\* (nothing of the earlier configuration or of the events it served survives)
Configure(c) ==
  /\ phase = "fresh" \/ Chain
  /\ phase' = "ready" /\ conf' = c
  /\ species' = <<>> /\ out' = NoResult /\ draws' = 0

\* k = trials rejected by the rectangular cut during this application
Apply(e, k) ==
  /\ phase = "ready" \/ (Chain /\ phase = "applied")
  /\ LET o == Decide(e, conf) IN
       /\ k >= 0
       /\ (k > 0 => conf.cone = "rect" /\ o.acc > 0)
       /\ out' = o
       /\ draws' = 2 * (o.acc + k)
  /\ species' = e /\ phase' = "applied"
  /\ UNCHANGED conf

Next ==
  \/ \E c \in Confs : Configure(c)
  \/ \E e \in Events : \E k \in 0..MaxRej : Apply(e, k)

Spec == Init /\ [][Next]_vars

-----------------------------------------------------------------------------
(* The statement of C10 (its discrete part), written independently of Scan.   *)

TypeOK ==
  /\ phase \in {"fresh", "ready", "applied"}
  /\ conf \in Confs
  /\ species \in Seq(Species) /\ Len(species) <= MaxLen
  /\ out.kind \in Kinds /\ out.target \in -1..(MaxLen - 1)
  /\ out.may \subseteq 0..(MaxLen - 1) /\ out.cone \subseteq out.may
  /\ draws \in Nat

Idx == {i - 1 : i \in 1..Len(species)}
Sel == {i \in Idx : Match(conf, species[i + 1])}                 \* particles of the filtered species
RankOf(i) == Cardinality({j \in Sel : j < i})                    \* rank of i among them
Wanted == IF conf.rank = -1 THEN Sel ELSE {i \in Sel : RankOf(i) = conf.rank}

Applied == phase = "applied"

\* exactly one of the four outcomes, never "None" after an application
WellDefined == Applied <=> out.kind # "None"

\* "if nothing is selected the event is unchanged or, on request, an error is raised"
NothingSelected ==
  Applied => /\ (Wanted = {}) <=> (out.kind \in {"Unchanged", "Error"})
             /\ (out.kind = "Error") <=> (Wanted = {} /\ conf.err)
             /\ out.kind \in {"Unchanged", "Error"} => out.may = {} /\ out.cone = {} /\ draws = 0 /\ out.last = -1

\* "in target-particle mode the whole event is rotated rigidly and the target's direction lies within the cone":
\* the target is the rank-th particle of the filtered species, every particle may move, only the target is constrained
TargetMode ==
  Applied /\ conf.rank >= 0 /\ Wanted # {} =>
     /\ out.kind = "RotateAll"
     /\ Wanted = {out.target}
     /\ Match(conf, species[out.target + 1]) /\ RankOf(out.target) = conf.rank
     /\ out.may = Idx /\ out.cone = {out.target} /\ out.last = out.target /\ out.acc = 1

\* "in selection mode every selected particle lies in the cone and every other particle is untouched"
SelectionMode ==
  Applied /\ conf.rank = -1 /\ Wanted # {} =>
     /\ out.kind = "Force"
     /\ out.may = Sel /\ out.cone = Sel /\ out.last = -1 /\ out.acc = Cardinality(Sel)

\* the outcome class alone fixes the mode
KindMode ==
  Applied => /\ (out.kind = "RotateAll" => conf.rank >= 0)
             /\ (out.kind = "Force" => conf.rank = -1)

\* deviate ledger
Ledger ==
  Applied => /\ draws >= 2 * out.acc /\ draws % 2 = 0
             /\ (conf.cone = "circ" => draws = 2 * out.acc)
             /\ (out.acc = 0 => draws = 0)

\* the entry point (vector / radian angles / degree structure) has no influence on what is done
EntryIrrelevant ==
  Applied => \A en \in Entries : Decide(species, [conf EXCEPT !.entry = en]) = out

\* an application depends on the configuration and the current event only, not on earlier events (Chain = TRUE)
HistoryFree == [][phase' = "applied" => out' = Decide(species', conf') /\ conf' = conf]_vars
=============================================================================
