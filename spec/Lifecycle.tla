------------------------------ MODULE Lifecycle ------------------------------
(* The configure / initialise / shoot / reset protocol of one decay0_generator *)
(* instance (property C09), written as the state machine the property states. *)
(* One action per public call; the abstract state is the getter projection.    *)
(*                                                                             *)
(* Named deviations from an idealised protocol that the code has on purpose:   *)
(*  - VersionStamp : an Initialize that gets as far as the engine set-up stamps *)
(*    the library version into an empty "decay version", even when it then     *)
(*    fails.  The statement does not forbid it, so the spec allows both.       *)
(*  - is_debug is management state, not configuration: not part of the state.  *)
EXTENDS Integers, Sequences, FiniteSets, TLC

CONSTANTS
  Isotopes,     \* argument classes for set_decay_isotope, e.g. {"", "Co60", "Mo100", "junk"}
  Levels,       \* e.g. {-1, 0, 1, 9}
  Modes,        \* e.g. {0, 1, 4, 7, 20, 21}   (0 = undefined mode)
  MaxOps,       \* bound on registered operations (model bound)
  MaxCount,     \* bound on the event counter (model bound)
  GaData        \* TRUE iff a gA dataset for Mo100/g0 is mounted

VARIABLES g, last

vars == <<g, last>>

Cats   == {"undef", "dbd", "bkg"}
Ranges == {"none", "ok", "inv", "lo", "hi"}   \* no window / 0.5..2.0 MeV / 2.0..1.0 MeV / lower bound only (0.5..) / upper bound only (..2.0)
WindowSet == {"ok", "lo", "hi"}               \* a half-open window is a window: an unset bound keeps the engine's default

Fresh == [init |-> FALSE, cat |-> "undef", iso |-> "", ver |-> FALSE, level |-> -1,
          mode |-> 0, range |-> "none", nops |-> 0, count |-> 0]

TypeOK ==
  /\ g \in [init : BOOLEAN, cat : Cats, iso : Isotopes, ver : BOOLEAN, level : Levels,
            mode : Modes, range : Ranges, nops : 0..MaxOps, count : 0..MaxCount]
  /\ last \in {"ok", "err"}

-----------------------------------------------------------------------------
(* Admission rules restricted to the argument classes above.  They are the    *)
(* rules of property C06 (module DbdRules is the complete table; the model    *)
(* LifecycleAgree checks that the two coincide on this sub-domain).           *)

BkgKnown == {"Co60", "Bi207"}
DbdKnown == {"Mo100"}
WindowModes == {4, 5, 6, 8, 10, 13, 14, 15, 16, 19}
GaModes == {21, 22, 23, 24}
KnownModes == 1..24
\* Mo100 -> Ru100 : level 0 is 0+ (g.s.), level 1 is 2+ (540 keV), 2 is 0+ (1130), 3 is 2+ (1362), 4 is 0+ (1741)
Mo100Levels == 0..4
Spin(l) == IF l \in {1, 3} THEN 2 ELSE 0
ModesFor0 == {1, 2, 3, 4, 5, 6, 9, 10, 11, 12, 13, 14, 15, 17, 18, 19, 20}
ModesFor2 == {3, 7, 8, 9, 10, 11, 12, 16}

\* the checks made before the engine is touched
PreOK(c) ==
  /\ c.cat # "undef"
  /\ c.iso # ""
  /\ c.cat = "dbd" => /\ c.mode \in KnownModes
                      /\ c.level # -1
                      /\ c.range # "inv"

EngineOK(c) ==
  IF c.cat = "bkg" THEN c.iso \in BkgKnown
  ELSE /\ c.iso \in DbdKnown
       /\ IF c.mode \in GaModes
          THEN c.level = 0 /\ GaData /\ c.mode = 21 /\ c.range = "none"   \* mounted: the g0 tables; the g2 tables (mode 22) are
                                                                          \* mounted DAMAGED (cut in the middle of the rows): refused late
          ELSE /\ c.level \in Mo100Levels
               /\ (Spin(c.level) = 0 => c.mode \in ModesFor0)
               /\ (Spin(c.level) = 2 => c.mode \in ModesFor2)
               /\ c.mode \notin {9, 10, 11, 12}          \* Mo100 is a 2b- emitter
               /\ c.mode # 20                            \* 4b only for Zr96, Xe136, Nd150
               /\ (c.range \in WindowSet => c.mode \in WindowModes)

Accept(c) == PreOK(c) /\ EngineOK(c)

-----------------------------------------------------------------------------
Init == g = Fresh /\ last = "ok"

\* every configuration call: refused once initialised, otherwise applied
Res == IF g.init THEN "err" ELSE "ok"

SetCategory(c) == last' = Res /\ g' = IF g.init THEN g ELSE [g EXCEPT !.cat = c]
SetIsotope(i)  == last' = Res /\ g' = IF g.init THEN g ELSE [g EXCEPT !.iso = i]
SetVersion     == last' = Res /\ g' = IF g.init THEN g ELSE [g EXCEPT !.ver = TRUE]
SetLevel(l)    == last' = Res /\ g' = IF g.init THEN g ELSE [g EXCEPT !.level = l]
SetMode(m)     == last' = Res /\ g' = IF g.init THEN g ELSE [g EXCEPT !.mode = m]
SetRange(r)    == last' = Res /\ g' = IF g.init THEN g ELSE [g EXCEPT !.range = r]
\* the mode named by its catalogue label (set_decay_dbd_mode_by_label): m > 0 = the unique label of mode m, 0 = a label that
\* names no mode (the mode becomes undefined).  A configuration call like the others: refused once initialised.
SetModeByLabel(m) == last' = Res /\ g' = IF g.init THEN g ELSE [g EXCEPT !.mode = m]

AddOp ==
  /\ g.nops < MaxOps
  /\ IF g.init THEN last' = "err" /\ UNCHANGED g
               ELSE last' = "ok" /\ g' = [g EXCEPT !.nops = @ + 1]

AddNullOp == last' = "err" /\ UNCHANGED g

Initialize ==
  IF g.init \/ ~PreOK(g)
  THEN last' = "err" /\ UNCHANGED g
  ELSE \/ /\ Accept(g)
          /\ last' = "ok"
          /\ g' = [g EXCEPT !.init = TRUE, !.ver = TRUE]
       \/ /\ ~Accept(g)
          /\ last' = "err"
          /\ \E v \in {g.ver, TRUE} : g' = [g EXCEPT !.ver = v]       \* VersionStamp deviation

Shoot ==
  /\ g.count < MaxCount
  /\ IF g.init THEN last' = "ok" /\ g' = [g EXCEPT !.count = @ + 1]
               ELSE last' = "err" /\ UNCHANGED g

Reset == last' = "ok" /\ g' = Fresh

\* destruction followed by construction of a new instance
Recreate == last' = "ok" /\ g' = Fresh

Next ==
  \/ \E c \in Cats : SetCategory(c)
  \/ \E i \in Isotopes : SetIsotope(i)
  \/ SetVersion
  \/ \E l \in Levels : SetLevel(l)
  \/ \E m \in Modes : SetMode(m)
  \/ \E m \in {x \in Modes : x \in 0..24} : SetModeByLabel(m)
  \/ \E r \in Ranges : SetRange(r)
  \/ AddOp \/ AddNullOp \/ Initialize \/ Shoot \/ Reset \/ Recreate

Spec == Init /\ [][Next]_vars

-----------------------------------------------------------------------------
(* The statement of C09 as invariants / action properties of this machine.   *)

\* "refuses to shoot before initialisation"
ShootOnlyWhenInit == [][(g'.count # g.count /\ g'.count # 0) => g.init]_vars

\* "refuses any configuration change or operation registration after it"
FrozenWhenInit ==
  [][g.init /\ g'.init => /\ g'.cat = g.cat /\ g'.iso = g.iso /\ g'.ver = g.ver /\ g'.level = g.level
                           /\ g'.mode = g.mode /\ g'.range = g.range /\ g'.nops = g.nops]_vars

\* "refuses ... initialisation from an incomplete or invalid configuration"
InitOnlyIfAccepted == g.init => Accept(g)

\* "a failed initialisation leaves it un-initialised" (and nothing but the version stamp moves)
FailedInitHarmless ==
  [][(~g.init /\ last' = "err") => (~g'.init /\ [g' EXCEPT !.ver = g.ver] = g)]_vars

\* "... and still usable": from every reachable state some initialised state is reachable.  This is a
\* reachability (EF) statement; bin/check C09 decides it on the state graph TLC dumps for this module.

\* "After reset it is indistinguishable from a newly constructed one": Reset and Recreate have the same
\* effect by construction; what it means for the code is decided by the replay (getter projection and
\* events compared with a really fresh instance).  On the model: an un-initialised generator has count 0.
NotInitCountZero == ~g.init => g.count = 0
=============================================================================
