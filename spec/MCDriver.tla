----------------------------- MODULE MCDriver -----------------------------
(* Model constants for Driver: a handful of plans with N <= 3 records.  The header key sets are kept small  *)
(* (keys may be produced in any order); the real key sets appear in the validated traces.                   *)
EXTENDS Driver
P(v, k, r, o) == [verdict |-> v, n |-> k, req |-> r, opt |-> o]
MCPlans == { P("run", 3, {"seed", "nb-events"}, {"library-name"}),
             P("run", 1, {"seed"}, {}),
             P("run", 2, {"seed", "nuclide", "activity-Bq"}, {}),
             P("unspecified", 2, {"seed"}, {"other"}),
             P("refuse", 1, {"seed"}, {}),
             P("usage", 1, {"seed"}, {}) }
=============================================================================
