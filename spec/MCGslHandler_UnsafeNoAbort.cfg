\* Unsafe, 3 threads x 2 quadratures: NoAbort MUST be violated (non-vacuity)
SPECIFICATION Spec
CONSTANTS
  Threads <- T3
  Quads = 2
  MaxTries = 2
  UseLock = FALSE
INVARIANTS TypeOK NoAbort
CHECK_DEADLOCK FALSE
