SPECIFICATION Spec
CONSTANTS
  Threads <- T3
  Calls = 2
  Mode = "Once"
  Refill = FALSE
INVARIANTS TypeOK NoTwoFill NoReadDuringFill ReadsFull
CHECK_DEADLOCK FALSE
