-------------------------------- MODULE Codec --------------------------------
(* The documented ASCII record format of bxdecay0 events (property C11, first  *)
(* sentence; README section "The bxdecay0-run program") as a token stream,     *)
(* and the 15-significant-digit round trip through it.                         *)
(*                                                                             *)
(*   EventID EventTime NuclideName                                             *)
(*   NumberOfParticles                                                         *)
(*   ParticleId0 ParticleDecayTime0 MomentumX0 MomentumY0 MomentumZ0           *)
(*   ...                                                                       *)
(*   <blank line>                                                              *)
(*                                                                             *)
(* Numbers are not modelled as reals (TLC has none).  A value is a pair        *)
(* [c, x]: c names a *value class* (how many significant decimal digits the    *)
(* double needs, where it sits in the exponent range, its sign) that the       *)
(* conformance harness renders to concrete doubles; x says whether it is the   *)
(* original double ("exact") or the double nearest to its 15-digit decimal     *)
(* ("r15").  The only arithmetic fact used is the DBL_DIG axiom: a decimal     *)
(* with at most 15 significant digits survives decimal -> double -> decimal,   *)
(* hence for a class whose doubles need at most 15 digits r15 = exact, and     *)
(* printing an r15 value with 15 digits gives the text it was read from.       *)
(*                                                                             *)
(* TLC enumerates which class sits in which field of which record shape        *)
(* (constant Events); StoreEvent / LoadEvent are the two directions of the     *)
(* format; the invariants are the statement: same label, particle count,       *)
(* species and order, every time / momentum component equal to 15 digits.      *)
(* Outside the documented format, hence outside this model: NaN / infinite     *)
(* components, empty labels or labels containing white space.                  *)
EXTENDS Naturals, Sequences, FiniteSets

CONSTANTS
  Events,     \* the set of abstract events to enumerate (defined in MCCodec.tla)
  EventId     \* the EventID written in front of the record (ignored by the reader)

VARIABLES rec, toks, out, phase
vars == <<rec, toks, out, phase>>

\* ---- value classes ---------------------------------------------------------
ClassSeq == << "one",      \* 1 significant digit
               "d15",      \* exactly 15 significant digits
               "d17",      \* a double that needs 16 or 17 digits: the stored text is a rounding of it
               "carry",    \* just below a power of ten: rounding to 15 digits carries into a new digit
               "denorm",   \* subnormal
               "tiny",     \* about 1e-300, 17 digits
               "huge",     \* about 1e+300, 17 digits
               "negzero",  \* -0
               "zero",     \* 0
               "expfmt" >> \* at the fixed / exponent notation switch-over of the default float format
Classes == {ClassSeq[i] : i \in 1..Len(ClassSeq)}
Exact15 == {"one", "d15", "negzero", "zero"}      \* classes whose doubles have a <= 15 digit decimal

LabelSeq == << "short",    \* a nuclide name
               "long",     \* several hundred characters
               "punct",    \* punctuation, no white space
               "digits" >> \* looks like a number
Labels == {LabelSeq[i] : i \in 1..Len(LabelSeq)}

CodeSeq == <<1, 2, 3, 47>>                        \* gamma, positron, electron, alpha
Codes == {CodeSeq[i] : i \in 1..Len(CodeSeq)}

Value(c)  == [c |-> c, x |-> "exact"]
Norm(v)   == IF v.c \in Exact15 THEN [v EXCEPT !.x = "exact"] ELSE v
Values    == [c : Classes, x : {"exact", "r15"}]
Particles == [code : Codes, t : Values, px : Values, py : Values, pz : Values]
Records   == [label : Labels, time : Values, parts : Seq(Particles)]

\* ---- tokens ----------------------------------------------------------------
\* "int" an integer, "num" a number printed with precision 15, "word" a label, "nl" an end of line
Int(n)    == [k |-> "int", n |-> n]
Num(v)    == [k |-> "num", c |-> v.c]            \* the text depends on the class only (axiom above)
Word(l)   == [k |-> "word", l |-> l]
NL        == [k |-> "nl"]

PartToks(p) == <<Int(p.code), Num(p.t), Num(p.px), Num(p.py), Num(p.pz), NL>>
RECURSIVE PartsToks(_)
PartsToks(ps) == IF ps = <<>> THEN <<>> ELSE PartToks(Head(ps)) \o PartsToks(Tail(ps))

\* the record as bxdecay0-run writes it: id, event::store(STORE_EVENT_TIME), blank line
Encode(id, r) ==
  <<Int(id), Num(r.time), Word(r.label), NL, Int(Len(r.parts)), NL>> \o PartsToks(r.parts) \o <<NL>>

\* the reader's view: white space (including ends of line) only separates tokens
RECURSIVE Strip(_)
Strip(ts) == IF ts = <<>> THEN <<>>
             ELSE IF Head(ts).k = "nl" THEN Strip(Tail(ts)) ELSE <<Head(ts)>> \o Strip(Tail(ts))

Read(tok) == Norm([c |-> tok.c, x |-> "r15"])    \* decimal text -> nearest double

\* parse one record from the stripped stream; result [ok, rec, rest]
Bad == [ok |-> FALSE, rec |-> <<>>, rest |-> <<>>]
RECURSIVE ParseParts(_, _, _)
ParseParts(ts, n, acc) ==
  IF n = 0 THEN [ok |-> TRUE, parts |-> acc, rest |-> ts]
  ELSE IF Len(ts) < 5 THEN [ok |-> FALSE, parts |-> acc, rest |-> ts]
  ELSE IF ~(ts[1].k = "int" /\ \A i \in 2..5 : ts[i].k = "num") THEN [ok |-> FALSE, parts |-> acc, rest |-> ts]
  ELSE ParseParts(SubSeq(ts, 6, Len(ts)), n - 1,
                  Append(acc, [code |-> ts[1].n, t |-> Read(ts[2]), px |-> Read(ts[3]),
                               py |-> Read(ts[4]), pz |-> Read(ts[5])]))

Decode(stream) ==
  LET ts == Strip(stream) IN
  IF Len(ts) < 4 THEN Bad
  ELSE IF ~(ts[1].k = "int" /\ ts[2].k = "num" /\ ts[3].k = "word" /\ ts[4].k = "int") THEN Bad
  ELSE LET pp == ParseParts(SubSeq(ts, 5, Len(ts)), ts[4].n, <<>>) IN
       IF ~pp.ok THEN Bad
       ELSE [ok |-> TRUE, rec |-> [label |-> ts[3].l, time |-> Read(ts[2]), parts |-> pp.parts], rest |-> pp.rest]

\* ---- the two directions ----------------------------------------------------
None == [ok |-> FALSE, rec |-> <<>>, rest |-> <<>>]

Init == rec \in Events /\ toks = <<>> /\ out = None /\ phase = "new"

StoreEvent == phase = "new" /\ toks' = Encode(EventId, rec) /\ phase' = "stored" /\ UNCHANGED <<rec, out>>
LoadEvent  == phase = "stored" /\ out' = Decode(toks) /\ phase' = "loaded" /\ UNCHANGED <<rec, toks>>
Next == StoreEvent \/ LoadEvent
Spec == Init /\ [][Next]_vars

\* ---- the statement ---------------------------------------------------------
TypeOK == rec \in Records /\ phase \in {"new", "stored", "loaded"}

Eq15(a, b) == Num(a) = Num(b)                    \* equal to 15 significant digits
SameTo15(r, s) ==
  /\ r.label = s.label
  /\ Len(r.parts) = Len(s.parts)
  /\ Eq15(r.time, s.time)
  /\ \A i \in 1..Len(r.parts) :
       /\ r.parts[i].code = s.parts[i].code
       /\ Eq15(r.parts[i].t, s.parts[i].t) /\ Eq15(r.parts[i].px, s.parts[i].px)
       /\ Eq15(r.parts[i].py, s.parts[i].py) /\ Eq15(r.parts[i].pz, s.parts[i].pz)

\* "read back with the same generator label, particle count, species and order, and with every time and
\*  momentum component equal to 15 significant digits"; nothing of the record is left unread
RoundTrip == phase = "loaded" => (out.ok /\ SameTo15(out.rec, rec) /\ out.rest = <<>>)

\* components whose double has a decimal of at most 15 digits come back as the very same double
ExactWhenShort ==
  phase = "loaded" /\ out.ok =>
    /\ (rec.time.c \in Exact15 => out.rec.time = rec.time)
    /\ \A i \in 1..Len(out.rec.parts) : rec.parts[i].t.c \in Exact15 => out.rec.parts[i].t = rec.parts[i].t

\* a record that was read and is stored again gives the same text (the format is a fixed point)
Restorable == phase = "loaded" /\ out.ok => Encode(EventId, out.rec) = toks

\* the documented line structure: header line of 3 items, count line, one line of 5 items per particle, blank line
LineCount(ts) == Cardinality({i \in 1..Len(ts) : ts[i].k = "nl"})
Shape == phase # "new" =>
  /\ LineCount(toks) = 3 + Len(rec.parts)
  /\ Len(toks) = 7 + 6 * Len(rec.parts)
  /\ toks[4] = NL /\ toks[6] = NL /\ toks[Len(toks)] = NL /\ toks[Len(toks) - 1] = NL
=============================================================================
