--------------------------- MODULE TraceTransition ---------------------------
(* Trace validation of the transition primitives against Transition.tla: what  *)
(* a nucltrans* / pair / PbAtShell call really emitted (particle hooks inside   *)
(* the primitive's scope, harness/cosim.cc --tr-trace), energies in eV.         *)
(*  {"e":"Begin","p":<primitive>,"eg":..,"ebk":..,"ebl":..,"ebm":..}            *)
(*  {"e":"Emit","c":"g"|"e-"|"e+","ev":..}   {"e":"End"}                        *)
EXTENDS Transition, Json, IOUtils

VARIABLE l
tvars == <<vars, l>>
Log == ndJsonDeserialize(IOEnv.TRACE)
Near(a, b) == (a - b) \in {-1, 0, 1}

TInit == /\ prim = "none" /\ e = 0 /\ ebk = 0 /\ ebl = 0 /\ ebm = 0 /\ stage = "idle" /\ out = <<>>
         /\ lholes = 0 /\ mholes = 0 /\ hole = 0 /\ neglected = FALSE /\ l = 1

TBegin ==
  /\ l <= Len(Log) /\ Log[l].e = "Begin" /\ stage \in {"idle", "done"}
  /\ prim' = Log[l].p /\ e' = Log[l].eg /\ ebk' = Log[l].ebk /\ ebl' = Log[l].ebl /\ ebm' = Log[l].ebm
  /\ stage' = "start" /\ out' = <<>> /\ lholes' = 0 /\ mholes' = 0 /\ hole' = 0 /\ neglected' = FALSE
  /\ l' = l + 1

\* a model action that emits k particles consumes k "Emit" lines, which must carry exactly those particles
Emits(k) ==
  /\ l + k - 1 <= Len(Log)
  /\ Len(out') = Len(out) + k
  /\ \A i \in 1..k : /\ Log[l + i - 1].e = "Emit"
                     /\ Log[l + i - 1].c = out'[Len(out) + i].c
                     /\ Near(Log[l + i - 1].ev, out'[Len(out) + i].ev)
  /\ l' = l + k

TEmit1 == (Gamma \/ (\E sh \in {"K", "L", "M"} : Convert(sh)) \/ XRay \/ KtoM \/ KtoLX \/ KtoLLAuger \/ LtoMX \/ LtoMMAuger \/ MX) /\ Emits(1)
TEmit2 == (Pair \/ (\E x1 \in {74000, 85000}, x2 \in {14000, 3000} : PbK(x1, x2))) /\ Emits(2)
TSilent == (PairCreate \/ ShellStart \/ LDone \/ MDone \/ PbKNeglected) /\ l <= Len(Log) /\ UNCHANGED l
TEnd == /\ l <= Len(Log) /\ Log[l].e = "End" /\ stage = "done" /\ l' = l + 1 /\ UNCHANGED vars

TNext == TBegin \/ TEmit1 \/ TEmit2 \/ TSilent \/ TEnd
TraceSpec == TInit /\ [][TNext]_tvars

Progress == TLCSet(1, IF TLCGet(1) > l THEN TLCGet(1) ELSE l)
Good == EnergyConserved /\ Bounded /\ NoHolesLeft
ProgressGood == Progress /\ Good
Accepted == /\ PrintT(<<"furthest-line", TLCGet(1), "of", Len(Log)>>)
            /\ TLCGet(1) > Len(Log)
MCPrims == {}
MCNone == {}
ASSUME TLCSet(1, 0)
=============================================================================
