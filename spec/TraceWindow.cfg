SPECIFICATION TraceSpec
CONSTANTS
  Bounds <- MCBounds
  Ratios <- MCRatios
PROPERTY Monotone
CONSTRAINT ProgressGood
POSTCONDITION Accepted
CHECK_DEADLOCK FALSE
