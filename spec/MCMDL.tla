------------------------------- MODULE MCMDL -------------------------------
(* Model constants for MDL (TLC's cfg syntax has no negative literals). *)
EXTENDS MDL
MCSpecies == {1, 2, 3, 47}            \* gamma, e+, e-, alpha
MCFilters == {0, 1, 2, 3, 47, 13}     \* any, gamma, e+, e-, alpha, neutron (a species no event contains)
MCRanks   == -1..3
MCRanksSmall == -1..2
=============================================================================
