------------------------------- MODULE Reader -------------------------------
(* The contract of bxdecay0::event_reader over a list of input files          *)
(* (property C11), as the statement gives it:                                  *)
(*   "Over any list of input files the reader delivers exactly the events      *)
(*    numbered start .. start+max-1 (or to the end when max is 0) of the       *)
(*    concatenated stream, in order, skipping empty files; whenever it         *)
(*    announces a next event, loading it succeeds, and when the window is      *)
(*    empty it announces none."                                                *)
(*                                                                             *)
(* The list of files (one event count per file, 0 = empty file), the first     *)
(* event `start` and the limit `max` are chosen in the initial state           *)
(* (= set_configuration), so one TLC run covers every partition x window x     *)
(* interleaving of has_next_event / load_next_event calls within the bounds,   *)
(* and the exported state graph tells the replayer which files to write and    *)
(* what every call has to answer.                                              *)
(*                                                                             *)
(* Events are identified by their 0-based rank in the concatenated stream.     *)
(* What is NOT part of the statement and therefore not of this contract:       *)
(* is_terminated(), the parsed-events counter, the file/in-file indices.       *)
(* `term` below only says when a reader MAY report itself terminated (the      *)
(* window is exhausted and the reader had a chance to notice); the replayer    *)
(* requires of the real flag just "terminated => no announce, Load throws".    *)
EXTENDS Naturals, Sequences

CONSTANTS
  MaxFiles,     \* 1 .. MaxFiles input files
  MaxPerFile,   \* 0 .. MaxPerFile events in each of them
  MaxStart,     \* start_event in 0 .. MaxStart
  MaxMax,       \* max_nb_events in 0 .. MaxMax   (0 = no limit)
  MaxCalls      \* bound on the number of calls in one behaviour

VARIABLES
  files,      \* sequence of event counts, one per input file
  start, max, \* the window asked for
  delivered,  \* sequence of the stream ranks delivered so far, in order
  term,       \* the reader may report itself terminated
  ann,        \* the last call was a has_next_event that answered true
  calls,      \* number of calls so far
  last        \* outcome of the last call: what the caller observes

vars == <<files, start, max, delivered, term, ann, calls, last>>

RECURSIVE Sum(_)
Sum(s) == IF s = <<>> THEN 0 ELSE Head(s) + Sum(Tail(s))

\* ranks of the events stored in file i, and the concatenated stream
FileEvents(i) == [k \in 1..files[i] |-> Sum(SubSeq(files, 1, i - 1)) + k - 1]
RECURSIVE ConcatUpTo(_)
ConcatUpTo(i) == IF i = 0 THEN <<>> ELSE ConcatUpTo(i - 1) \o FileEvents(i)
Stream == ConcatUpTo(Len(files))
Total  == Len(Stream)

Min(a, b) == IF a < b THEN a ELSE b
WinBeg == Min(start, Total)                                       \* number of events before the window
WinEnd == IF max = 0 THEN Total ELSE Min(Total, start + max)      \* number of events before its end
Window == SubSeq(Stream, WinBeg + 1, WinEnd)                      \* what has to be delivered, in this order
WindowEmpty == Window = <<>>                                      \* <=> start >= Total

Remaining == Len(delivered) < Len(Window)

FileSeqs == UNION {[1..n -> 0..MaxPerFile] : n \in 1..MaxFiles}

Outcomes == {"Configure", "HasNext:T", "HasNext:F", "Load:ok", "Load:throw"}

TypeOK ==
  /\ files \in FileSeqs /\ start \in 0..MaxStart /\ max \in 0..MaxMax
  /\ delivered \in Seq(0..(MaxFiles * MaxPerFile))
  /\ term \in BOOLEAN /\ ann \in BOOLEAN /\ calls \in 0..MaxCalls /\ last \in Outcomes

-----------------------------------------------------------------------------
\* set_configuration(files, start, max) on a new reader
Init ==
  /\ files \in FileSeqs /\ start \in 0..MaxStart /\ max \in 0..MaxMax
  /\ delivered = <<>> /\ term = FALSE /\ ann = FALSE /\ calls = 0 /\ last = "Configure"

Call == calls < MaxCalls /\ calls' = calls + 1 /\ UNCHANGED <<files, start, max>>

\* has_next_event(): true iff an event of the window is still to be delivered; no other effect
HasNext ==
  /\ Call
  /\ ann'  = Remaining
  /\ last' = IF Remaining THEN "HasNext:T" ELSE "HasNext:F"
  /\ term' = (term \/ ~Remaining)
  /\ UNCHANGED delivered

\* load_next_event() succeeds: the next event of the window, nothing else
LoadOk ==
  /\ Call
  /\ Remaining
  /\ delivered' = Append(delivered, Window[Len(delivered) + 1])
  /\ term' = (Len(delivered) + 1 = Len(Window))
  /\ ann'  = FALSE
  /\ last' = "Load:ok"

\* load_next_event() with nothing left in the window: refused, nothing delivered
LoadErr ==
  /\ Call
  /\ ~Remaining
  /\ last' = "Load:throw"
  /\ ann'  = FALSE
  /\ term' = TRUE
  /\ UNCHANGED delivered

Load == LoadOk \/ LoadErr
Next == HasNext \/ Load
Spec == Init /\ [][Next]_vars

-----------------------------------------------------------------------------
(* The statement of C11 (reader part) as invariants / action properties.      *)

\* "delivers exactly the events numbered start .. start+max-1 (or to the end when max is 0) of the
\*  concatenated stream, in order": what has been delivered is always a prefix of the window ...
DeliveredIsWindowPrefix ==
  /\ Len(delivered) <= Len(Window)
  /\ delivered = SubSeq(Window, 1, Len(delivered))
\* ... and the window is the right slice of the stream, whatever the partition into files
WindowIsSlice ==
  /\ Stream = [k \in 1..Total |-> k - 1]
  /\ \A i \in 1..Len(Window) : Window[i] = start + i - 1
  /\ Len(Window) = (IF start >= Total THEN 0
                    ELSE IF max = 0 THEN Total - start ELSE Min(max, Total - start))
\* ... completely: a reader that refuses or announces nothing has delivered the whole window
ExactlyTheWindow == (last \in {"HasNext:F", "Load:throw"}) => delivered = Window

\* "whenever it announces a next event, loading it succeeds"
AnnouncedLoads == ann => Remaining
AnnouncedLoadsStep == [][(ann /\ last' \in {"Load:ok", "Load:throw"}) => last' = "Load:ok"]_vars

\* "when the window is empty it announces none"
EmptyWindowSilent == WindowEmpty => (last # "HasNext:T" /\ last # "Load:ok" /\ delivered = <<>>)

\* the loaded-events counter of the reader is Len(delivered): it moves by one on Load:ok and only then
LoadedCounts == [][Len(delivered') = Len(delivered) + (IF last' = "Load:ok" THEN 1 ELSE 0)]_vars

\* terminated is absorbing, and a terminated reader neither announces nor delivers
TermAbsorbing == [][term => term']_vars
TermSilent    == term => ~Remaining
TermStep      == [][term => last' \in {"HasNext:F", "Load:throw"}]_vars
=============================================================================
