\* Unsafe, 3 threads x 1 quadrature, no invariant: the complete graph is exported; its paths are schedules
SPECIFICATION Spec
CONSTANTS
  Threads <- T3
  Quads = 1
  MaxTries = 2
  UseLock = FALSE
INVARIANTS TypeOK
CHECK_DEADLOCK FALSE
